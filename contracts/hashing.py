"""Contracts for dds/fun_args.py: value hashing (C05, C03) -- dds_hash and its nested functions."""
import z3

from .common import *
from .pyval import *
from pyvc.engine import _Raise, _PathEnd, Closure
from pyvc.spec import CompSpec
from pyvc import locate
import dds.structures as DS

FILE = "dds/fun_args.py"
TSeqS = TSeq(TStr)


def code_term(code):
    if isinstance(code, Sym):
        return code.term
    if code is None:
        return z3.IntVal(-1)
    return z3.IntVal(int(code))


class _HashSpec(FnSpec):
    file = FILE

    def __init__(self):
        super().__init__()
        g = self.globals
        g["_algo_str"] = Model(lambda eng, a, k, n: Sym(SHA(UTF8(as_str(eng, a[0], n))), TStr), "contract:_algo_str")
        g["_algo_bytes"] = Model(lambda eng, a, k, n: Sym(SHA(BYTES.lift(a[0]).term), TStr), "contract:_algo_bytes")
        g["hashlib"] = ObjVal("hashlib")
        g["struct"] = ObjVal("struct")
        g["dataclasses"] = ObjVal("dataclasses")
        g["repr"] = Model(self.m_text, "repr")
        g["str"] = Model(self.m_text, "str")
        g["str"].pyclass = str
        g["list"] = Model(self.m_list, "list")
        g["list"].pyclass = list
        g["getattr"] = Model(self.m_getattr, "getattr")
        self.classes["hashlib"] = {"sha256": Model(self.m_sha256, "hashlib.sha256")}
        self.classes["sha256"] = {"hexdigest": Model(lambda eng, a, k, n: Sym(SHA(a[0].fields["data"].term), TStr), "hexdigest"), "update": Model(self.m_update, "update")}
        self.classes["struct"] = {"pack": Model(self.m_pack, "struct.pack")}
        self.classes["dataclasses"] = {"is_dataclass": Model(self.m_is_dc, "is_dataclass"), "fields": Model(self.m_fields, "fields")}
        self.classes["deque"] = {"append": Model(lambda eng, a, k, n: None), "pop": Model(lambda eng, a, k, n: None)}

    # ---- external models (assumed contracts) --------------------------------------------------
    def m_sha256(self, eng, args, kwargs, node):
        return ObjVal("sha256", data=BYTES.lift(args[1]))

    CONCAT_B = z3.Function("bytes_concat", B, B, B)

    def m_update(self, eng, args, kwargs, node):
        o = args[0]
        o.fields["data"] = Sym(self.CONCAT_B(o.fields["data"].term, BYTES.lift(args[1]).term), BYTES)
        return None

    def m_pack(self, eng, args, kwargs, node):
        fmt, v = args[1], args[2]
        t = TPV.lift(v).term
        if fmt == "!l":
            iv = z3.If(IS["VBool"](t), z3.If(ACC["VBool"][0](t), z3.IntVal(1), z3.IntVal(0)), ACC["VInt"][0](t))
            eng.oblige("struct_pack_l_argument_is_int", z3.Or(IS["VInt"](t), IS["VBool"](t)), kind="safety:struct.error", node=node)
            # A-PACK: struct.pack("!l", i) raises struct.error outside the signed 32-bit range
            eng.oblige("struct_pack_l_range", in32(iv), kind="safety:struct.error", node=node)
            return Sym(PACKL(iv), BYTES)
        if fmt == "!d":
            eng.oblige("struct_pack_d_argument_is_float", IS["VFloat"](t), kind="safety:struct.error", node=node)
            return Sym(PACKD(ACC["VFloat"][0](t)), BYTES)
        raise OutOfSubset("struct.pack format %r" % (fmt,))

    def m_is_dc(self, eng, args, kwargs, node):
        return Sym(IS["VDataCls"](TPV.lift(args[1]).term), TBool)

    def m_fields(self, eng, args, kwargs, node):
        t = TPV.lift(args[1]).term
        eng.oblige("fields_of_dataclass", IS["VDataCls"](t), kind="safety:TypeError", node=node)
        return Sym(FIELDS(ACC["VDataCls"][0](t)), TSeq(FIELD))

    def m_getattr(self, eng, args, kwargs, node):
        t = TPV.lift(args[0]).term
        eng.oblige("getattr_of_dataclass", IS["VDataCls"](t), kind="safety:AttributeError", node=node)
        return Sym(ATTR(ACC["VDataCls"][0](t), TStr.lift(args[1]).term), TPV)

    def m_text(self, eng, args, kwargs, node):
        """repr() / str() of a value whose text form is its identity (dates, paths); opaque otherwise"""
        v = args[0]
        if isinstance(v, Sym) and v.ty == TPV:
            t = v.term
            return Sym(z3.If(IS["VInt"](t), INTSTR(ACC["VInt"][0](t)), z3.If(IS["VDate"](t), ACC["VDate"][0](t), z3.If(IS["VPath"](t), ACC["VPath"][0](t), z3.If(IS["VCanon"](t), ACC["VCanon"][0](t), TEXT_OF(t))))), TStr)
        if isinstance(v, Sym) and v.ty == TStr:
            return v
        if isinstance(v, Sym) and v.ty == TInt:
            return Sym(INTSTR(v.term), TStr)
        if isinstance(v, str):
            return v
        return Opaque("text")

    def m_list(self, eng, args, kwargs, node):
        if not args:
            return ListVal([])
        v = args[0]
        if isinstance(v, Sym) and v.ty == TPV:
            eng.oblige("list_of_tuple", z3.Or(IS["VTuple"](v.term), IS["VList"](v.term)), kind="safety:TypeError", node=node)
            return Sym(C["VList"](z3.If(IS["VTuple"](v.term), ACC["VTuple"][0](v.term), ACC["VList"][0](v.term))), TPV)
        from pyvc.spec import m_list

        return m_list(eng, args, kwargs, node)

    def method_other(self, eng, recv, name, args, kwargs, node):
        if isinstance(recv, str) and name == "encode":
            return Sym(UTF8(z3.StringVal(recv)), BYTES)
        if isinstance(recv, Sym) and recv.ty == TStr and name == "encode":
            return Sym(UTF8(recv.term), BYTES)
        if recv == "|" and name == "join":
            s = args[0]
            t = s.term if isinstance(s, Sym) else s.sym().term
            return Sym(BARJOIN(t), TStr)
        if isinstance(recv, Sym) and recv.ty == TPV and name == "items":
            t = recv.term
            eng.oblige("items_of_dict", z3.Or(IS["VDict"](t), IS["VOrdDict"](t)), kind="safety:AttributeError", node=node)
            return Sym(z3.If(IS["VOrdDict"](t), ACC["VOrdDict"][0](t), ACC["VDict"][0](t)), TSeq(TPAIR))
        return NotImplemented

    def sym_getattr(self, eng, o, attr, node):
        return NotImplemented


def as_str(eng, v, node):
    """a value used where a str is required (str.encode): a PyVal must be a VStr there"""
    if isinstance(v, Sym) and v.ty == TPV:
        eng.oblige("str_method_on_str_value", IS["VStr"](v.term), kind="safety:AttributeError", node=node)
        return ACC["VStr"][0](v.term)
    return TStr.lift(v).term


TEXT_OF = z3.Function("text_of_other", PV, S)


def pv_len(eng, v, node):
    t = v.term
    ok = z3.Or(IS["VList"](t), IS["VTuple"](t), IS["VDict"](t), IS["VOrdDict"](t), IS["VStr"](t))
    eng.oblige("len_of_sized_value", ok, kind="safety:TypeError", node=node)
    return Sym(
        z3.If(
            IS["VList"](t),
            z3.Length(ACC["VList"][0](t)),
            z3.If(IS["VTuple"](t), z3.Length(ACC["VTuple"][0](t)), z3.If(IS["VDict"](t), z3.Length(ACC["VDict"][0](t)), z3.If(IS["VOrdDict"](t), z3.Length(ACC["VOrdDict"][0](t)), z3.Length(ACC["VStr"][0](t))))),
        ),
        TInt,
    )


def pv_iter(eng, v):
    t = v.term
    eng.oblige("iterate_sequence_value", z3.Or(IS["VList"](t), IS["VTuple"](t)), kind="safety:TypeError")
    items = z3.If(IS["VTuple"](t), ACC["VTuple"][0](t), ACC["VList"][0](t))
    return z3.Length(items), (lambda k: Sym(items[k], TPV))


def pv_as_int(eng, v, node):
    t = v.term
    eng.oblige("ordering_comparison_on_int_value", z3.Or(IS["VInt"](t), IS["VBool"](t)), kind="safety:TypeError", node=node)
    return Sym(z3.If(IS["VBool"](t), z3.If(ACC["VBool"][0](t), z3.IntVal(1), z3.IntVal(0)), ACC["VInt"][0](t)), TInt)


TPV.as_int = staticmethod(pv_as_int)
TPV.len_ = staticmethod(pv_len)
TPV.iter_ = staticmethod(pv_iter)


class algo_bytes(_HashSpec):
    qualname = "_algo_bytes"

    def make_args(self, eng):
        return {"b": BYTES.const("b")}

    def ensures(self, ctx):
        return [("is_sha256_hexdigest", TStr.lift(ctx.result).term == SHA(ctx.args["b"].term))]


class algo_str(_HashSpec):
    qualname = "_algo_str"

    def __init__(self):
        super().__init__()
        self.globals.pop("_algo_str")

    def make_args(self, eng):
        return {"s": TStr.const("s")}

    def ensures(self, ctx):
        return [("is_sha256_of_utf8", TStr.lift(ctx.result).term == SHA(UTF8(ctx.args["s"].term)))]


class dds_hash0(_HashSpec):
    """dds_hash._dds_hash0(elt): result == spec_hash(elt); raises only the coded errors spec_err(elt) names."""

    qualname = "dds_hash._dds_hash0"
    may_raise = True

    def __init__(self):
        super().__init__()
        elt_items = lambda ctx: None
        self.comps[0] = CompSpec(  # [_dds_hash(y, idx) for (idx, y) in enumerate(elt)]
            elem=lambda item: Sym(SH(item[1].term), TStr),
            err=lambda item: ER(item[1].term),
            result=lambda it: Sym(MAPH(self._items()), TSeqS),
            first_err=lambda it: FIRSTNZ(MAPE(self._items())),
            exc=self._exc,
        )
        for o, c in ((1, "VOrdDict"), (2, "VDict")):  # [_hash_dict_tuple(k, v) for (k, v) in elt.items()]
            self.comps[o] = CompSpec(
                elem=lambda item: Sym(pair_hash(PK(item.term), PVv(item.term)), TStr),
                err=lambda item: z3.If(ER(PK(item.term)) != 0, ER(PK(item.term)), ER(PVv(item.term))),
                result=lambda it, c=c: Sym(MAPPH(ACC[c][0](self._elt())), TSeqS),
                first_err=lambda it, c=c: FIRSTNZ(MAPPE(ACC[c][0](self._elt()))),
                exc=self._exc,
            )
        self.comps[3] = CompSpec(  # [f.name for f in dataclasses.fields(elt)]
            elem=lambda item: FIELD.get(item.term, "name"), result=lambda it: Sym(MAPNAME(FIELDS(self._dc())), TSeqS)
        )
        self.comps[4] = CompSpec(  # [_dds_hash(getattr(elt, n), n) for n in names]
            elem=lambda item: Sym(SH(ATTR(self._dc(), item.term)), TStr),
            err=lambda item: ER(ATTR(self._dc(), item.term)),
            result=lambda it: Sym(DC_VALH(self._dc(), self._names()), TSeqS),
            first_err=lambda it: FIRSTNZ(DC_VALE(self._dc(), self._names())),
            exc=self._exc,
        )
        self.comps[5] = CompSpec(  # [_hash_dict_tuple(name, h) for (name, h) in zip(names, vals)]
            elem=lambda item: Sym(pair_hash(C["VStr"](item[0].term), C["VStr"](item[1].term)), TStr),
            result=lambda it: Sym(DC_PAIRH(self._names(), DC_VALH(self._dc(), self._names())), TSeqS),
        )

    def _elt(self):
        return self.ctx.args["elt"].term

    def _items(self):
        return ACC["VList"][0](self._elt())

    def _dc(self):
        return ACC["VDataCls"][0](self._elt())

    def _names(self):
        return MAPNAME(FIELDS(self._dc()))

    def _exc(self, code):
        return ExcVal(DS.DDSException, code=Sym(code, TInt))

    def ih(self, eng, args, kwargs, node):
        """recursive call: the function's own contract on a sub-value (induction hypothesis; A-REC gives the measure)"""
        x = TPV.lift(args[0]).term
        if eng.choose(ER(x) != 0):
            eng.assume(z3.Or(ER(x) == T_NOT_SUPPORTED, ER(x) == T_TOO_LONG))
            raise _Raise(ExcVal(DS.DDSException, code=Sym(ER(x), TInt)))
        return Sym(SH(x), TStr)

    def make_args(self, eng):
        env = {"elt": TPV.const("elt")}
        env["max_sequence_size"] = Sym(MAXSEQ, TInt)
        env["trace"] = ObjVal("deque")
        env["_dds_hash0"] = Model(self.ih, "IH:_dds_hash0")
        for nm in ("_dds_hash", "_hash_dict_tuple", "check_len", "current_path"):
            fdef, _, _ = locate.find(FILE, "dds_hash." + nm)
            env[nm] = Closure(fdef, env, eng)
        return env

    def requires(self, ctx):
        x = ctx.args["elt"].term
        out = [("max_sequence_size_is_a_natural", MAXSEQ >= 0)]
        out += [("definition_of_spec_at_elt_%d" % i, e) for i, e in enumerate(unfold(x))]
        out += [("leaf_definition_%d" % i, e) for i, e in enumerate(leaf_axioms())]
        out += [("map_length_%d" % i, e) for i, e in enumerate(map_axioms())]
        # first_nonzero of a sequence of error codes is 0 or one of the codes
        xs = z3.Const(sv.fresh_name("xs"), SeqI)
        return out

    def ensures(self, ctx):
        x = ctx.args["elt"].term
        return [("result_is_spec_hash", TStr.lift(ctx.result).term == SH(x)), ("no_error_specified", ER(x) == 0)]

    def signals(self, ctx):
        x = ctx.args["elt"].term
        e = ctx.exc
        ct = code_term(e.code)
        return [
            ("only_coded_dds_errors", e.cls is DS.DDSException),
            ("error_is_the_specified_one", z3.And(ER(x) != 0, ct == ER(x))),
        ]


SPECS = [algo_bytes, algo_str, dds_hash0]
