"""Contracts for dds/_api.py:set_store -- option decoding (C12 cache_objects, C16 local directories, C19 commit type)."""
import sys

import z3

from .common import *
from .api_stages import NAME, UPPER, lit
from pyvc.engine import _Raise, _PathEnd
import dds.structures as DS
import dds.codecs.databricks as DBX
import dds._lru_store as LRU

CT = DBX.CommitType
TCT = TEnum(CT)
DOCUMENTED = {"none": CT.NO_COMMIT, "links_only": CT.LINK_ONLY, "full": CT.FULL}
ENUM_NAMES = {m.name: m for m in CT}
LITS = sorted({s for d in DOCUMENTED for s in (d, d.upper())} | set(ENUM_NAMES) | {n.lower() for n in ENUM_NAMES} | {""})


class _SetStore(FnSpec):
    file, qualname = "dds/_api.py", "set_store"
    may_raise = True

    def __init__(self):
        super().__init__()
        g = self.globals
        g["LocalFileStore"] = Model(self.ctor("LocalFileStore"), "LocalFileStore")
        g["NoOpStore"] = Model(self.ctor("NoOpStore"), "NoOpStore")
        g["MemoryStore"] = Model(self.ctor("MemoryStore"), "MemoryStore")
        g["LRUCacheStore"] = Model(self.ctor("LRUCacheStore"), "LRUCacheStore")
        g["DBFSStore"] = Model(self.ctor("DBFSStore"), "DBFSStore")
        g["DBFSURI"] = ObjVal("DBFSURI_cls")
        self.classes["DBFSURI_cls"] = {"parse": Model(lambda eng, a, k, n: a[1], "DBFSURI.parse")}
        g["CommitType"] = CT
        g["Store"] = DS.__dict__.get("Store") or __import__("dds.store", fromlist=["Store"]).Store
        g["_store"] = Model(lambda eng, a, k, n: eng.st.globals["_store_var"], "_store")
        g["_fetch_ipython_vars"] = Model(lambda eng, a, k, n: ObjVal("dictlike"), "_fetch_ipython_vars")
        self.classes["dictlike"] = {"get": Model(lambda eng, a, k, n: None, "get")}
        g["pathlib"] = Opaque("pathlib")
        g["tempfile"] = Opaque("tempfile")
        g["str"] = Model(self.m_str, "str")
        g["str"].pyclass = str
        g["sys"] = sys
        g["default_cache_size"] = LRU.default_cache_size

    def ctor(self, cls):
        def model(eng, args, kwargs, node):
            eng.event("construct:" + cls, args=list(args), kwargs=dict(kwargs))
            o = ObjVal(cls, args=list(args), kwargs=dict(kwargs))
            o.pyclass = self.globals["Store"]
            return o

        return model

    def m_str(self, eng, args, kwargs, node):
        v = args[0]
        if isinstance(v, Sym) and v.ty == NAME:
            return v
        if isinstance(v, Sym) and isinstance(v.ty, TOpt) and v.ty.inner == NAME:
            return Sym(v.ty.val(v.term), NAME)  # reached only when the value is truthy (not None)
        if isinstance(v, str):
            return NAME.lift(v)
        if isinstance(v, Opaque):
            return Opaque("str")
        raise OutOfSubset("str(%r)" % (v,))

    def truthy(self, eng, v):
        if isinstance(v, Sym) and isinstance(v.ty, TOpt) and v.ty.inner == NAME:
            return z3.And(z3.Not(v.ty.is_none(v.term)), v.ty.val(v.term) != lit(""))
        if isinstance(v, Sym) and v.ty == NAME:
            return v.term != lit("")
        return super().truthy(eng, v)

    def method_other(self, eng, recv, name, args, kwargs, node):
        if isinstance(recv, Sym) and recv.ty == NAME and name == "upper":
            return Sym(UPPER(recv.term), NAME)
        if isinstance(recv, Sym) and isinstance(recv.ty, TOpt) and recv.ty.inner == NAME and name == "upper":
            return Sym(UPPER(recv.ty.val(recv.term)), NAME)
        return NotImplemented

    def py_getattr(self, eng, o, attr, node):
        if isinstance(o, Opaque):
            return Opaque(o.what + "." + attr)
        return NotImplemented

    def getitem_other(self, eng, o, k, node):
        # a constant table (dict literal or module constant) indexed by a symbolic string
        if isinstance(o, dict) and isinstance(k, Sym) and k.ty == NAME and all(isinstance(x, str) for x in o):
            keys = list(o)
            eng.oblige("table_key_present", z3.Or(*[k.term == lit(x) for x in keys]), kind="safety:KeyError", node=node)
            t = TCT.lift(o[keys[-1]]).term
            for x in reversed(keys[:-1]):
                t = z3.If(k.term == lit(x), TCT.lift(o[x]).term, t)
            return Sym(t, TCT)
        return super().getitem_other(eng, o, k, node)

    def contains_other(self, eng, container, x, node):
        return NotImplemented

    def make_globals(self, eng):
        return {"_store_var": None}

    def upper_axioms(self):
        x = z3.Const(sv.fresh_name("x"), NAME.sort())
        ax = [z3.Distinct(*[lit(s) for s in LITS])]
        ax += [UPPER(lit(s)) == lit(s.upper()) for s in LITS]
        ax.append(z3.ForAll([x], UPPER(UPPER(x)) == UPPER(x)))
        return ax


class set_store_dbfs(_SetStore):
    """store='dbfs': every documented commit type (None, 'none', 'links_only', 'full', in any case) selects the commit type
    it documents; anything else is a coded DDS error -- never a KeyError."""

    variant = "dbfs / commit_type"

    def make_args(self, eng):
        return {"store": "dbfs", "internal_dir": "dbfs:/internal", "data_dir": "dbfs:/data", "dbutils": ObjVal("dbutils"), "commit_type": TOpt(NAME).const("commit_type"), "cache_objects": None}

    def requires(self, ctx):
        return [("upper_%d" % i, a) for i, a in enumerate(self.upper_axioms())]

    def _requested(self, ctx):
        c = ctx.args["commit_type"]
        return z3.If(z3.Or(c.ty.is_none(c.term), c.ty.val(c.term) == lit("")), lit("FULL"), UPPER(c.ty.val(c.term)))

    def ensures(self, ctx):
        built = [e for e in ctx.events if e.kind == "construct:DBFSStore"]
        if len(built) != 1:
            return [("one_dbfs_store_built", False)]
        ct = built[0].data["args"][3]
        ctt = TCT.lift(ct).term
        u = self._requested(ctx)
        idx = lambda m: list(CT).index(m)
        return [
            ("none_selects_no_commit", z3.Implies(u == lit("NONE"), ctt == idx(CT.NO_COMMIT))),
            ("links_only_selects_link_only", z3.Implies(u == lit("LINKS_ONLY"), ctt == idx(CT.LINK_ONLY))),
            ("full_or_default_selects_full", z3.Implies(u == lit("FULL"), ctt == idx(CT.FULL))),
            ("store_is_set", ctx.globals["_store_var"] is not None and ctx.globals["_store_var"].cls == "DBFSStore"),
        ]

    def signals(self, ctx):
        u = self._requested(ctx)
        e = ctx.exc
        return [("only_coded_dds_errors", e.cls is DS.DDSException), ("documented_commit_types_are_accepted", z3.And(u != lit("NONE"), u != lit("LINKS_ONLY"), u != lit("FULL")))]


class _Cache(_SetStore):
    def ensures_cache(self, ctx, expected):
        """expected: None (no wrapper) or z3 Int term / python int for the capacity"""
        built = [e for e in ctx.events if e.kind == "construct:LRUCacheStore"]
        sv_ = ctx.globals["_store_var"]
        if expected is None:
            return [("no_cache_wrapper", len(built) == 0 and sv_ is not None and sv_.cls == "MemoryStore")]
        if len(built) != 1:
            return [("one_cache_wrapper", False)]
        n = built[0].data["kwargs"].get("num_elem", built[0].data["args"][1] if len(built[0].data["args"]) > 1 else None)
        nt = TInt.lift(n).term
        inner = built[0].data["args"][0]
        return [("capacity_as_documented", nt == expected), ("capacity_positive", nt > 0), ("wraps_the_selected_store", isinstance(inner, ObjVal) and inner.cls == "MemoryStore"), ("wrapper_installed", sv_ is not None and sv_.cls == "LRUCacheStore")]


class set_store_cache_none(_Cache):
    variant = "cache_objects=None"

    def make_args(self, eng):
        return {"store": "memory", "internal_dir": None, "data_dir": None, "dbutils": None, "commit_type": None, "cache_objects": None}

    def ensures(self, ctx):
        return self.ensures_cache(ctx, None)


class set_store_cache_bool(_Cache):
    variant = "cache_objects: bool"

    def make_args(self, eng):
        return {"store": "memory", "internal_dir": None, "data_dir": None, "dbutils": None, "commit_type": None, "cache_objects": TBool.const("cache_objects")}

    def ensures(self, ctx):
        b = ctx.args["cache_objects"].term
        built = [e for e in ctx.events if e.kind == "construct:LRUCacheStore"]
        out = [("True_means_default_size_False_means_no_cache", z3.If(b, len(built) == 1, len(built) == 0))]
        if built:
            out += self.ensures_cache(ctx, z3.IntVal(LRU.default_cache_size))
        return out


class set_store_cache_int(_Cache):
    variant = "cache_objects: int"

    def make_args(self, eng):
        return {"store": "memory", "internal_dir": None, "data_dir": None, "dbutils": None, "commit_type": None, "cache_objects": TInt.const("cache_objects")}

    def ensures(self, ctx):
        n = ctx.args["cache_objects"].term
        built = [e for e in ctx.events if e.kind == "construct:LRUCacheStore"]
        out = [("zero_means_no_cache", z3.If(n == 0, len(built) == 0, len(built) == 1))]
        if built:
            out += self.ensures_cache(ctx, z3.If(n < 0, z3.IntVal(sys.maxsize // 2), n))
        return out


class set_store_cache_other(_Cache):
    variant = "cache_objects: neither bool nor int"

    def make_args(self, eng):
        return {"store": "memory", "internal_dir": None, "data_dir": None, "dbutils": None, "commit_type": None, "cache_objects": TStr.const("cache_objects")}

    def ensures(self, ctx):
        return [("must_be_rejected", False)]

    def signals(self, ctx):
        return [("coded_dds_error", ctx.exc.cls is DS.DDSException)]


class set_store_object_and_cache(_Cache):
    variant = "Store instance + cache_objects"

    def make_args(self, eng):
        s = ObjVal("MemoryStore")
        s.pyclass = self.globals["Store"]
        return {"store": s, "internal_dir": None, "data_dir": None, "dbutils": None, "commit_type": None, "cache_objects": TInt.const("cache_objects")}

    def ensures(self, ctx):
        return [("must_be_rejected", False)]

    def signals(self, ctx):
        return [("coded_dds_error", ctx.exc.cls is DS.DDSException), ("store_not_replaced", ctx.globals["_store_var"] is None)]


CACHE_SPECS = [set_store_cache_none, set_store_cache_bool, set_store_cache_int, set_store_cache_other, set_store_object_and_cache]
DBFS_SPECS = [set_store_dbfs]
SPECS = CACHE_SPECS + DBFS_SPECS
