"""Contracts for dds/codec.py (CodecRegistry) and dds/codecs/builtins.py (C17)."""
import z3

from .common import *
from .fsmodel import *
from pyvc.engine import _Raise, _PathEnd
import dds.structures as DS

CODEC = TUn("Codec")
CD = CODEC.sort()
REFOF = z3.Function("codec_ref", CD, z3.StringSort())  # codec.ref()
HANDLED = z3.Function("codec_handled_types", CD, z3.SeqSort(z3.StringSort()))  # codec.handled_types()
OPT_CODEC = TOpt(CODEC)
OPT_REF = TOpt(TStr)
OBJECT_T = "object"


def registry_obj():
    return ObjVal(
        "CodecRegistry",
        codecs=SeqBox(TSeq(CODEC).const("self.codecs").term, TSeq(CODEC)),
        file_codecs=SeqBox(TSeq(CODEC).const("self.file_codecs").term, TSeq(CODEC)),
        _handled_types=MapVal.named("self._handled_types", TStr, CODEC),
        _protocols=MapVal.named("self._protocols", TStr, CODEC),
    )


def REG(protocols):
    """a reference denotes a codec that names itself by that reference (legacy aliases are declared)"""
    return forall(TStr, lambda r: z3.Implies(protocols.has(r), z3.Or(REFOF(protocols.get(r)) == r, ALIAS(r))))


ALIAS = z3.Function("is_declared_legacy_alias", z3.StringSort(), z3.BoolSort())


class _Reg(FnSpec):
    file = "dds/codec.py"

    def __init__(self):
        super().__init__()
        self.classes["CodecRegistry"] = {}
        self.globals["SupportedTypeUtils"] = ObjVal("STU")
        self.classes["STU"] = {"from_type": Model(lambda eng, a, k, n: OBJECT_T if a[1] is object else a[1], "from_type")}

    def sym_getattr(self, eng, o, attr, node):
        return NotImplemented

    def method_other(self, eng, recv, name, args, kwargs, node):
        if isinstance(recv, Sym) and recv.ty == CODEC:
            if name == "ref":
                return Sym(REFOF(recv.term), TStr)
            if name == "handled_types":
                return Sym(HANDLED(recv.term), TSeq(TStr))
        if isinstance(recv, SeqBox) and name == "insert" and args[0] == 0:
            recv.term = z3.Concat(z3.Unit(recv.ty.elt.lift(args[1]).term), recv.term)
            return None
        return NotImplemented


class add_codec(_Reg):
    qualname = "CodecRegistry.add_codec"

    def __init__(self):
        super().__init__()
        self.loops[0] = LoopSpec(invariant=self.inv)

    def make_args(self, eng):
        return {"self": registry_obj(), "codec": CODEC.const("codec")}

    def requires(self, ctx):
        return [("REG", REG(ctx.args["self"]._protocols))]

    def inv(self, ctx, env, k):
        o, n = ctx.old["self"], env["self"]
        c = ctx.args["codec"].term
        ts = HANDLED(c)
        j = z3.Int(sv.fresh_name("j"))
        seen = lambda t: z3.Exists([j], z3.And(0 <= j, j < k, ts[j] == t))
        return [
            ("handled_so_far", forall(TStr, lambda t: z3.And(n._handled_types.has(t) == z3.Or(o._handled_types.has(t), seen(t)), z3.Implies(seen(t), n._handled_types.get(t) == c), z3.Implies(z3.And(z3.Not(seen(t)), o._handled_types.has(t)), n._handled_types.get(t) == o._handled_types.get(t))))),
            ("protocols_untouched_in_loop", z3.And(n._protocols.dom == o._protocols.dom, n._protocols.val == o._protocols.val)),
        ]

    def ensures(self, ctx):
        o, n = ctx.old["self"], ctx.args["self"]
        c = ctx.args["codec"].term
        ts = HANDLED(c)
        j = z3.Int(sv.fresh_name("j"))
        mine = lambda t: z3.Exists([j], z3.And(0 <= j, j < z3.Length(ts), ts[j] == t))
        return [
            ("its_types_now_resolve_to_it", forall(TStr, lambda t: z3.Implies(mine(t), z3.And(n._handled_types.has(t), n._handled_types.get(t) == c)))),
            ("other_types_unchanged", forall(TStr, lambda t: z3.Implies(z3.Not(mine(t)), z3.And(n._handled_types.has(t) == o._handled_types.has(t), z3.Implies(o._handled_types.has(t), n._handled_types.get(t) == o._handled_types.get(t)))))),
            ("registered_under_its_own_reference", z3.And(n._protocols.has(REFOF(c)), n._protocols.get(REFOF(c)) == c)),
            ("other_references_unchanged", forall(TStr, lambda r: z3.Implies(r != REFOF(c), z3.And(n._protocols.has(r) == o._protocols.has(r), z3.Implies(o._protocols.has(r), n._protocols.get(r) == o._protocols.get(r)))))),
            ("REG_preserved", REG(n._protocols)),
        ]


class add_file_codec(add_codec):
    qualname = "CodecRegistry.add_file_codec"

    def inv(self, ctx, env, k):
        o, n = ctx.old["self"], env["self"]
        c = ctx.args["codec"].term
        ts = HANDLED(c)
        j = z3.Int(sv.fresh_name("j"))
        seen = lambda t: z3.Exists([j], z3.And(0 <= j, j < k, ts[j] == t))
        return [
            ("existing_type_bindings_kept", forall(TStr, lambda t: z3.Implies(o._handled_types.has(t), z3.And(n._handled_types.has(t), n._handled_types.get(t) == o._handled_types.get(t))))),
            ("new_bindings_are_its_own_types", forall(TStr, lambda t: z3.Implies(z3.And(n._handled_types.has(t), z3.Not(o._handled_types.has(t))), z3.And(seen(t), n._handled_types.get(t) == c)))),
            ("seen_types_bound", forall(TStr, lambda t: z3.Implies(seen(t), n._handled_types.has(t)))),
            ("protocols_untouched_in_loop", z3.And(n._protocols.dom == o._protocols.dom, n._protocols.val == o._protocols.val)),
        ]

    def ensures(self, ctx):
        o, n = ctx.old["self"], ctx.args["self"]
        c = ctx.args["codec"].term
        return [
            # file codecs never take over a type or a reference that is already bound: what was written stays readable
            ("existing_type_bindings_kept", forall(TStr, lambda t: z3.Implies(o._handled_types.has(t), z3.And(n._handled_types.has(t), n._handled_types.get(t) == o._handled_types.get(t))))),
            ("existing_references_kept", forall(TStr, lambda r: z3.Implies(o._protocols.has(r), z3.And(n._protocols.has(r), n._protocols.get(r) == o._protocols.get(r))))),
            ("its_reference_is_bound", n._protocols.has(REFOF(c))),
            ("only_its_reference_added", forall(TStr, lambda r: z3.Implies(z3.And(n._protocols.has(r), z3.Not(o._protocols.has(r))), z3.And(r == REFOF(c), n._protocols.get(r) == c)))),
            ("REG_preserved", REG(n._protocols)),
        ]


class get_codec(_Reg):
    qualname = "CodecRegistry.get_codec"
    may_raise = True

    def make_args(self, eng):
        return {"self": registry_obj(), "obj_type": OPT_REF.const("obj_type"), "ref": OPT_REF.const("ref")}

    def _by_ref(self, ctx):
        r = ctx.args["ref"].term
        return z3.And(z3.Not(OPT_REF.is_none(r)), z3.Length(OPT_REF.val(r)) > 0)

    def ensures(self, ctx):
        s = ctx.old["self"]
        r, t = OPT_REF.val(ctx.args["ref"].term), OPT_REF.val(ctx.args["obj_type"].term)
        res = CODEC.lift(ctx.result).term if not (isinstance(ctx.result, Sym) and isinstance(ctx.result.ty, TOpt)) else OPT_CODEC.val(ctx.result.term)
        by_ref = self._by_ref(ctx)
        h = s._handled_types
        obj = z3.StringVal(OBJECT_T)
        return [
            ("reference_wins_and_denotes_the_registered_codec", z3.Implies(by_ref, z3.And(s._protocols.has(r), res == s._protocols.get(r)))),
            ("else_the_codec_bound_to_the_type_or_the_object_codec", z3.Implies(z3.Not(by_ref), z3.And(z3.Not(OPT_REF.is_none(ctx.args["obj_type"].term)), res == z3.If(h.has(t), h.get(t), h.get(obj)), z3.Or(h.has(t), h.has(obj))))),
            ("registry_unchanged", z3.And(ctx.args["self"]._protocols.dom == s._protocols.dom, ctx.args["self"]._protocols.val == s._protocols.val, ctx.args["self"]._handled_types.val == s._handled_types.val)),
        ]

    def signals(self, ctx):
        s = ctx.old["self"]
        e = ctx.exc
        r, t = OPT_REF.val(ctx.args["ref"].term), OPT_REF.val(ctx.args["obj_type"].term)
        by_ref = self._by_ref(ctx)
        h = s._handled_types
        return [
            ("only_coded_dds_errors", e.cls is DS.DDSException),
            ("only_when_nothing_is_registered_for_the_request", z3.If(by_ref, z3.Not(s._protocols.has(r)), z3.Or(OPT_REF.is_none(ctx.args["obj_type"].term), z3.And(z3.Not(h.has(t)), z3.Not(h.has(z3.StringVal(OBJECT_T))))))),
        ]


# -------------------------------------------------------------------------------------------------
# built-in codecs: text and bytes are stored verbatim
# -------------------------------------------------------------------------------------------------
UTF8B = z3.Function("utf8_encode", z3.StringSort(), BT)
UTF8D = z3.Function("utf8_decode", BT, z3.StringSort())


class _Builtin(FnSpec):
    file = "dds/codecs/builtins.py"

    def __init__(self):
        super().__init__()
        self.fsm = FsModels(self, lambda eng: eng.st.globals["__fs__"])
        self.globals["str"] = Model(lambda eng, a, k, n: a[0], "str")
        self.globals["str"].pyclass = str

    def make_globals(self, eng):
        return {"__fs__": FS("fs")}

    def base_requires(self, ctx):
        fs = ctx.globals["__fs__"]
        s = z3.String("s_")
        return [("path_%d" % i, a) for i, a in enumerate(path_axioms())] + [("bytes_%d" % i, a) for i, a in enumerate(bcat_axioms())] + [
            ("fs_wf", fs.wf()[0]),
            ("A-UTF8 round trip", z3.ForAll([s], UTF8D(UTF8B(s)) == s)),
        ]

    def method_other(self, eng, recv, name, args, kwargs, node):
        if isinstance(recv, Sym) and recv.ty == TStr and name == "encode":
            return Sym(UTF8B(recv.term), BYTES)
        if isinstance(recv, Sym) and recv.ty == BYTES and name == "decode":
            return Sym(UTF8D(recv.term), TStr)
        return NotImplemented


class string_serialize(_Builtin):
    qualname = "StringLocalFileCodec.serialize_into"

    def make_args(self, eng):
        return {"self": ObjVal("StringLocalFileCodec"), "blob": TStr.const("blob"), "loc": FSP.const("loc")}

    def requires(self, ctx):
        fs = ctx.globals["__fs__"]
        loc = ctx.args["loc"].term
        return self.base_requires(ctx) + [("target_dir_exists", fs.isdir(DIRNAME(loc))), ("target_is_not_a_dir_or_link", z3.Or(fs.kind[loc] == ABSENT, fs.kind[loc] == FILE))]

    def ensures(self, ctx):
        fs0, fs1 = ctx.old_globals["__fs__"], ctx.globals["__fs__"]
        loc = ctx.args["loc"].term
        a = z3.Const(sv.fresh_name("a"), P)
        return [
            ("file_holds_the_text_verbatim_as_utf8", z3.And(fs1.kind[loc] == FILE, fs1.complete[loc], fs1.content[loc] == UTF8B(ctx.args["blob"].term))),
            ("nothing_else_written", z3.ForAll([a], z3.Implies(a != loc, z3.And(fs1.kind[a] == fs0.kind[a], fs1.content[a] == fs0.content[a], fs1.target[a] == fs0.target[a])))),
        ]


class string_deserialize(_Builtin):
    qualname = "StringLocalFileCodec.deserialize_from"

    def make_args(self, eng):
        return {"self": ObjVal("StringLocalFileCodec"), "loc": FSP.const("loc")}

    def requires(self, ctx):
        fs = ctx.globals["__fs__"]
        loc = ctx.args["loc"].term
        return self.base_requires(ctx) + [("file_written_by_this_codec", z3.And(fs.kind[loc] == FILE, fs.content[loc] == UTF8B(z3.String("written_text"))))]

    def ensures(self, ctx):
        return [("reads_back_the_text", TStr.lift(ctx.result).term == z3.String("written_text"))]


class bytes_serialize(string_serialize):
    qualname = "BytesFileCodec.serialize_into"

    def make_args(self, eng):
        b = BYTES.const("blob")
        return {"self": ObjVal("BytesFileCodec"), "blob": b, "loc": FSP.const("loc")}

    def __init__(self):
        super().__init__()
        self.globals["isinstance"] = Model(lambda eng, a, k, n: True, "isinstance(bytes)")

    def ensures(self, ctx):
        fs0, fs1 = ctx.old_globals["__fs__"], ctx.globals["__fs__"]
        loc = ctx.args["loc"].term
        return [("file_holds_the_bytes_verbatim", z3.And(fs1.kind[loc] == FILE, fs1.complete[loc], fs1.content[loc] == ctx.args["blob"].term))]


class bytes_deserialize(_Builtin):
    qualname = "BytesFileCodec.deserialize_from"

    def make_args(self, eng):
        return {"self": ObjVal("BytesFileCodec"), "loc": FSP.const("loc")}

    def requires(self, ctx):
        fs = ctx.globals["__fs__"]
        return self.base_requires(ctx) + [("file_exists", fs.kind[ctx.args["loc"].term] == FILE)]

    def ensures(self, ctx):
        fs0 = ctx.old_globals["__fs__"]
        return [("reads_back_the_file_content", BYTES.lift(ctx.result).term == fs0.content[ctx.args["loc"].term])]


SPECS = [add_codec, add_file_codec, get_codec, string_serialize, string_deserialize, bytes_serialize, bytes_deserialize]
