"""Contract for dds/introspect.py:InspectFunction.inspect_call (C11 cycle guard and nested eval, C09 registration of kept
paths, C01/C03 call-site context composition).  Name resolution (ObjectRetrieval.retrieve_object) and the recursive descent
(_introspect) are abstracted; what is verified is what inspect_call does with their answers."""
import ast as _ast
import types

import z3

from .common import *
from .sigs import PAIR, SeqPair, DHC, OPT_S, mkpair
from pyvc.engine import _Raise, _PathEnd
from pyvc.spec import as_seq
import dds.structures as DS
import dds._eval_ctx as EC

CPATH = TUn("CanonPath")
CP = CPATH.sort()
PYOBJ = TUn("PyObj")
ISFUN = z3.Function("is_FunctionType", PYOBJ.sort(), z3.BoolSort())
ISCLASS = z3.Function("inspect_isclass", PYOBJ.sort(), z3.BoolSort())
CP_LOAD, CP_EVAL, CP_KEEP = (z3.Const("cp_dds_" + n, CP) for n in ("load", "eval", "keep"))
SIG_OF_DESCENT = z3.Function("sig_of_descent", z3.IntSort(), z3.StringSort())


class inspect_call(FnSpec):
    file, qualname = "dds/introspect.py", "InspectFunction.inspect_call"
    may_raise = True

    def __init__(self):
        super().__init__()
        g = self.globals
        g["_function_name"] = Model(lambda eng, a, k, n: Opaque("names"), "_function_name")
        g["LocalDepPath"] = Model(self.m_local_path, "LocalDepPath")
        g["PurePosixPath"] = Model(lambda eng, a, k, n: a[0], "PurePosixPath")
        g["ObjectRetrieval"] = ObjVal("ObjectRetrieval")
        self.classes["ObjectRetrieval"] = {"retrieve_object": Model(self.m_retrieve, "ObjectRetrieval.retrieve_object")}
        g["CanonicalPathUtils"] = ObjVal("CPU")
        self.classes["CPU"] = {"from_list": Model(self.m_from_list, "CanonicalPathUtils.from_list")}
        g["isinstance"] = Model(self.m_isinstance, "isinstance")
        g["inspect"] = ObjVal("inspect")
        self.classes["inspect"] = {"isclass": Model(lambda eng, a, k, n: Sym(ISCLASS(a[1].term), TBool), "inspect.isclass")}
        g["get_arg_ctx_ast"] = Model(self.m_get_arg_ctx_ast, "contract:get_arg_ctx_ast")
        g["FunctionArgContext"] = Model(lambda eng, a, k, n: ObjVal("FunctionArgContext", **k), "FunctionArgContext")
        g["dds_hash_commut"] = Model(self.m_commut, "contract:dds_hash_commut")
        g["_introspect"] = Model(self.m_descend, "_introspect (recursive descent)")
        g["OrderedDict"] = Model(lambda eng, a, k, n: ObjVal("KwargsOf", src=a[0]) if a else ObjVal("KwargsOf", src=None), "OrderedDict")
        g["len"] = Model(self.m_len, "len")
        self.classes["InspectFunction"] = {"_retrieve_store_path": Model(self.m_store_path, "_retrieve_store_path")}
        self.classes["FunctionInteractions"] = {"_replace": Model(self.m_replace, "_replace")}
        self.classes["LocalPath"] = {}

    def method_other(self, eng, recv, name, args, kwargs, node):
        if recv == "/" and name == "join":
            return Opaque("joined names")
        return NotImplemented

    # ---- models ---------------------------------------------------------------------------
    def m_local_path(self, eng, args, kwargs, node):
        n = sum(1 for e in eng.st.events if e.kind == "local_path")
        eng.event("local_path", arg=args[0])
        return ObjVal("LocalPath", parts=ListVal([TStr.const("head_of_local_path_%d" % n)]), idx=n)

    def m_from_list(self, eng, args, kwargs, node):
        l = args[1]
        items = [x for x in (l.items if isinstance(l, ListVal) else l)]
        if items == ["dds", "load"]:
            return Sym(CP_LOAD, CPATH)
        if items == ["dds", "eval"]:
            return Sym(CP_EVAL, CPATH)
        if items == ["dds", "keep"]:
            return Sym(CP_KEEP, CPATH)
        raise OutOfSubset("from_list(%r)" % (items,))

    def m_retrieve(self, eng, args, kwargs, node):
        """name resolution: None, an external object, or an authorized object with its value and canonical path"""
        lp = args[1]
        n = sum(1 for e in eng.st.events if e.kind == "retrieve")
        eng.event("retrieve", local_path=lp)
        kind = z3.Int("resolution_kind_%d" % n)
        if eng.choose(kind == 0):
            return None
        if eng.choose(kind == 1):
            o = ObjVal("ExternalObject", resolved_path=CPATH.const("ext_path_%d" % n))
            o.pyclass = EC.ExternalObject
            return o
        o = ObjVal("AuthorizedObject", object_val=PYOBJ.const("resolved_object_%d" % n), resolved_path=CPATH.const("resolved_path_%d" % n))
        o.pyclass = EC.AuthorizedObject
        return o

    def m_isinstance(self, eng, args, kwargs, node):
        v, c = args[0], args[1]
        if isinstance(v, Sym) and v.ty == PYOBJ and c is types.FunctionType:
            return Sym(ISFUN(v.term), TBool)
        if isinstance(v, ObjVal) and v.cls == "AstArg":
            if c is _ast.Name:
                return Sym(v.fields["is_name"].term, TBool)
            return False
        from pyvc.spec import m_isinstance

        return m_isinstance(eng, args, kwargs, node)

    def m_len(self, eng, args, kwargs, node):
        v = args[0]
        if isinstance(v, ObjVal) and v.cls == "AstArgs":
            return v.fields["n"]
        from pyvc.spec import m_len

        return m_len(eng, args, kwargs, node)

    def m_store_path(self, eng, args, kwargs, node):
        eng.event("store_path_of", arg=args[1])
        if eng.choose(z3.Bool(sv.fresh_name("store_path_invalid"))):
            raise _Raise(DDSExc(code=DS.DDSErrorCode.STORE_PATH_NOT_SUPPORTED))
        return PATH.const("store_path_of_call")

    def m_get_arg_ctx_ast(self, eng, args, kwargs, node):
        eng.event("get_arg_ctx_ast", fun=args[0], pos=args[1], kw=args[2])
        return Opaque("named_args")

    def m_commut(self, eng, args, kwargs, node):
        s = as_seq(eng, args[0], hint=SeqPair.const("hint_pairs")).term
        eng.assume(z3.Not(OPT_S.is_none(DHC(s))))  # non-empty list (contract of dds_hash_commut)
        return Sym(DHC(s), OPT_S)

    def m_descend(self, eng, args, kwargs, node):
        n = sum(1 for e in eng.st.events if e.kind == "descend")
        eng.event("descend", fun=args[0], arg_ctx=args[1], gctx=args[2], stack=args[3])
        if eng.choose(z3.Bool(sv.fresh_name("descent_raises"))):
            raise _Raise(DDSExc(code="from the recursive analysis"))
        return ObjVal("FunctionInteractions", fun_return_sig=Sym(SIG_OF_DESCENT(z3.IntVal(n)), TStr), store_path=None)

    def m_replace(self, eng, args, kwargs, node):
        o = args[0]
        n = ObjVal(o.cls, **o.fields)
        n.fields.update(kwargs)
        return n

    def getitem(self, eng, o, k, node):
        if isinstance(o, ObjVal) and o.cls == "AstArgs":
            n = o.fields["n"].term
            if isinstance(k, int):
                eng.oblige("args_index_in_range", n > k, kind="safety:IndexError", node=node)
                if k == 1:
                    return ObjVal("AstArg", is_name=TBool.const("second_arg_is_a_name"), id=TStr.const("second_arg_id"), idx=1)
                return ObjVal("AstArg", is_name=TBool.const("arg%d_is_a_name" % k), id=TStr.const("arg%d_id" % k), idx=k)
        return super().getitem(eng, o, k, node)

    def getslice(self, eng, o, lo, hi, node):
        if isinstance(o, ObjVal) and o.cls == "AstArgs" and lo == 2 and hi is None:
            return ObjVal("AstArgsRest", of=o)
        return super().getslice(eng, o, lo, hi, node)

    def eval_comprehension(self, eng, e, env, kind):
        # [(n.arg, n.value) for n in node.keywords]
        it = eng.eval(e.generators[0].iter, env)
        if isinstance(it, ObjVal) and it.cls == "AstKeywords":
            return ObjVal("KeywordPairs", of=it)
        return super().eval_comprehension(eng, e, env, kind)

    def make_args(self, eng):
        node = ObjVal("Call", func=Opaque("node.func"), args=ObjVal("AstArgs", n=TInt.const("number_of_call_args")), keywords=ObjVal("AstKeywords"))
        gctx = ObjVal("EvalMainContext", resolved_references=MapVal.named("resolved_references", PATH, TStr))
        return {
            "cls": ObjVal("InspectFunction"),
            "node": node,
            "gctx": gctx,
            "mod": Opaque("mod"),
            "function_body_hash": TStr.const("function_body_hash"),
            "function_input_sig": TStr.const("function_input_sig"),
            "function_inter_hash": OPT_S.const("function_inter_hash"),
            "var_names": MapVal.named("var_names", TStr, None),
            "call_stack": TSeq(CPATH).const("call_stack"),
            "debug": False,
        }

    def requires(self, ctx):
        return [("nargs_nonneg", ctx.args["number_of_call_args" if False else "node"].fields["args"].fields["n"].term >= 0), ("special_paths_distinct", z3.Distinct(CP_LOAD, CP_EVAL, CP_KEEP))]

    # ---- clauses -------------------------------------------------------------------------------------
    def _context_sig(self, ctx):
        a = ctx.args
        base = z3.Concat(z3.Unit(mkpair(z3.StringVal("body_sig"), a["function_body_hash"].term)), z3.Unit(mkpair(z3.StringVal("function_input_hash"), a["function_input_sig"].term)))
        fih = a["function_inter_hash"].term
        full = z3.Concat(base, z3.Unit(mkpair(z3.StringVal("function_inter_hash"), OPT_S.val(fih))))
        return z3.If(OPT_S.is_none(fih), DHC(base), DHC(full))

    def _descents(self, ctx):
        return [e for e in ctx.events if e.kind == "descend"]

    def _caller_path(self, ctx):
        return CPATH.const("resolved_path_0").term

    def common(self, ctx):
        ev = ctx.events
        cs = ctx.args["call_stack"].term
        out = []
        ds = self._descents(ctx)
        out.append(("at_most_one_descent", len(ds) <= 1))
        for d in ds:
            st = d.data["stack"]
            stt = as_seq(ctx.eng, st, hint=ctx.args["call_stack"]).term if not isinstance(st, Sym) else st.term
            pushed = stt[z3.Length(stt) - 1]
            f = d.data["fun"]
            n_ret = sum(1 for e in ev if e.kind == "retrieve")
            is_keep = any(e.kind == "get_arg_ctx_ast" and isinstance(e.data["pos"], ObjVal) and e.data["pos"].cls == "AstArgsRest" for e in ev)
            want_path = CPATH.const("resolved_path_1").term if is_keep else CPATH.const("resolved_path_0").term
            want_fun = PYOBJ.const("resolved_object_1").term if is_keep else PYOBJ.const("resolved_object_0").term
            ac = d.data["arg_ctx"]
            out += [
                # CYCLE: the descent pushes the path of the function it descends into, and that path was not on the stack
                ("descent_pushes_the_descended_function", z3.And(stt == z3.Concat(cs, z3.Unit(want_path)), isinstance(f, Sym) and f.term.eq(want_fun))),
                ("descent_guarded_against_cycles", z3.Not(z3.Contains(cs, z3.Unit(want_path)))),
                ("descent_not_into_dds_eval", self._caller_path(ctx) != CP_EVAL),
                # CTX: the callee's argument context carries the call-site context signature (pinned composition)
                ("call_site_context_is_hash_of_body_input_and_previous_calls", isinstance(ac, ObjVal) and isinstance(ac.fields.get("inner_call_key"), Sym) and OPT_S.lift(ac.fields["inner_call_key"]).term == self._context_sig(ctx)),
            ]
            ga = [e for e in ev if e.kind == "get_arg_ctx_ast"]
            out.append(("argument_hashes_come_from_get_arg_ctx_ast", len(ga) == 1 and isinstance(ac, ObjVal) and isinstance(ac.fields.get("named_args"), Opaque) and ga[0].data["fun"] is f))
            if is_keep and ga:
                kw = ga[0].data["kw"]
                out.append(("kept_call_passes_its_positional_and_keyword_arguments", isinstance(kw, ObjVal) and kw.cls == "KwargsOf" and isinstance(kw.fields["src"], ObjVal) and kw.fields["src"].cls == "KeywordPairs"))
            elif ga:
                kw = ga[0].data["kw"]
                pos = ga[0].data["pos"]
                out.append(("plain_call_passes_no_arguments", isinstance(pos, ListVal) and not pos.items and isinstance(kw, ObjVal) and kw.fields["src"] is None))
        return out

    def ensures(self, ctx):
        r = ctx.result
        rr0, rr1 = ctx.old["gctx"].resolved_references, ctx.args["gctx"].resolved_references
        out = self.common(ctx)
        ds = self._descents(ctx)
        is_keep = any(e.kind == "get_arg_ctx_ast" and isinstance(e.data["pos"], ObjVal) and e.data["pos"].cls == "AstArgsRest" for e in ctx.events)
        if isinstance(r, ObjVal) and r.cls == "FunctionInteractions":
            out.append(("a_tracked_call_was_descended_into", len(ds) == 1))
            if is_keep:
                sp = PATH.const("store_path_of_call").term
                out += [
                    ("kept_call_carries_its_store_path", isinstance(r.fields.get("store_path"), Sym) and r.fields["store_path"].term.eq(sp)),
                    # C09: the kept path is registered, so that a later dds.load of it in the same evaluation resolves
                    ("kept_path_registered_for_later_loads", z3.And(rr1.has(sp), rr1.get(sp) == r.fields["fun_return_sig"].term)),
                ]
            else:
                out.append(("plain_call_registers_nothing", z3.And(rr1.dom == rr0.dom, rr1.val == rr0.val)))
        else:
            out.append(("untracked_call_descends_nowhere", len(ds) == 0))
            out.append(("nothing_registered", z3.And(rr1.dom == rr0.dom, rr1.val == rr0.val)))
            # NESTED / CYCLE: a resolved dds.eval, or a function already on the stack, never comes back normally
            n_ret = sum(1 for e in ctx.events if e.kind == "retrieve")
            if n_ret >= 1 and r is None:
                out.append(("ignored_only_if_unresolved_or_external_or_local", True))
        return out

    def signals(self, ctx):
        e = ctx.exc
        out = self.common(ctx)
        out.append(("only_coded_dds_errors", e.cls is DS.DDSException))
        cs = ctx.args["call_stack"].term
        if e.cls is DS.DDSException and e.code == DS.DDSErrorCode.CIRCULAR_CALL:
            p0, p1 = CPATH.const("resolved_path_0").term, CPATH.const("resolved_path_1").term
            out.append(("circular_call_only_for_a_function_on_the_stack", z3.Or(z3.Contains(cs, z3.Unit(p0)), z3.Contains(cs, z3.Unit(p1)))))
        if e.cls is DS.DDSException and e.code == DS.DDSErrorCode.EVAL_IN_EVAL:
            out.append(("eval_in_eval_only_for_dds_eval", self._caller_path(ctx) == CP_EVAL))
        return out


class inspect_call_must_reject(inspect_call):
    """the resolved callee is dds.eval, or a function that is already on the call stack: the call must be rejected"""

    variant = "ill-formed call"

    def requires(self, ctx):
        cs = ctx.args["call_stack"].term
        p0 = CPATH.const("resolved_path_0").term
        return super().requires(ctx) + [
            ("resolved_and_authorized", z3.Int("resolution_kind_0") == 2),
            ("callee_is_a_function", ISFUN(PYOBJ.const("resolved_object_0").term)),
            ("name_not_shadowed_by_a_local", z3.Not(ctx.args["var_names"].has(TStr.const("head_of_local_path_0").term))),
            ("dds_eval_or_on_the_stack", z3.Or(p0 == CP_EVAL, z3.Contains(cs, z3.Unit(p0)))),
        ]

    def ensures(self, ctx):
        return [("must_be_rejected", False)]

    def signals(self, ctx):
        e = ctx.exc
        cs = ctx.args["call_stack"].term
        p0 = CPATH.const("resolved_path_0").term
        code_ok = e.cls is DS.DDSException and e.code in (DS.DDSErrorCode.CIRCULAR_CALL, DS.DDSErrorCode.EVAL_IN_EVAL)
        out = [("rejected_with_the_corresponding_code", code_ok), ("nothing_descended", len(self._descents(ctx)) == 0)]
        if code_ok:
            out.append(("code_matches_the_cause", z3.If(z3.Contains(cs, z3.Unit(p0)), e.code == DS.DDSErrorCode.CIRCULAR_CALL, e.code == DS.DDSErrorCode.EVAL_IN_EVAL) if True else True))
        return out


SPECS = [inspect_call, inspect_call_must_reject]
