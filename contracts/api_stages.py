"""Contract for dds/_api.py:_parse_stages (C15)."""
import z3

from .common import *
from pyvc.sv import TUnion
import dds.structures as S

PS = S.ProcessingStage
STAGE = TEnum(PS)
PHASES = PS.all_phases()
# an element of the user's stage list: a str, a ProcessingStage member (which *is* a str), or anything else
# strings are opaque here (only equality with literals, upper() and enum lookup are used): an uninterpreted
# sort with pairwise distinct constants for the literals keeps the string solver out of every query
NAME = TUn("PyStr")
NAME.is_str_like = True
LITS = sorted(set(dir(PS)) | {d.upper() for d in dir(PS)} | {str.upper(p) for p in PHASES})


def lit(sv_):
    return NAME.lift(sv_).term


SARG = TUnion("StageArg", [("s_str", NAME, (str,)), ("s_stage", STAGE, (PS, str)), ("s_other", None, (object,))])
UPPER = z3.Function("str_upper", NAME.sort(), NAME.sort())


def upper_axioms():
    x = z3.Const(sv.fresh_name("x"), NAME.sort())
    light = [z3.Distinct(*[lit(d) for d in LITS])] + [UPPER(lit(d)) == lit(d.upper()) for d in dir(PS)]
    heavy = [z3.ForAll([x], UPPER(UPPER(x)) == UPPER(x))]
    return light, heavy


def denotes(a, i):
    """the list element a names phase i (a string in any case, or the enum member itself)"""
    name = PHASES[i].name
    return z3.Or(
        z3.And(SARG.is_tag(a, "s_str"), UPPER(SARG.payload(a, "s_str").term) == lit(name)),
        z3.And(SARG.is_tag(a, "s_stage"), SARG.payload(a, "s_stage").term == i),
    )


class parse_stages(FnSpec):
    file, qualname = "dds/_api.py", "_parse_stages"
    may_raise = True

    def make_args(self, eng):
        return {"dds_stages": TOpt(TSeq(SARG)).const("dds_stages")}

    _ax = None

    def requires(self, ctx):
        if parse_stages._ax is None:
            parse_stages._ax = upper_axioms()
        light, heavy = parse_stages._ax
        a = ctx.args["dds_stages"]
        L = a.ty.val(a.term)
        i = z3.Int(sv.fresh_name("i"))
        wf = z3.ForAll([i], z3.Implies(z3.And(0 <= i, i < z3.Length(L), SARG.is_tag(L[i], "s_stage")), z3.And(SARG.payload(L[i], "s_stage").term >= 0, SARG.payload(L[i], "s_stage").term < 5)))
        return [("upper_literals", z3.And(*light)), ("upper_idempotent", heavy[0]), ("enum_wf", wf)]

    def concrete_calls(self):
        return [PS.all_phases, dir]

    def method_other(self, eng, recv, name, args, kwargs, node):
        if isinstance(recv, Sym) and recv.ty == SARG and name == "upper":
            if eng.choose(SARG.is_tag(recv.term, "s_str")):
                return Sym(UPPER(SARG.payload(recv.term, "s_str").term), NAME)
            if eng.choose(SARG.is_tag(recv.term, "s_stage")):
                idx = SARG.payload(recv.term, "s_stage").term
                t = lit(str.upper(PHASES[-1]))
                for i in reversed(range(len(PHASES) - 1)):
                    t = z3.If(idx == i, lit(str.upper(PHASES[i])), t)
                return Sym(t, NAME)
            eng.oblige("upper_on_non_str", False, kind="safety:AttributeError", node=node)
            raise _PathEnd()
        return NotImplemented

    def _valid_prefix(self, ctx, n):
        a = ctx.args["dds_stages"]
        L = a.ty.val(a.term)
        return z3.And(*[denotes(L[i], i) for i in range(n)]) if n else z3.BoolVal(True)

    def ensures(self, ctx):
        a = ctx.args["dds_stages"]
        isnone = a.ty.is_none(a.term)
        L = a.ty.val(a.term)
        r = ctx.result
        items = list(r.items) if isinstance(r, ListVal) else list(r)
        n = len(items)
        same = items == PHASES[:n]
        return [
            ("result_is_prefix_of_stage_order", same),
            ("None_means_all_stages", z3.Implies(isnone, n == 5)),
            ("length_is_min_len_5", z3.Implies(z3.Not(isnone), z3.And(z3.Length(L) >= n, z3.Or(n == 5, z3.Length(L) == n)))),
            ("each_element_names_its_phase", z3.Implies(z3.Not(isnone), self._valid_prefix(ctx, n))),
        ]

    def signals(self, ctx):
        a = ctx.args["dds_stages"]
        L = a.ty.val(a.term)
        e = ctx.exc
        bad = z3.Or(*[z3.And(z3.Length(L) > i, z3.Not(denotes(L[i], i))) for i in range(5)])
        return [("is_DDSException", e.cls is S.DDSException), ("only_for_an_invalid_list", z3.And(z3.Not(a.ty.is_none(a.term)), bad))]


SPECS = [parse_stages]
