"""Contract for dds/introspect.py:_introspect_fun -- the caching front of the function analysis (C03: what an evaluation does
does not depend on the history of the process; C01 / C02: the analysis cached for a function is the analysis OF that function).

State:
  gctx.cached_fun_interactions   the per-evaluation cache, keyed by (function path, argument-context key)   [ghost arrays]
  _global_context                the process-wide record: cached_fun_calls (ARBITRARY content: any history of the process) and
                                 cached_fun_interactions (never written -- frame clause of C03 -- hence empty)
Clauses:
  a hit returns the entry cached for THIS function path and argument context, and analyses nothing
  a miss analyses once (InspectFunction.inspect_fun on f's own source, module, path and argument context), returns that
  analysis, caches it under its own key and registers a kept function's path with its return signature for later loads
  a lambda is named by the hash of its source text (never by identity)
  whatever the process-wide record holds, no error comes from re-resolving it: the only errors are 'no module', the analysis'
  own, and the resolution of the functions just analysed (all functions of the current code only)
"""
import ast as _ast

import z3

from .common import *
from .inspect_call import CPATH, CP, PYOBJ
from .retrieve_rec import FUNPATH, DEFMOD, DEFMOD_NONE, _TArr
from pyvc.engine import _Raise, _PathEnd
from pyvc.spec import LoopSpec, havoc
import dds.structures as DS

O = PYOBJ.sort()
STR = z3.StringSort()
AKEY = TUn("ArgCtxKey")
FIS = TUn("FunctionInteractionsId")
IS_LAMBDA = z3.Function("is_lambda", O, z3.BoolSort())
SRC = z3.Function("inspect_getsource", O, STR)
HASH = z3.Function("dds_hash_of_text", STR, STR)
STEM = z3.Function("path_stem", CP, STR)
WITH_STEM = z3.Function("path_with_last_name", CP, STR, CP)
FDOM = z3.ArraySort(CP, z3.ArraySort(AKEY.sort(), z3.BoolSort()))
FVAL = z3.ArraySort(CP, z3.ArraySort(AKEY.sort(), FIS.sort()))
TFDOM, TFVAL = _TArr("fis_cache_dom", FDOM), _TArr("fis_cache_val", FVAL)
OPT_PATH = TOpt(PATH)
SEQ_CP = TSeq(CPATH)


def fis_obj(ident, name):
    o = ObjVal("FunctionInteractions", ident=Sym(ident, FIS), store_path=OPT_PATH.const("store_path_of_" + name), fun_return_sig=TStr.const("return_sig_of_" + name), fun_body_sig=TStr.const("body_sig_of_" + name))
    o.pyclass = DS.FunctionInteractions
    return o


class introspect_fun(FnSpec):
    file, qualname = "dds/introspect.py", "_introspect_fun"
    may_raise = True
    ARG = "f"

    def __init__(self):
        super().__init__()
        g = self.globals
        g["function_path"] = Model(lambda eng, a, k, n: Sym(FUNPATH(a[0].term), CPATH), "function_path")
        g["FunctionArgContext"] = ObjVal("FACcls")
        self.classes["FACcls"] = {"as_hashable": Model(lambda eng, a, k, n: AKEY.const("arg_ctx_key"), "contract:FunctionArgContext.as_hashable")}
        g["is_lambda"] = Model(lambda eng, a, k, n: Sym(IS_LAMBDA(a[0].term), TBool), "is_lambda")
        g["_global_context"] = ObjVal("GlobalContext", cached_fun_calls=ObjVal("CallRecord"), cached_fun_interactions=ObjVal("NeverWritten"))
        self.classes["CallRecord"] = {}
        self.classes["NeverWritten"] = {}
        g["ObjectRetrieval"] = ObjVal("ObjectRetrieval")
        self.classes["ObjectRetrieval"] = {"retrieve_object_global": Model(self.m_retrieve_global, "ObjectRetrieval.retrieve_object_global")}
        g["PythonId"] = Model(lambda eng, a, k, n: a[0], "PythonId")
        g["id"] = Model(lambda eng, a, k, n: TInt.fresh("python_id"), "id")
        g["tuple"] = Model(lambda eng, a, k, n: Opaque("tuple of ids"), "tuple")
        g["inspect"] = ObjVal("inspect")
        self.classes["inspect"] = {"getmodule": Model(self.m_getmodule, "inspect.getmodule"), "getsource": Model(lambda eng, a, k, n: Sym(SRC(a[1].term), TStr), "inspect.getsource")}
        g["dds_hash"] = Model(lambda eng, a, k, n: Sym(HASH(TStr.lift(a[0]).term), TStr), "contract:dds_hash (of a text)")
        g["CanonicalPath"] = Model(self.m_canonical_path, "CanonicalPath")
        g["inspect_lambda_condition"] = Model(self.m_lambda_ast, "inspect_lambda_condition")
        g["ast"] = ObjVal("astmod", FunctionDef=_ast.FunctionDef, Lambda=_ast.Lambda)
        self.classes["astmod"] = {"parse": Model(self.m_parse, "ast.parse")}
        g["textwrap"] = ObjVal("textwrap")
        self.classes["textwrap"] = {"dedent": Model(lambda eng, a, k, n: a[1], "textwrap.dedent (the same text, common indentation removed)")}
        g["InspectFunction"] = ObjVal("InspectFunction")
        self.classes["InspectFunction"] = {"inspect_fun": Model(self.m_inspect_fun, "contract:InspectFunction.inspect_fun")}
        g["_all_paths"] = Model(lambda eng, a, k, n: Opaque("paths of the analysed functions"), "_all_paths")
        g["sorted"] = Model(lambda eng, a, k, n: SEQ_CP.fresh("paths_of_the_functions_just_analysed"), "sorted")
        g["DDSException"], g["DDSErrorCode"] = DS.DDSException, DS.DDSErrorCode
        g["str"] = Model(lambda eng, a, k, n: a[0] if isinstance(a[0], Sym) and a[0].ty == TStr else TStr.fresh("text_of_a_value"), "str")
        self.classes["FisCache"] = {"get": Model(self.m_cache_get, "dict.get")}
        self.classes["PPath"] = {}
        self.classes["PParent"] = {"joinpath": Model(lambda eng, a, k, n: ObjVal("PJoined", of=a[0].fields["of"], name=a[1]), "joinpath")}
        self.loops[0] = LoopSpec(invariant=lambda ctx, env, k: [("true", z3.BoolVal(True))], seqvars={"ids": TSeq(TTup(CPATH, TInt))})
        self.loops[1] = LoopSpec(invariant=lambda ctx, env, k: [("true", z3.BoolVal(True))], seqvars={"obj_ids": TSeq(TTup(CPATH, TInt))})

    # ---- models ------------------------------------------------------------------------------------
    def m_retrieve_global(self, eng, args, kwargs, node):
        after = any(e.kind in ("inspect_fun",) for e in eng.st.events)
        if eng.choose(z3.Bool(sv.fresh_name("resolution_fails"))):
            raise _Raise(DDSExc(code="from resolving the functions just analysed" if after else "from re-resolving the process-wide record"))
        return PYOBJ.fresh("resolved")

    def m_getmodule(self, eng, args, kwargs, node):
        o = args[1].term
        if eng.choose(DEFMOD_NONE(o)):
            return None
        return Sym(DEFMOD(o), PYOBJ)

    def m_canonical_path(self, eng, args, kwargs, node):
        j = args[0]
        if isinstance(j, ObjVal) and j.cls == "PJoined":
            return Sym(WITH_STEM(j.fields["of"].term, TStr.lift(j.fields["name"]).term), CPATH)
        raise OutOfSubset("CanonicalPath(%r)" % (j,))

    def m_lambda_ast(self, eng, args, kwargs, node):
        o = ObjVal("AstOfTheFunction", kind="lambda", of=args[0])
        o.pyclass = _ast.Lambda
        return o

    def m_parse(self, eng, args, kwargs, node):
        src = args[1]
        f = ObjVal("AstOfTheFunction", kind="def", of=src)
        f.pyclass = _ast.FunctionDef
        return ObjVal("AstModule", body=ListVal([f]))

    def m_cache_get(self, eng, args, kwargs, node):
        c, key = args[0], args[1]
        cp, ak = key[0].term, key[1].term
        eng.event("cache_lookup", cp=cp, ak=ak)
        if eng.choose(z3.Select(z3.Select(c.fields["dom"].term, cp), ak)):
            return fis_obj(z3.Select(z3.Select(c.fields["val"].term, cp), ak), "the_cached_entry")
        return None

    def m_inspect_fun(self, eng, args, kwargs, node):
        ast_f, gctx, mod, lines, arg_ctx, fun_path, stack = args[1:8]
        n = sum(1 for e in eng.st.events if e.kind == "inspect_fun")
        eng.event("inspect_fun", ast=ast_f, mod=mod, arg_ctx=arg_ctx, fun_path=fun_path, gctx=gctx)
        if eng.choose(z3.Bool(sv.fresh_name("analysis_fails"))):
            raise _Raise(DDSExc(code="from the analysis"))
        # the analysis descends into callees: it may add entries for THEM to the per-evaluation cache and register their paths
        c = gctx.fields["cached_fun_interactions"]
        c.fields["dom"] = Sym(z3.Const(sv.fresh_name("fis_dom"), FDOM), TFDOM)
        c.fields["val"] = Sym(z3.Const(sv.fresh_name("fis_val"), FVAL), TFVAL)
        havoc(eng, gctx.fields["resolved_references"])
        return fis_obj(z3.Const("analysis_%d" % n, FIS.sort()), "the_analysis_%d" % n)

    # ---- hooks --------------------------------------------------------------------------------------
    def sym_getattr(self, eng, o, attr, node):
        if isinstance(o, Sym) and o.ty == CPATH and attr == "_path":
            return ObjVal("PPath", of=o, parent=ObjVal("PParent", of=o), stem=Sym(STEM(o.term), TStr))
        return NotImplemented

    def method_other(self, eng, recv, name, args, kwargs, node):
        if isinstance(recv, Sym) and recv.ty == TStr and name == "split":
            return Opaque("source lines")
        return NotImplemented

    def contains_other(self, eng, container, x, node):
        if isinstance(container, ObjVal) and container.cls == "CallRecord":
            # any history: the process may or may not hold a record for this function and argument context
            return z3.Bool("the_process_holds_a_record_for_this_function")
        if isinstance(container, ObjVal) and container.cls == "NeverWritten":
            return False
        return NotImplemented

    def getitem_other(self, eng, o, k, node):
        if isinstance(o, ObjVal) and o.cls == "CallRecord":
            return SEQ_CP.const("recorded_dependency_paths")
        return super().getitem_other(eng, o, k, node)

    def setitem(self, eng, o, k, v, node):
        if isinstance(o, ObjVal) and o.cls == "CallRecord":
            eng.event("record_store", cp=k[0].term, ak=k[1].term)
            return
        if isinstance(o, ObjVal) and o.cls == "FisCache":
            cp, ak = k[0].term, k[1].term
            if not (isinstance(v, ObjVal) and v.cls == "FunctionInteractions"):
                raise OutOfSubset("cached analysis %r" % (v,))
            dom, val = o.fields["dom"].term, o.fields["val"].term
            o.fields["dom"] = Sym(z3.Store(dom, cp, z3.Store(z3.Select(dom, cp), ak, z3.BoolVal(True))), TFDOM)
            o.fields["val"] = Sym(z3.Store(val, cp, z3.Store(z3.Select(val, cp), ak, v.fields["ident"].term)), TFVAL)
            eng.event("cache_store", cp=cp, ak=ak, ident=v.fields["ident"].term)
            return
        return super().setitem(eng, o, k, v, node)

    # ---- contract ----------------------------------------------------------------------------------
    def make_args(self, eng):
        cache = ObjVal("FisCache", dom=Sym(z3.Const("fis_dom", FDOM), TFDOM), val=Sym(z3.Const("fis_val", FVAL), TFVAL))
        return {
            "f": PYOBJ.const("f"),
            "arg_ctx": ObjVal("FunctionArgContext"),
            "gctx": ObjVal("EvalMainContext", cached_fun_interactions=cache, resolved_references=MapVal.named("resolved_references", PATH, TStr)),
            "call_stack": Opaque("call stack"),
        }

    def key_path(self, ctx):
        f = ctx.args[self.ARG].term
        fp = FUNPATH(f)
        return z3.If(IS_LAMBDA(f), WITH_STEM(fp, z3.Concat(STEM(fp), HASH(SRC(f)))), fp)

    def ensures(self, ctx):
        r = ctx.result
        if not (isinstance(r, ObjVal) and r.cls == "FunctionInteractions"):
            return [("result_is_an_analysis", False)]
        f = ctx.args[self.ARG].term
        ak = AKEY.const("arg_ctx_key").term
        kp = self.key_path(ctx)
        old = ctx.old["gctx"].fields["cached_fun_interactions"]
        hit = z3.Select(z3.Select(old.fields["dom"].term, kp), ak)
        runs = [e for e in ctx.events if e.kind == "inspect_fun"]
        stores = [e for e in ctx.events if e.kind == "cache_store"]
        records = [e for e in ctx.events if e.kind == "record_store"]
        looks = [e for e in ctx.events if e.kind == "cache_lookup"]
        now = ctx.args["gctx"].fields["cached_fun_interactions"]
        rr = ctx.args["gctx"].fields["resolved_references"]
        out = [
            ("the_cache_is_asked_for_this_function_and_argument_context", len(looks) == 1 and z3.And(looks[0].data["cp"] == kp, looks[0].data["ak"] == ak)),
            ("a_lambda_is_named_by_the_hash_of_its_source", True if not looks else z3.Implies(IS_LAMBDA(f), looks[0].data["cp"] == WITH_STEM(FUNPATH(f), z3.Concat(STEM(FUNPATH(f)), HASH(SRC(f)))))),
        ]
        if not runs:
            out += [
                ("without_analysis_only_on_a_hit", hit),
                ("a_hit_returns_the_cached_entry", r.fields["ident"].term == z3.Select(z3.Select(old.fields["val"].term, kp), ak)),
                ("a_hit_changes_nothing", len(stores) == 0 and len(records) == 0 and z3.And(now.fields["dom"].term == old.fields["dom"].term, now.fields["val"].term == old.fields["val"].term)),
            ]
        else:
            e = runs[0]
            sp = r.fields["store_path"].term
            out += [
                ("analysed_only_on_a_miss", z3.Not(hit)),
                ("analysed_exactly_once", len(runs) == 1),
                ("the_analysis_is_that_of_the_function_itself", isinstance(e.data["ast"], ObjVal) and e.data["ast"].cls == "AstOfTheFunction" and e.data["arg_ctx"] is ctx.args["arg_ctx"] and e.data["gctx"] is ctx.args["gctx"]
                 and isinstance(e.data["mod"], Sym) and z3.And(e.data["mod"].term == DEFMOD(f), e.data["fun_path"].term == kp)),
                ("the_result_is_the_analysis", r.fields["ident"].term == z3.Const("analysis_0", FIS.sort())),
                ("cached_under_its_own_key_only", len(stores) == 1 and z3.And(stores[0].data["cp"] == kp, stores[0].data["ak"] == ak, stores[0].data["ident"] == r.fields["ident"].term)),
                ("a_kept_function_is_registered_for_later_loads_with_its_return_signature",
                 z3.Implies(z3.Not(OPT_PATH.is_none(sp)), z3.And(rr.has(OPT_PATH.val(sp)), rr.get(OPT_PATH.val(sp)) == r.fields["fun_return_sig"].term))),
                ("the_process_wide_record_is_written_for_this_function_only", all(True for _ in records) and z3.And(*[z3.And(x.data["cp"] == FUNPATH(f), x.data["ak"] == ak) for x in records] + [z3.BoolVal(True)])),
            ]
        return out

    def signals(self, ctx):
        e = ctx.exc
        f = ctx.args[self.ARG].term
        out = [("only_coded_dds_errors", e.cls is DS.DDSException)]
        if e.code == DS.DDSErrorCode.MODULE_NOT_FOUND:
            out.append(("module_not_found_only_without_module", DEFMOD_NONE(f)))
        elif e.code in ("from the analysis", "from resolving the functions just analysed"):
            out.append(("errors_of_the_current_code_only", True))
        else:
            # in particular "from re-resolving the process-wide record": what an evaluation does would depend on the history
            out.append(("no_error_from_the_history_of_the_process", False))
        return out


SPECS = [introspect_fun]
