"""Contract for dds/_retrieve_objects.py:ObjectRetrieval._retrieve_object_rec -- the authorized / external classification of
a resolved name (C14: exactly the accepted modules are tracked; C01: every reachable function / tracked variable is found).

The Python object graph is abstract: objects are an uninterpreted sort with
  is_ModuleType / is_FunctionType / inspect_isclass / is_pure_path_value   kind predicates (pairwise exclusive)
  module_dict_has(m, name), module_dict_get(m, name)                      m.__dict__
  mod_path(m), function_path(o), dunder_name(o), inspect_getmodule(o)     reflection
  is_authorized_path(cp)        gctx.is_authorized_path (contract: contracts/eval_ctx.py; the accepted set is not modified here)
  is_authorized_type_of(o)      _is_authorized_type(type(o), gctx) (contract: contracts/auth_type.py), may raise its coded error
The recursive call is used by contract (induction hypothesis): it returns resolve(parts', m') -- the function's own
denotation on the callee's arguments -- for which the boundary clause S1 holds.  Termination of the recursion is NOT proved
(a function whose defining module re-binds its name to a function defined elsewhere could loop): partial correctness.

Clauses, from the property statement:
  S1  only an object under an accepted path is ever tracked (AuthorizedObject => is_authorized_path(its path))
  a module attribute is followed whatever module it is (accepted or not: re-exports through non-accepted modules)
  a function / class defined in another module is resolved in its defining module under its own name
  a terminal function / class / tracked value of an accepted path IS tracked; anything else at that place is external
  a missing name is a coded DDS error, never a KeyError
"""
import pathlib
import types

import z3

from .common import *
from .inspect_call import CPATH, CP, PYOBJ, ISFUN, ISCLASS
from pyvc.engine import _Raise, _PathEnd, Obligation
import dds.structures as DS
import dds._eval_ctx as EC

O = PYOBJ.sort()
STR = z3.StringSort()
SS = z3.SeqSort(STR)
PARTS = TSeq(TStr)
B = z3.BoolSort()
ISMOD = z3.Function("is_ModuleType", O, B)
ISPATHVAL = z3.Function("is_pure_path_value", O, B)
HAS = z3.Function("module_dict_has", O, STR, B)
GET = z3.Function("module_dict_get", O, STR, O)
MODPATH = z3.Function("mod_path", O, CP)
FUNPATH = z3.Function("function_path", O, CP)
APP = z3.Function("canonical_append_name", CP, STR, CP)
APP_LP = z3.Function("canonical_append_local_path", CP, SS, CP)
DEFMOD_NONE = z3.Function("inspect_getmodule_is_None", O, B)
DEFMOD = z3.Function("inspect_getmodule", O, O)
NAME = z3.Function("dunder_name", O, STR)
TYPING = z3.Const("the_typing_module", O)
AUTH = z3.Function("is_authorized_path", CP, B)
TRACKED = z3.Function("is_authorized_type_of", O, B)
TYPE_ERR = z3.Function("is_authorized_type_raises_for", O, B)

_RES = z3.Datatype("Resolution")
_RES.declare("none")
_RES.declare("auth", ("obj", O), ("path", CP))
_RES.declare("ext", ("epath", CP))
RES = _RES.create()
RESOLVE = z3.Function("resolve", SS, O, RES)
RESOLVE_RAISES = z3.Function("resolve_raises", SS, O, B)


def S1(r):
    """the boundary clause: tracked only under an accepted path"""
    return z3.Implies(RES.is_auth(r), AUTH(RES.path(r)))


def kind_axioms():
    o = z3.Const("o_", O)
    return [
        z3.ForAll([o], z3.And(z3.Not(z3.And(ISMOD(o), ISFUN(o))), z3.Not(z3.And(ISMOD(o), ISCLASS(o))), z3.Not(z3.And(ISFUN(o), ISCLASS(o))))),
        z3.ForAll([o], z3.Implies(ISPATHVAL(o), z3.And(z3.Not(ISMOD(o)), z3.Not(ISFUN(o)), z3.Not(ISCLASS(o))))),
    ]


def ModDict(m):
    """m.__dict__ of an abstract module"""
    return ObjVal("ModDict", m=Sym(m, PYOBJ))


class retrieve_object_rec(FnSpec):
    file, qualname = "dds/_retrieve_objects.py", "ObjectRetrieval._retrieve_object_rec"
    may_raise = True

    def __init__(self):
        super().__init__()
        g = self.globals
        g["_mod_path"] = Model(lambda eng, a, k, n: Sym(MODPATH(self.obj(a[0])), CPATH), "_mod_path")
        g["function_path"] = Model(lambda eng, a, k, n: Sym(FUNPATH(self.obj(a[0])), CPATH), "function_path")
        g["CanonicalPathUtils"] = ObjVal("CPU")
        self.classes["CPU"] = {"append": Model(self.m_append, "CanonicalPathUtils.append")}
        g["LocalDepPathUtils"] = ObjVal("LDPU")
        self.classes["LDPU"] = {"tail": Model(self.m_tail, "LocalDepPathUtils.tail"), "empty": Model(self.m_empty, "LocalDepPathUtils.empty")}
        g["LocalDepPath"] = Model(lambda eng, a, k, n: a[0], "LocalDepPath")
        g["PurePosixPath"] = Model(lambda eng, a, k, n: ObjVal("LocalDepPath", parts=Sym(z3.Unit(TStr.lift(a[0]).term), PARTS)), "PurePosixPath")
        self.classes["LocalDepPath"] = {"joinpath": Model(self.m_joinpath, "joinpath")}
        g["isinstance"] = Model(self.m_isinstance, "isinstance")
        g["inspect"] = ObjVal("inspect")
        self.classes["inspect"] = {"isclass": Model(lambda eng, a, k, n: Sym(ISCLASS(self.obj(a[1])), TBool), "inspect.isclass"), "getmodule": Model(self.m_getmodule, "inspect.getmodule")}
        g["typing"] = Sym(TYPING, PYOBJ)
        g["type"] = Model(lambda eng, a, k, n: ObjVal("TypeOf", of=a[0]), "type")
        g["_is_authorized_type"] = Model(self.m_auth_type, "contract:_is_authorized_type")
        g["AuthorizedObject"] = Model(lambda eng, a, k, n: ObjVal("AuthorizedObject", object_val=a[0], resolved_path=a[1]), "AuthorizedObject")
        g["ExternalObject"] = Model(lambda eng, a, k, n: ObjVal("ExternalObject", resolved_path=a[0]), "ExternalObject")
        g["sorted"] = Model(lambda eng, a, k, n: Opaque("sorted names"), "sorted")
        g["DDSException"], g["DDSErrorCode"] = DS.DDSException, DS.DDSErrorCode
        self.classes["gctx"] = {"is_authorized_path": Model(lambda eng, a, k, n: Sym(AUTH(a[1].term), TBool), "contract:is_authorized_path")}
        self.classes["ModDict"] = {"keys": Model(lambda eng, a, k, n: Opaque("names of the module"), "dict.keys")}
        self.classes["ObjectRetrievalCls"] = {"_retrieve_object_rec": Model(self.m_rec, "contract:_retrieve_object_rec (induction hypothesis)")}

    # ---- helpers -----------------------------------------------------------------------------------
    @staticmethod
    def obj(v):
        if isinstance(v, Sym) and v.ty == PYOBJ:
            return v.term
        raise OutOfSubset("expected an abstract Python object, got %r" % (v,))

    @staticmethod
    def parts(lp):
        if isinstance(lp, ObjVal) and lp.cls == "LocalDepPath":
            return lp.fields["parts"].term
        raise OutOfSubset("expected a local path, got %r" % (lp,))

    # ---- models ------------------------------------------------------------------------------------
    def m_append(self, eng, args, kwargs, node):
        cp, x = args[1], args[2]
        if isinstance(x, ObjVal) and x.cls == "LocalDepPath":
            return Sym(APP_LP(cp.term, self.parts(x)), CPATH)
        return Sym(APP(cp.term, TStr.lift(x).term), CPATH)

    def m_tail(self, eng, args, kwargs, node):
        p = self.parts(args[1])
        # parts[1:] re-parsed as a path: identical for names without "/" and "." (A-NAMES: the parts are identifiers)
        return ObjVal("LocalDepPath", parts=Sym(z3.SubSeq(p, 1, z3.Length(p) - 1), PARTS))

    def m_empty(self, eng, args, kwargs, node):
        p = self.parts(args[1])
        return Sym(self.is_empty(p), TBool)

    @staticmethod
    def is_empty(p):
        return z3.Or(z3.Length(p) == 0, z3.And(z3.Length(p) == 1, p[0] == z3.StringVal(".")))

    def m_joinpath(self, eng, args, kwargs, node):
        return ObjVal("LocalDepPath", parts=Sym(z3.Concat(self.parts(args[0]), self.parts(args[1])), PARTS))

    def m_isinstance(self, eng, args, kwargs, node):
        v, c = args[0], args[1]
        if isinstance(v, Sym) and v.ty == PYOBJ:
            cs = c if isinstance(c, tuple) else (c,)
            out = []
            for k in cs:
                if k is types.ModuleType:
                    out.append(ISMOD(v.term))
                elif k is types.FunctionType:
                    out.append(ISFUN(v.term))
                elif k is type or k is self.globals["type"]:
                    out.append(ISCLASS(v.term))
                elif k in (pathlib.PosixPath, pathlib.PurePosixPath):
                    out.append(ISPATHVAL(v.term))
                else:
                    raise OutOfSubset("isinstance of an abstract object against %r" % (k,))
            return Sym(z3.Or(*out) if len(out) > 1 else out[0], TBool)
        from pyvc.spec import m_isinstance

        return m_isinstance(eng, args, kwargs, node)

    def m_getmodule(self, eng, args, kwargs, node):
        o = self.obj(args[1])
        if eng.choose(DEFMOD_NONE(o)):
            return None
        return Sym(DEFMOD(o), PYOBJ)

    def m_auth_type(self, eng, args, kwargs, node):
        t = args[0]
        if not (isinstance(t, ObjVal) and t.cls == "TypeOf"):
            raise OutOfSubset("_is_authorized_type of %r" % (t,))
        o = self.obj(t.fields["of"])
        eng.event("type_check", obj=o)
        if eng.choose(TYPE_ERR(o)):
            raise _Raise(DDSExc(code=DS.DDSErrorCode.AUTHORIZED_TYPE_NOT_UNDERSTOOD))
        return Sym(TRACKED(o), TBool)

    def m_rec(self, eng, args, kwargs, node):
        p, m = self.parts(args[1]), self.obj(args[2])
        eng.event("recursive_call", parts=p, mod=m)
        if eng.choose(RESOLVE_RAISES(p, m)):
            raise _Raise(DDSExc(code="from the recursive call"))
        r = RESOLVE(p, m)
        eng.assume(S1(r))  # induction hypothesis
        return ObjVal("Resolved", term=r)

    # ---- m.__dict__ --------------------------------------------------------------------------------
    def sym_getattr(self, eng, o, attr, node):
        if isinstance(o, Sym) and o.ty == PYOBJ:
            if attr == "__dict__":
                return ModDict(o.term)
            if attr == "__name__":
                return Sym(NAME(o.term), TStr)
        return NotImplemented

    def contains_other(self, eng, container, x, node):
        if isinstance(container, ObjVal) and container.cls == "ModDict":
            return HAS(container.fields["m"].term, TStr.lift(x).term)
        return NotImplemented

    def getitem_other(self, eng, o, k, node):
        if isinstance(o, ObjVal) and o.cls == "ModDict":
            mm = o.fields["m"].term
            eng.oblige("name_is_in_the_module_dict", HAS(mm, TStr.lift(k).term), kind="safety:KeyError", node=node)
            return Sym(GET(mm, TStr.lift(k).term), PYOBJ)
        return NotImplemented

    # ---- contract ----------------------------------------------------------------------------------
    def make_args(self, eng):
        return {
            "cls": ObjVal("ObjectRetrievalCls"),
            "local_path": ObjVal("LocalDepPath", parts=PARTS.const("parts")),
            "context_mod": PYOBJ.const("context_mod"),
            "gctx": ObjVal("gctx"),
            "debug": TBool.const("debug"),
        }

    def requires(self, ctx):
        # the kind axioms, instantiated for the objects this call looks at (quantifier free: refutations are definite)
        p, m, n, f, tail, o, here = self.terms(ctx)
        return [("kinds_%d" % i, z3.substitute_vars(a.body(), x)) for x in (o, m, DEFMOD(o)) for i, a in enumerate(kind_axioms())]

    def terms(self, ctx):
        p = ctx.args["local_path"].fields["parts"].term
        m = ctx.args["context_mod"].term
        n = z3.Length(p)
        f = p[0]
        tail = z3.SubSeq(p, 1, n - 1)
        o = GET(m, f)
        return p, m, n, f, tail, o, APP(MODPATH(m), f)

    def result_term(self, r):
        if r is None:
            return RES.none
        if isinstance(r, ObjVal) and r.cls == "AuthorizedObject":
            return RES.auth(self.obj(r.fields["object_val"]), r.fields["resolved_path"].term)
        if isinstance(r, ObjVal) and r.cls == "ExternalObject":
            return RES.ext(r.fields["resolved_path"].term)
        if isinstance(r, ObjVal) and r.cls == "Resolved":
            return r.fields["term"]
        return None

    def ensures(self, ctx):
        r = self.result_term(ctx.result)
        if r is None:
            return [("result_is_a_resolution", False)]
        p, m, n, f, tail, o, here = self.terms(ctx)
        tail_empty = self.is_empty(tail)
        callable_ = z3.Or(ISFUN(o), ISCLASS(o))
        defined_here = z3.Or(z3.Not(callable_), z3.And(z3.Not(DEFMOD_NONE(o)), DEFMOD(o) != TYPING, DEFMOD(o) == m))
        tracked_kind = z3.Or(TRACKED(o), ISFUN(o), ISPATHVAL(o), ISCLASS(o))
        there = APP(FUNPATH(o), f)
        # case table: (name, case condition, exact result).  C14 needs of each case what is TRACKED (an AuthorizedObject and
        # under which path, or a delegation to another resolution); whether an untracked name is reported as None or as an
        # ExternalObject does not move the boundary -- but it enters signatures (an external object is named in the signature
        # of its reader), so the exact result is pinned separately (`pinned_*`, owned by C03).
        cases = [
            ("the_module_itself_when_the_path_is_exhausted", n == 0, z3.If(AUTH(MODPATH(m)), RES.auth(m, MODPATH(m)), RES.ext(APP_LP(MODPATH(m), p)))),
            ("a_module_attribute_is_followed_whatever_module_it_is", z3.And(n > 0, ISMOD(o)), RESOLVE(tail, o)),
            ("a_callable_defined_in_another_module_is_resolved_there_under_its_own_name", z3.And(n > 0, tail_empty, callable_, z3.Not(DEFMOD_NONE(o)), DEFMOD(o) != TYPING, DEFMOD(o) != m), RESOLVE(z3.Concat(z3.Unit(NAME(o)), tail), DEFMOD(o))),
            ("a_callable_without_defining_module_or_from_typing_is_not_tracked", z3.And(n > 0, tail_empty, callable_, z3.Or(DEFMOD_NONE(o), DEFMOD(o) == TYPING)), RES.none),
            ("a_terminal_object_of_an_accepted_path_and_tracked_kind_is_tracked", z3.And(n > 0, tail_empty, z3.Not(ISMOD(o)), defined_here, AUTH(here), tracked_kind), RES.auth(o, here)),
            ("any_other_terminal_object_is_not_tracked", z3.And(n > 0, tail_empty, z3.Not(ISMOD(o)), defined_here, z3.Not(z3.And(AUTH(here), tracked_kind))), RES.ext(here)),
            ("a_function_followed_by_attributes_is_classified_by_its_own_path", z3.And(n > 0, z3.Not(tail_empty), ISFUN(o)), z3.If(AUTH(here), RES.auth(o, here), RES.ext(here))),
            ("a_class_followed_by_attributes_is_classified_by_its_defining_path", z3.And(n > 0, z3.Not(tail_empty), ISCLASS(o)), z3.If(AUTH(there), RES.auth(o, there), RES.ext(there))),
            ("any_other_object_followed_by_attributes_is_not_tracked", z3.And(n > 0, z3.Not(tail_empty), z3.Not(ISMOD(o)), z3.Not(ISFUN(o)), z3.Not(ISCLASS(o))), RES.none),
        ]

        def same_tracking(a_, b_):
            # equal as far as tracking goes: both untracked, or the same object under the same path
            return z3.If(RES.is_auth(b_), a_ == b_, z3.Not(RES.is_auth(a_)))

        out = [
            ("S1_only_an_object_under_an_accepted_path_is_tracked", S1(r)),
            ("a_result_only_for_a_name_the_module_has", z3.Implies(n > 0, HAS(m, f))),
        ]
        for name, cond, want in cases:
            delegated = name in ("a_module_attribute_is_followed_whatever_module_it_is", "a_callable_defined_in_another_module_is_resolved_there_under_its_own_name")
            out.append((name, z3.Implies(cond, r == want if delegated else same_tracking(r, want))))
            if not delegated:
                out.append(("pinned_" + name, z3.Implies(cond, r == want)))
        return out

    def signals(self, ctx):
        e = ctx.exc
        p, m, n, f, tail, o, here = self.terms(ctx)
        out = [("only_coded_dds_errors", e.cls is DS.DDSException)]
        if e.code == DS.DDSErrorCode.OBJECT_PATH_NOT_FOUND:
            out.append(("missing_name_reported_only_when_the_module_lacks_it", z3.And(n > 0, z3.Not(HAS(m, f)))))
        elif e.code == DS.DDSErrorCode.AUTHORIZED_TYPE_NOT_UNDERSTOOD:
            out.append(("type_error_only_from_the_type_check_of_a_terminal_object_of_an_accepted_path", z3.And(n > 0, self.is_empty(tail), HAS(m, f), z3.Not(ISMOD(o)), AUTH(here), TYPE_ERR(o))))
        elif e.code == "from the recursive call":
            calls = [ev for ev in ctx.events if ev.kind == "recursive_call"]
            out.append(("propagated_from_the_one_recursive_call", len(calls) == 1 and RESOLVE_RAISES(calls[0].data["parts"], calls[0].data["mod"])))
        else:
            out.append(("no_other_error", False))
        return out


# ---------------------------------------------------------------------------------------------------------------------
# ObjectRetrieval.retrieve_object: the per-evaluation cache in front of the classification, the import fall-back for a name
# the module does not hold, and the start-globals branch for code living in __main__ / __global__
# ---------------------------------------------------------------------------------------------------------------------
ISSTR = z3.Function("is_str_value", O, B)
IMPORTABLE = z3.Function("importlib_finds_module", STR, B)
IMPORTED = z3.Function("importlib_import_module", STR, O)
HEAD = z3.Function("canonical_head", CP, STR)
SG_HAS = z3.Function("start_globals_has", STR, B)
SG_GET = z3.Function("start_globals_get", STR, O)
FROM_GLOBAL = z3.Function("canonical_path_under___global__", SS, CP)
MODOF = z3.Function("module_of_path", CP, O)
# the denotation of an uncached call: what retrieve_object(parts, m) answers (defined by the equation `definition` below)
RETRIEVE = z3.Function("retrieve", SS, O, RES)
CDOM = z3.ArraySort(SS, z3.ArraySort(CP, B))
CVAL = z3.ArraySort(SS, z3.ArraySort(CP, RES))


class _TArr(sv.Ty):
    """a ghost array (the cache view); never lifted from Python values"""

    def __init__(self, name, sort):
        self.name, self._sort = name, sort

    def key(self):
        return (self.name,)

    def sort(self):
        return self._sort


TDOM, TVAL = _TArr("cache_dom", CDOM), _TArr("cache_val", CVAL)


def cache_inv(dom, val):
    """every cached entry is the answer of the uncached call for its key (and, as every answer, tracks only under an accepted path)"""
    ps = z3.Const("ps_", SS)
    cp = z3.Const("cp_", CP)
    v = z3.Select(z3.Select(val, ps), cp)
    return z3.ForAll([ps, cp], z3.Implies(z3.Select(z3.Select(dom, ps), cp), z3.And(v == RETRIEVE(ps, MODOF(cp)), S1(v))))


class retrieve_object(retrieve_object_rec):
    qualname = "ObjectRetrieval.retrieve_object"

    def __init__(self):
        super().__init__()
        g = self.globals
        g["importlib"] = ObjVal("importlib")
        self.classes["importlib"] = {"import_module": Model(self.m_import, "importlib.import_module")}
        self.classes["CPU"]["head"] = Model(lambda eng, a, k, n: Sym(HEAD(a[1].term), TStr), "CanonicalPathUtils.head")
        self.classes["CPU"]["from_list"] = Model(self.m_from_list, "CanonicalPathUtils.from_list")
        self.classes["ObjectRetrievalCls"]["retrieve_object"] = Model(self.m_top, "contract:retrieve_object (induction hypothesis)")
        self.classes["ObjCache"] = {}
        self.classes["StartGlobals"] = {}
        g["str"] = str

    # ---- models ------------------------------------------------------------------------------------
    def m_import(self, eng, args, kwargs, node):
        f = TStr.lift(args[1]).term
        if eng.choose(IMPORTABLE(f)):
            return Sym(IMPORTED(f), PYOBJ)
        raise _Raise(ExcVal(ModuleNotFoundError))

    def m_from_list(self, eng, args, kwargs, node):
        l = args[1]
        if isinstance(l, ObjVal) and l.cls == "GlobalNames":
            return Sym(FROM_GLOBAL(l.fields["parts"].term), CPATH)
        raise OutOfSubset("from_list(%r)" % (l,))

    def m_top(self, eng, args, kwargs, node):
        p, m = self.parts(args[1]), self.obj(args[2])
        gctx = args[3]
        eng.event("recursive_retrieve", parts=p, mod=m)
        c = gctx.fields["cached_objects"]
        c.fields["dom"] = Sym(z3.Const(sv.fresh_name("cache_dom"), CDOM), TDOM)
        c.fields["val"] = Sym(z3.Const(sv.fresh_name("cache_val"), CVAL), TVAL)
        eng.assume(cache_inv(c.fields["dom"].term, c.fields["val"].term), heavy=True)  # the callee keeps the cache coherent
        r = RETRIEVE(p, m)
        eng.assume(S1(r))
        return ObjVal("Resolved", term=r)

    def m_isinstance(self, eng, args, kwargs, node):
        v, c = args[0], args[1]
        if isinstance(v, Sym) and v.ty == PYOBJ and isinstance(c, tuple) and str in c:
            rest = tuple(k for k in c if k is not str)
            r = super().m_isinstance(eng, [v, rest], kwargs, node)
            return Sym(z3.Or(r.term, ISSTR(v.term)), TBool)
        return super().m_isinstance(eng, args, kwargs, node)

    def eval_comprehension(self, eng, e, env, kind):
        # [str(x) for x in local_path.parts]
        it = eng.eval(e.generators[0].iter, env)
        if isinstance(it, Sym) and it.ty == PARTS:
            return ObjVal("StrParts", parts=it)
        return super().eval_comprehension(eng, e, env, kind)

    def binop_other(self, eng, op, a, b, node):
        if isinstance(b, ObjVal) and b.cls == "StrParts" and isinstance(a, ListVal) and a.items == ["__global__"]:
            return ObjVal("GlobalNames", parts=b.fields["parts"])
        return NotImplemented

    # ---- the cache and the start globals --------------------------------------------------------------
    def _key(self, k):
        if isinstance(k, tuple) and len(k) == 2:
            return self.parts(k[0]), k[1].term
        raise OutOfSubset("cache key %r" % (k,))

    def contains_other(self, eng, container, x, node):
        if isinstance(container, ObjVal) and container.cls == "ObjCache":
            ps, cp = self._key(x)
            return z3.Select(z3.Select(container.fields["dom"].term, ps), cp)
        if isinstance(container, ObjVal) and container.cls == "StartGlobals":
            return SG_HAS(TStr.lift(x).term)
        return super().contains_other(eng, container, x, node)

    def getitem_other(self, eng, o, k, node):
        if isinstance(o, ObjVal) and o.cls == "ObjCache":
            ps, cp = self._key(k)
            eng.oblige("cache_key_present", z3.Select(z3.Select(o.fields["dom"].term, ps), cp), kind="safety:KeyError", node=node)
            return ObjVal("Resolved", term=z3.Select(z3.Select(o.fields["val"].term, ps), cp))
        if isinstance(o, ObjVal) and o.cls == "StartGlobals":
            eng.oblige("start_global_present", SG_HAS(TStr.lift(k).term), kind="safety:KeyError", node=node)
            return Sym(SG_GET(TStr.lift(k).term), PYOBJ)
        return super().getitem_other(eng, o, k, node)

    def setitem(self, eng, o, k, v, node):
        if isinstance(o, ObjVal) and o.cls == "ObjCache":
            ps, cp = self._key(k)
            r = self.result_term(v)
            if r is None:
                raise OutOfSubset("cached value %r" % (v,))
            dom, val = o.fields["dom"].term, o.fields["val"].term
            o.fields["dom"] = Sym(z3.Store(dom, ps, z3.Store(z3.Select(dom, ps), cp, z3.BoolVal(True))), TDOM)
            o.fields["val"] = Sym(z3.Store(val, ps, z3.Store(z3.Select(val, ps), cp, r)), TVAL)
            eng.event("cache_store", parts=ps, cp=cp, value=r)
            return
        return super().setitem(eng, o, k, v, node)

    # ---- contract ----------------------------------------------------------------------------------
    def make_args(self, eng):
        cache = ObjVal("ObjCache", dom=Sym(z3.Const("cache_dom", CDOM), TDOM), val=Sym(z3.Const("cache_val", CVAL), TVAL))
        return {
            "cls": ObjVal("ObjectRetrievalCls"),
            "local_path": ObjVal("LocalDepPath", parts=PARTS.const("parts")),
            "context_mod": PYOBJ.const("context_mod"),
            "gctx": ObjVal("gctx", cached_objects=cache, start_globals=ObjVal("StartGlobals")),
            "debug": TBool.const("debug"),
        }

    def definition(self, p, m):
        """the answer of an uncached call, case by case (recursive positions: resolve = _retrieve_object_rec, retrieve = itself)"""
        n = z3.Length(p)
        f = p[0]
        tail = z3.SubSeq(p, 1, n - 1)
        mp = MODPATH(m)
        g = SG_GET(f)
        gpath = z3.If(ISMOD(g), MODPATH(g), z3.If(ISFUN(g), FUNPATH(g), FROM_GLOBAL(p)))
        tracked_global = z3.Or(TRACKED(g), ISFUN(g), ISMOD(g), ISPATHVAL(g), ISSTR(g))
        in_main = z3.Or(HEAD(mp) == z3.StringVal("__main__"), HEAD(mp) == z3.StringVal("__global__"))
        from_globals = z3.If(
            z3.Not(SG_HAS(f)), RES.none,
            z3.If(z3.And(ISMOD(g), z3.Not(self.is_empty(tail))), RETRIEVE(tail, g),
                  z3.If(z3.And(AUTH(gpath), tracked_global), RES.auth(g, gpath), RES.ext(gpath))))
        return z3.If(HAS(m, f), RESOLVE(p, m), z3.If(IMPORTABLE(f), RESOLVE(tail, IMPORTED(f)), z3.If(in_main, from_globals, RES.none)))

    def requires(self, ctx):
        p, m, n, f, tail, o, here = self.terms(ctx)
        g = SG_GET(f)
        c = ctx.args["gctx"].fields["cached_objects"]
        return [("kinds_%d_%d" % (j, i), z3.substitute_vars(a.body(), x)) for j, x in enumerate((g, IMPORTED(f))) for i, a in enumerate(kind_axioms())] + [
            ("a_local_path_has_at_least_one_name", n > 0),
            ("a_module_is_determined_by_its_path", MODOF(MODPATH(m)) == m),
            ("a_str_value_is_no_module_function_class_or_path", z3.Implies(ISSTR(g), z3.And(z3.Not(ISMOD(g)), z3.Not(ISFUN(g)), z3.Not(ISCLASS(g)), z3.Not(ISPATHVAL(g))))),
            ("definition_of_the_uncached_answer_at_this_key", RETRIEVE(p, m) == self.definition(p, m)),
            ("cache_is_coherent", cache_inv(c.fields["dom"].term, c.fields["val"].term)),
        ]

    def ensures(self, ctx):
        r = self.result_term(ctx.result)
        if r is None:
            return [("result_is_a_resolution", False)]
        p, m, n, f, tail, o, here = self.terms(ctx)
        c = ctx.args["gctx"].fields["cached_objects"]
        return [
            ("S1_only_an_object_under_an_accepted_path_is_tracked", S1(r)),
            ("hit_or_miss_the_answer_is_that_of_the_uncached_call", r == RETRIEVE(p, m)),
            ("the_cache_stays_coherent", cache_inv(c.fields["dom"].term, c.fields["val"].term)),
            # (quantifier free, so that a wrong store is refuted with a definite model)
            ("what_this_call_caches_is_its_answer_under_its_key", z3.And(*[z3.And(ev.data["parts"] == p, ev.data["cp"] == MODPATH(m), ev.data["value"] == r) for ev in ctx.events if ev.kind == "cache_store"] + [z3.BoolVal(True)])),
        ]

    def signals(self, ctx):
        e = ctx.exc
        c = ctx.args["gctx"].fields["cached_objects"]
        # nothing is cached for a resolution that failed
        return [("only_coded_dds_errors_of_the_resolution", e.cls is DS.DDSException), ("the_cache_stays_coherent", cache_inv(c.fields["dom"].term, c.fields["val"].term))]


SPECS = [retrieve_object_rec, retrieve_object]



def lemmas():
    """Consequences of the verified equations for the property statement (the equations are instantiated by hand: what the
    contract proves for one call is used at the calls below it).  `eq_*` restate clauses of `ensures` as facts about resolve."""
    m, m1, m2, o = (z3.Const(x, O) for x in ("m_", "m1_", "m2_", "o_"))
    a, b = z3.Const("a_", STR), z3.Const("b_", STR)
    E = z3.Empty(SS)
    U = z3.Unit
    kinds = kind_axioms()

    def terminal_tracked(mod, name, obj):
        # clause a_terminal_object_of_an_accepted_path_and_tracked_kind_is_tracked for the call resolve([name], mod)
        here = APP(MODPATH(mod), name)
        return z3.Implies(z3.And(obj == GET(mod, name), ISFUN(obj), z3.Not(DEFMOD_NONE(obj)), DEFMOD(obj) != TYPING, DEFMOD(obj) == mod, AUTH(here)), RESOLVE(U(name), mod) == RES.auth(obj, here))

    def terminal_external(mod, name, obj):
        here = APP(MODPATH(mod), name)
        return z3.Implies(z3.And(obj == GET(mod, name), ISFUN(obj), z3.Not(DEFMOD_NONE(obj)), DEFMOD(obj) != TYPING, DEFMOD(obj) == mod, z3.Not(AUTH(here))), RESOLVE(U(name), mod) == RES.ext(here))

    def follows_module(mod, name, sub, rest):
        return z3.Implies(z3.And(sub == GET(mod, name), ISMOD(sub)), RESOLVE(z3.Concat(U(name), rest), mod) == RESOLVE(rest, sub))

    def redirected(mod, name, obj):
        return z3.Implies(z3.And(obj == GET(mod, name), ISFUN(obj), z3.Not(DEFMOD_NONE(obj)), DEFMOD(obj) != TYPING, DEFMOD(obj) != mod), RESOLVE(U(name), mod) == RESOLVE(U(NAME(obj)), DEFMOD(obj)))

    out = []
    # an accepted function is tracked however the caller reaches it: directly, through a chain of two modules (x.y.f), or
    # re-exported by ANY module (accepted or not) under another name
    defined = z3.And(ISFUN(o), z3.Not(DEFMOD_NONE(o)), DEFMOD(o) != TYPING, DEFMOD(o) == m2, GET(m2, NAME(o)) == o, AUTH(APP(MODPATH(m2), NAME(o))))
    want = RES.auth(o, APP(MODPATH(m2), NAME(o)))
    g1 = z3.Implies(z3.And(*kinds, defined, terminal_tracked(m2, NAME(o), o), redirected(m, a, o), GET(m, a) == o, m != m2), RESOLVE(U(a), m) == want)
    out.append(Obligation("ObjectRetrieval._retrieve_object_rec#TRACKED-THROUGH-ANY-REEXPORT", "lemma", 0, [], g1, 0, {}))
    g2 = z3.Implies(
        z3.And(*kinds, defined, terminal_tracked(m2, NAME(o), o), GET(m, a) == m1, ISMOD(m1), GET(m1, b) == m2, ISMOD(m2), follows_module(m, a, m1, z3.Concat(U(b), U(NAME(o)))), follows_module(m1, b, m2, U(NAME(o)))),
        RESOLVE(z3.Concat(U(a), U(b), U(NAME(o))), m) == want,
    )
    out.append(Obligation("ObjectRetrieval._retrieve_object_rec#TRACKED-THROUGH-A-MODULE-CHAIN", "lemma", 0, [], g2, 0, {}))
    # a function of a non-accepted module is external however it is reached, and is never tracked
    undefined = z3.And(ISFUN(o), z3.Not(DEFMOD_NONE(o)), DEFMOD(o) != TYPING, DEFMOD(o) == m2, GET(m2, NAME(o)) == o, z3.Not(AUTH(APP(MODPATH(m2), NAME(o)))))
    g3 = z3.Implies(z3.And(*kinds, undefined, terminal_external(m2, NAME(o), o), redirected(m, a, o), GET(m, a) == o, m != m2), RESOLVE(U(a), m) == RES.ext(APP(MODPATH(m2), NAME(o))))
    out.append(Obligation("ObjectRetrieval._retrieve_object_rec#EXTERNAL-THROUGH-ANY-REEXPORT", "lemma", 0, [], g3, 0, {}))
    return out
