"""Contract for dds/introspect.py:InspectFunction.inspect_fun -- how a function's signature is composed from what the
visitors discovered (C01 signature sensitivity, C02, C09 READER).  The visitors themselves (dependency *discovery*)
are abstracted: ExternalVarsVisitor yields the discovered external dependencies, IntroVisitor the sub-calls and loads.
"""
import ast as _ast

import z3

from .common import *
from .pyval import *
from .sigs import FIS, SeqFIS, OPT_S
from .store_memory import m_OrderedDict_from_pairs
from pyvc.engine import _Raise, _PathEnd
from pyvc.spec import EmptyDict
import dds.structures as DS

EXTDEP = TRec("ExternalDep", local_path=TStr, path=TStr, sig=OPT_S)
SeqED = TSeq(EXTDEP)
SORTED_ED = z3.Function("sorted_by_local_path", SeqED.sort(), SeqED.sort())
NODUPS = z3.Function("no_dups", z3.SeqSort(S), z3.SeqSort(S))


class inspect_fun(FnSpec):
    file, qualname = "dds/introspect.py", "InspectFunction.inspect_fun"
    may_raise = True
    variant = "FunctionDef"

    def __init__(self):
        super().__init__()
        g = self.globals
        g["ExternalVarsVisitor"] = Model(lambda eng, a, k, n: ObjVal("EVV", vars=ObjVal("VarsDict")), "ExternalVarsVisitor")
        g["IntroVisitor"] = Model(self.m_intro_visitor, "IntroVisitor")
        g["_build_return_sig"] = Model(self.m_brs, "contract:_build_return_sig")
        g["dds_hash"] = Model(self.m_dds_hash, "contract:dds_hash")
        g["_no_dups"] = Model(self.m_no_dups, "contract:_no_dups")
        g["sorted"] = Model(lambda eng, a, k, n: Sym(SORTED_ED(a[0].term), SeqED), "sorted")
        g["dict"] = m_OrderedDict_from_pairs(TStr, TStr)
        g["set"] = Model(lambda eng, a, k, n: Opaque("set"), "set")
        g["FunctionInteractions"] = Model(lambda eng, a, k, n: ObjVal("FunctionInteractions", **k), "FunctionInteractions")
        self.classes["EVV"] = {"visit": Model(lambda eng, a, k, n: eng.event("visit_vars", node=a[1]), "visit")}
        self.classes["VarsDict"] = {"values": Model(lambda eng, a, k, n: SeqED.const("discovered_ext_deps"), "values")}
        self.classes["IV"] = {"visit": Model(lambda eng, a, k, n: eng.event("visit_calls", node=a[1]), "visit")}
        self.classes["InspectFunction"] = {
            "get_local_vars": Model(lambda eng, a, k, n: Opaque("local_vars"), "get_local_vars"),
            "_path_annotation": Model(lambda eng, a, k, n: TOpt(TStr).const("annotation_path"), "_path_annotation"),
        }
        self.classes["EvalMainContext"] = {}

    def m_intro_visitor(self, eng, args, kwargs, node):
        eng.event("IntroVisitor", args=list(args))
        return ObjVal("IV", inters=SeqFIS.const("discovered_sub_calls"), load_paths=TSeq(TStr).const("discovered_load_paths"))

    def m_brs(self, eng, args, kwargs, node):
        n = sum(1 for e in eng.st.events if e.kind == "brs")
        eng.event("brs", kw=dict(kwargs), args=list(args))
        r = OPT_S.const("sig_of_build_return_sig_call_%d" % n)
        if kwargs.get("body_sig") is not None:
            # contract of _build_return_sig: None iff the list of components is empty; a body signature is a component
            eng.assume(z3.Not(OPT_S.is_none(r.term)))
        return r

    def m_dds_hash(self, eng, args, kwargs, node):
        v = args[0]
        if isinstance(v, ListVal) and not v.items:
            return Sym(SH(C["VList"](z3.Empty(SeqPV))), TStr)
        return Sym(SH(TPV.lift(v).term), TStr)

    def m_no_dups(self, eng, args, kwargs, node):
        s = args[0].term
        r = Sym(NODUPS(s), TSeq(TStr))
        q = z3.String(sv.fresh_name("q"))
        eng.assume(z3.ForAll([q], z3.Contains(r.term, z3.Unit(q)) == z3.Contains(s, z3.Unit(q))), heavy=True)
        i, j = z3.Int(sv.fresh_name("i")), z3.Int(sv.fresh_name("j"))
        eng.assume(z3.ForAll([i], z3.Implies(z3.And(0 <= i, i < z3.Length(r.term)), z3.Exists([j], z3.And(0 <= j, j < z3.Length(s), s[j] == r.term[i])))), heavy=True)
        eng.assume(z3.ForAll([j], z3.Implies(z3.And(0 <= j, j < z3.Length(s)), z3.Exists([i], z3.And(0 <= i, i < z3.Length(r.term), r.term[i] == s[j])))), heavy=True)
        return r

    def make_args(self, eng):
        node = ObjVal("FunctionDef", body=ListVal([Opaque("a statement of the body")]))
        node.pyclass = _ast.FunctionDef
        gctx = ObjVal("EvalMainContext", resolved_references=MapVal.named("resolved_references", TStr, TStr))
        return {
            "cls": ObjVal("InspectFunction"),
            "node": node,
            "gctx": gctx,
            "mod": Opaque("mod"),
            "function_body_lines": TSeq(TStr).const("function_body_lines"),
            "arg_ctx": ObjVal("FunctionArgContext", named_args=Opaque("named_args"), inner_call_key=Opaque("ick")),
            "fun_path": Opaque("fun_path"),
            "call_stack": Opaque("call_stack"),
            "debug": False,
        }

    def _all_resolved(self, ctx):
        lp = TSeq(TStr).const("discovered_load_paths").term
        rr = ctx.args["gctx"].resolved_references
        i = z3.Int(sv.fresh_name("i"))
        return z3.ForAll([i], z3.Implies(z3.And(0 <= i, i < z3.Length(lp)), rr.has(lp[i])))

    def ensures(self, ctx):
        ev = ctx.events
        brs = [e for e in ev if e.kind == "brs"]
        iv = [e for e in ev if e.kind == "IntroVisitor"]
        r = ctx.result
        out = [("two_signature_compositions", len(brs) == 2), ("one_call_visitor", len(iv) == 1), ("every_loaded_path_was_resolved", self._all_resolved(ctx))]
        if len(brs) != 2 or len(iv) != 1 or not isinstance(r, ObjVal):
            return out
        k1, k2 = brs[0].data["kw"], brs[1].data["kw"]
        found = SORTED_ED(SeqED.const("discovered_ext_deps").term)
        i = z3.Int(sv.fresh_name("i"))
        rng = z3.And(0 <= i, i < z3.Length(found))
        lp = lambda t: EXTDEP.get(t, "local_path").term
        sg = lambda t: EXTDEP.get(t, "sig").term
        V, E, D = k2.get("ext_vars"), k2.get("ext_deps"), k2.get("indirect_deps")
        lines = ctx.args["function_body_lines"].term
        body_hash = SH(C["VList"](MAPVSTR(lines)))
        nodups = NODUPS(TSeq(TStr).const("discovered_load_paths").term)
        rr = ctx.args["gctx"].resolved_references
        inters = SeqFIS.const("discovered_sub_calls").term
        isv = lambda m: isinstance(m, MapVal)
        input_sig = iv[0].data["args"][3]
        s1 = OPT_S.const("sig_of_build_return_sig_call_0").term
        out += [
            # ---- the input signature (context of every call made from the body) ------------------------------------
            ("input_sig_has_no_body_deps_subcalls", k1.get("body_sig") is None and isinstance(k1.get("indirect_deps"), EmptyDict) and isinstance(k1.get("sub_fis"), ListVal) and not k1["sub_fis"].items),
            ("input_sig_uses_the_call_arguments", k1.get("arg_ctx") is ctx.args["arg_ctx"]),
            ("input_sig_covers_tracked_variables", isv(V) and k1.get("ext_vars") is V),
            ("input_sig_covers_external_names", isv(E) and k1.get("ext_deps") is E),
            ("call_visitor_receives_the_input_sig", isinstance(input_sig, Sym) and z3.Or(z3.And(z3.Not(OPT_S.is_none(s1)), OPT_S.lift(input_sig).term == s1), OPT_S.lift(input_sig).term == OPT_S.some(SH(C["VList"](z3.Empty(SeqPV)))))),
            # ---- the return signature --------------------------------------------------------------------------------------
            ("return_sig_covers_body_text", isinstance(k2.get("body_sig"), Sym) and k2["body_sig"].term == body_hash),
            ("return_sig_uses_the_call_arguments", k2.get("arg_ctx") is ctx.args["arg_ctx"]),
            ("return_sig_covers_sub_calls", isinstance(k2.get("sub_fis"), Sym) and k2["sub_fis"].term == inters),
        ]
        if isv(V) and isv(E):
            out += [
                ("every_tracked_variable_is_in_ext_vars", z3.ForAll([i], z3.Implies(z3.And(rng, z3.Not(OPT_S.is_none(sg(found[i])))), V.has(lp(found[i]))))),
                ("ext_vars_values_are_discovered_signatures", forall(TStr, lambda q: z3.Implies(V.has(q), z3.Exists([i], z3.And(rng, lp(found[i]) == q, sg(found[i]) == OPT_S.some(V.get(q))))))),
                ("every_external_name_is_in_ext_deps", z3.ForAll([i], z3.Implies(z3.And(rng, OPT_S.is_none(sg(found[i]))), E.has(lp(found[i]))))),
            ]
        if isv(D):
            j = z3.Int(sv.fresh_name("j"))
            out.append(("return_sig_covers_every_loaded_path_with_its_resolved_signature", z3.ForAll([j], z3.Implies(z3.And(0 <= j, j < z3.Length(nodups)), z3.And(D.has(nodups[j]), D.get(nodups[j]) == rr.get(nodups[j]))))))
        else:
            out.append(("return_sig_covers_every_loaded_path_with_its_resolved_signature", False))
        s2 = OPT_S.const("sig_of_build_return_sig_call_1").term
        frs = r.fields.get("fun_return_sig")
        out += [
            ("result_signature_is_the_composed_one", isinstance(frs, Sym) and OPT_S.lift(frs).term == s2),
            ("result_body_sig", isinstance(r.fields.get("fun_body_sig"), Sym) and r.fields["fun_body_sig"].term == body_hash),
            ("result_sub_calls", isinstance(r.fields.get("parsed_body"), Sym) and r.fields["parsed_body"].term == inters),
            ("result_loaded_paths", isinstance(r.fields.get("indirect_deps"), Sym) and r.fields["indirect_deps"].term == nodups),
            ("result_store_path_from_annotation", isinstance(r.fields.get("store_path"), Sym) and r.fields["store_path"].term == TOpt(TStr).const("annotation_path").term),
            ("visitors_see_every_statement", count_kind(ev, "visit_vars") == 1 and count_kind(ev, "visit_calls") == 1),
        ]
        return out

    def signals(self, ctx):
        # a path loaded before anything stored it (in this evaluation or an earlier one) is refused with a DDS error
        return [("only_coded_dds_errors", ctx.exc.cls is DS.DDSException), ("only_for_an_unresolved_loaded_path", z3.Not(self._all_resolved(ctx)))]


def count_kind(ev, k):
    return sum(1 for e in ev if e.kind == k)


SPECS = [inspect_fun]
