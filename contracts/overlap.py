"""Contract for dds/structures_utils.py:FunctionInteractionsUtils.non_terminal_leaves (C11: the overlap check itself).

Paths are an uninterpreted sort with the segment algebra  ROOT ("/"), HEAD(p), TAIL(p)  (what DDSPathUtils.split computes
on the strings -- trusted as the definition of the algebra; the string level is covered by the bounded check) and the
prefix relation PFX defined by unfolding.  Statement (for a list of pairwise distinct paths, which is what the keys of the
collected path map are):

    the result is non-empty  <=>  some path of the list is a proper segment-prefix of another one

sorted(..., key=first) followed by itertools.groupby(..., first) is modelled by its contract: the groups partition the
list, every group is non-empty and holds exactly the elements with its key, and -- because the input is sorted by the
same key -- no two groups have the same key.  Without the sort the last clause is not available (adjacent grouping only).
The recursive call is used by its contract (induction on the length of the longest path: A-REC).
"""
import ast as _ast

import z3

from .common import *
from pyvc.engine import _Raise, _PathEnd
from pyvc.spec import CompSpec

DP = TUn("DdsPath")
SEG = TUn("PathSegment")
P, SG = DP.sort(), SEG.sort()
ROOT = z3.Const("root_path", P)
HEAD = z3.Function("first_segment", P, SG)
TAIL = z3.Function("rest_of_path", P, P)
JOIN = z3.Function("prefix_slash_segment", P, SG, P)  # current_prefix + "/" + key
PFX = z3.Function("is_segment_prefix", P, P, z3.BoolSort())
OPT_P = TOpt(DP)
SPLIT = TTup(SEG, OPT_P)
SEQ_SPLIT = TSeq(SPLIT)
GROUP = TTup(SEG, SEQ_SPLIT)


def algebra():
    x, y = z3.Const("x_", P), z3.Const("y_", P)
    return [
        z3.ForAll([x, y], PFX(x, y) == z3.Or(x == ROOT, z3.And(x != ROOT, y != ROOT, HEAD(x) == HEAD(y), PFX(TAIL(x), TAIL(y))))),
        z3.ForAll([x, y], z3.Implies(z3.And(x != ROOT, y != ROOT, HEAD(x) == HEAD(y), TAIL(x) == TAIL(y)), x == y)),  # a path is its segments
    ]


def spfx(x, y):
    return z3.And(PFX(x, y), x != y)


def overlap(seq):
    i, j = z3.Int(sv.fresh_name("i")), z3.Int(sv.fresh_name("j"))
    n = z3.Length(seq)
    return z3.Exists([i, j], z3.And(0 <= i, i < n, 0 <= j, j < n, i != j, spfx(seq[i], seq[j])))


def distinct(seq):
    i, j = z3.Int(sv.fresh_name("i")), z3.Int(sv.fresh_name("j"))
    n = z3.Length(seq)
    return z3.ForAll([i, j], z3.Implies(z3.And(0 <= i, i < n, 0 <= j, j < n, i != j), seq[i] != seq[j]))


def tail_of_split(t):
    """the relative path a split tuple stands for: its second component, "/" when that is None"""
    o = SPLIT.get(t, 1)
    return z3.If(OPT_P.is_none(o), ROOT, OPT_P.val(o))


class non_terminal_leaves(FnSpec):
    file, qualname = "dds/structures_utils.py", "FunctionInteractionsUtils.non_terminal_leaves"
    variant = "below a prefix"

    def __init__(self):
        super().__init__()
        g = self.globals
        g["DDSPath"] = Model(self.m_ddspath, "DDSPath")
        g["DDSPathUtils"] = ObjVal("DDSPathUtils")
        self.classes["DDSPathUtils"] = {"split": Model(self.m_split, "DDSPathUtils.split (definition of the segment algebra)")}
        g["sorted"] = Model(self.m_sorted, "sorted(key=first component)")
        g["itertools"] = ObjVal("itertools")
        self.classes["itertools"] = {"groupby": Model(self.m_groupby, "contract:groupby after sort")}
        g["FunctionInteractionsUtils"] = ObjVal("FIU")
        self.classes["FIU"] = {"non_terminal_leaves": Model(self.ih, "IH:non_terminal_leaves")}
        self.loops[0] = LoopSpec(invariant=self.inv, seqvars={"res": TSeq(DP)})
        # 1: [DDSPathUtils.split(p) for p in non_empty_paths]   2: [(p if p is not None else empty_path) for (_, p) in l]
        self.comps[1] = CompSpec(elem=lambda item: Sym(self.split_term(item.term), SPLIT), result=self.splits_of)
        self.comps[2] = CompSpec(elem=lambda item: Sym(tail_of_split(item.term), DP), result=self.tails_of)

    # ---- models ---------------------------------------------------------------------------------------------------
    def m_ddspath(self, eng, args, kwargs, node):
        x = args[0]
        if x == "/":
            return Sym(ROOT, DP)
        if isinstance(x, ObjVal) and x.cls == "PathExpr":
            pre, seg = x.fields["prefix"], x.fields["seg"]
            return Sym(JOIN(ROOT if pre is None else pre.term, seg.term), DP)
        raise OutOfSubset("DDSPath(%r)" % (x,))

    def binop_other(self, eng, op, a, b, node):
        if isinstance(op, _ast.Add):
            if a == "/" and isinstance(b, Sym) and b.ty == SEG:
                return ObjVal("PathExpr", prefix=None, seg=b)
            if isinstance(a, Sym) and a.ty == DP and b == "/":
                return ObjVal("PathExprPrefix", prefix=a)
            if isinstance(a, ObjVal) and a.cls == "PathExprPrefix" and isinstance(b, Sym) and b.ty == SEG:
                return ObjVal("PathExpr", prefix=a.fields["prefix"], seg=b)
        return NotImplemented

    def split_term(self, p):
        t = TAIL(p)
        return SPLIT.mk(HEAD(p), z3.If(t == ROOT, OPT_P.none(), OPT_P.some(t)))

    def m_split(self, eng, args, kwargs, node):
        p = DP.lift(args[1]).term
        return Sym(self.split_term(p), SPLIT)

    def splits_of(self, it):
        """spec-level map: the split of every element, in order"""
        eng = self.ctx.eng
        src = it.term if isinstance(it, Sym) else it.sym().term
        r = SEQ_SPLIT.fresh("splits")
        i = z3.Int(sv.fresh_name("i"))
        eng.assume(z3.Length(r.term) == z3.Length(src))
        eng.assume(z3.ForAll([i], z3.Implies(z3.And(0 <= i, i < z3.Length(src)), r.term[i] == self.split_term(src[i]))), heavy=True)
        return r

    def tails_of(self, it):
        src = it.term if isinstance(it, Sym) else it.sym().term
        return Sym(TAILS(src), TSeq(DP))

    def m_sorted(self, eng, args, kwargs, node):
        xs = args[0]
        key = kwargs.get("key")
        if not self.is_first_component(key):
            raise OutOfSubset("sorted with another key than the first component")
        t = xs.term if isinstance(xs, Sym) else xs.sym().term
        return ObjVal("SortedByFirst", seq=Sym(t, SEQ_SPLIT))

    def is_first_component(self, f):
        from pyvc.engine import Closure

        if not isinstance(f, Closure):
            return False
        e = f.fdef
        try:
            b = e.body
            return isinstance(b, _ast.Subscript) and isinstance(b.value, _ast.Name) and b.value.id == e.args.args[0].arg and isinstance(b.slice, _ast.Constant) and b.slice.value == 0
        except Exception:
            return False

    def m_groupby(self, eng, args, kwargs, node):
        xs, key = args[1], args[2]
        if not self.is_first_component(key):
            raise OutOfSubset("groupby with another key than the first component")
        is_sorted = isinstance(xs, ObjVal) and xs.cls == "SortedByFirst"
        s = xs.fields["seq"].term if is_sorted else (xs.term if isinstance(xs, Sym) else xs.sym().term)
        G = TSeq(GROUP).fresh("groups")
        g, g2, m, i = z3.Int(sv.fresh_name("g")), z3.Int(sv.fresh_name("g2")), z3.Int(sv.fresh_name("m")), z3.Int(sv.fresh_name("i"))
        ng, ns = z3.Length(G.term), z3.Length(s)
        key_of = lambda gi: GROUP.get(G.term[gi], 0)
        mem = lambda gi: GROUP.get(G.term[gi], 1)
        ing = z3.And(0 <= g, g < ng)
        eng.assume(ng >= 0)
        # every group is non-empty and holds elements of the input with the group's key
        eng.assume(z3.ForAll([g], z3.Implies(ing, z3.Length(mem(g)) > 0)), heavy=True)
        eng.assume(z3.ForAll([g, m], z3.Implies(z3.And(ing, 0 <= m, m < z3.Length(mem(g))), z3.And(SPLIT.get(mem(g)[m], 0) == key_of(g), z3.Exists([i], z3.And(0 <= i, i < ns, s[i] == mem(g)[m]))))), heavy=True)
        # every element of the input is in some group
        eng.assume(z3.ForAll([i], z3.Implies(z3.And(0 <= i, i < ns), z3.Exists([g, m], z3.And(ing, 0 <= m, m < z3.Length(mem(g)), mem(g)[m] == s[i])))), heavy=True)
        # a group of a duplicate-free input is duplicate-free
        eng.assume(z3.Implies(distinct_splits(s), z3.ForAll([g], z3.Implies(ing, distinct_splits(mem(g))))), heavy=True)
        if is_sorted:
            # sorted by the grouping key: equal keys are adjacent, so no key has two groups
            eng.assume(z3.ForAll([g, g2], z3.Implies(z3.And(ing, 0 <= g2, g2 < ng, g != g2), key_of(g) != key_of(g2))), heavy=True)
        eng.st.ghost_groups = G
        return G

    def ih(self, eng, args, kwargs, node):
        """the recursive call by its contract"""
        sub, prefix = args[1], args[2]
        st = sub.term if isinstance(sub, Sym) else sub.sym().term
        eng.oblige("call:non_terminal_leaves:requires:paths_distinct", distinct(st), kind="call-requires", node=node)
        r = TSeq(DP).fresh("rec")
        eng.assume((z3.Length(r.term) > 0) == overlap(st), heavy=True)
        return r

    # ---- contract ---------------------------------------------------------------------------------------------------
    def prefix_arg(self):
        return DP.const("current_prefix")

    def make_args(self, eng):
        return {"cls": ObjVal("FIU"), "paths": TSeq(DP).const("paths"), "current_prefix": self.prefix_arg()}

    def requires(self, ctx):
        sq = z3.Const("sq_", SEQ_SPLIT.sort())
        i = z3.Int("ti_")
        tails_def = [
            z3.ForAll([sq], z3.Length(TAILS(sq)) == z3.Length(sq)),
            z3.ForAll([sq, i], z3.Implies(z3.And(0 <= i, i < z3.Length(sq)), TAILS(sq)[i] == tail_of_split(sq[i]))),
        ]
        return [("algebra_%d" % i, a) for i, a in enumerate(algebra())] + [("tails_def_%d" % i, a) for i, a in enumerate(tails_def)] + [("paths_distinct", distinct(ctx.args["paths"].term))]

    def root_and_other(self, ctx):
        ps = ctx.args["paths"].term
        i, j = z3.Int(sv.fresh_name("i")), z3.Int(sv.fresh_name("j"))
        n = z3.Length(ps)
        return z3.Exists([i, j], z3.And(0 <= i, i < n, 0 <= j, j < n, ps[i] == ROOT, ps[j] != ROOT))

    def inv(self, ctx, env, k):
        res = env["res"]
        t = res.term if isinstance(res, Sym) else res.sym().term
        G = ctx.eng.st.ghost_groups.term
        g = z3.Int(sv.fresh_name("g"))
        tails = lambda gi: TAILS(GROUP.get(G[gi], 1))
        return [("reported_iff_overlap_so_far", (z3.Length(t) > 0) == z3.Or(self.root_and_other(ctx), z3.Exists([g], z3.And(0 <= g, g < k, overlap(tails(g))))))]

    def ensures(self, ctx):
        r = ctx.result
        t = r.term if isinstance(r, Sym) else r.sym().term
        return [("reports_iff_some_path_is_a_proper_prefix_of_another", (z3.Length(t) > 0) == overlap(ctx.args["paths"].term))]


TAILS = z3.Function("tails_of_group", SEQ_SPLIT.sort(), z3.SeqSort(P))


def distinct_splits(seq):
    i, j = z3.Int(sv.fresh_name("i")), z3.Int(sv.fresh_name("j"))
    n = z3.Length(seq)
    return z3.ForAll([i, j], z3.Implies(z3.And(0 <= i, i < n, 0 <= j, j < n, i != j), seq[i] != seq[j]))


class non_terminal_leaves_top(non_terminal_leaves):
    variant = "top level (no prefix)"

    def prefix_arg(self):
        return None


SPECS = [non_terminal_leaves, non_terminal_leaves_top]
