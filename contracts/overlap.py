"""Contract for dds/structures_utils.py:FunctionInteractionsUtils.non_terminal_leaves (C11: the overlap check itself).

Paths are an uninterpreted sort with the segment algebra  ROOT ("/"), HEAD(p), TAIL(p)  (what DDSPathUtils.split computes
on the strings -- trusted as the definition of the algebra; the string level is covered by the bounded check) and the
prefix relation PFX defined by unfolding.  Statement (for a list of pairwise distinct paths, which is what the keys of the
collected path map are):

    the result is non-empty  <=>  some path of the list is a proper segment-prefix of another one

sorted(..., key=first) followed by itertools.groupby(..., first) is modelled by its contract: the groups partition the
list, every group is non-empty and holds exactly the elements with its key, and -- because the input is sorted by the
same key -- no two groups have the same key.  Without the sort the last clause is not available (adjacent grouping only).
The recursive call is used by its contract (induction on the length of the longest path: A-REC).
"""
import ast as _ast

import z3

from .common import *
from pyvc.engine import _Raise, _PathEnd
from pyvc.spec import CompSpec

DP = TUn("DdsPath")
SEG = TUn("PathSegment")
P, SG = DP.sort(), SEG.sort()
ROOT = z3.Const("root_path", P)
HEAD = z3.Function("first_segment", P, SG)
TAIL = z3.Function("rest_of_path", P, P)
JOIN = z3.Function("prefix_slash_segment", P, SG, P)  # current_prefix + "/" + key
# the prefix relation, unfolded exactly once: PFX speaks about the paths of this call, PFX_T about their tails (where the
# recursive call's contract speaks).  Both denote the same relation; keeping two symbols stops the solver from unfolding
# the recursive definition without bound (a matching loop).
PFX = z3.Function("is_segment_prefix", P, P, z3.BoolSort())
PFX_T = z3.Function("is_segment_prefix_of_tails", P, P, z3.BoolSort())
OPT_P = TOpt(DP)
SPLIT = TTup(SEG, OPT_P)
SEQ_SPLIT = TSeq(SPLIT)
GROUP = TTup(SEG, SEQ_SPLIT)


def algebra():
    x, y = z3.Const("x_", P), z3.Const("y_", P)
    return [
        z3.ForAll([x, y], PFX(x, y) == z3.Or(x == ROOT, z3.And(x != ROOT, y != ROOT, HEAD(x) == HEAD(y), PFX_T(TAIL(x), TAIL(y))))),
        z3.ForAll([x, y], z3.Implies(z3.And(x != ROOT, y != ROOT, HEAD(x) == HEAD(y), TAIL(x) == TAIL(y)), x == y)),  # a path is its segments
    ]


def spfx(x, y, rel=None):
    return z3.And((PFX if rel is None else rel)(x, y), x != y)


def overlap(seq, rel=None):
    i, j = z3.Int(sv.fresh_name("i")), z3.Int(sv.fresh_name("j"))
    n = z3.Length(seq)
    return z3.Exists([i, j], z3.And(0 <= i, i < n, 0 <= j, j < n, i != j, spfx(seq[i], seq[j], rel)))


def overlap_t(seq):
    """overlap among tails (the relation one level down)"""
    return overlap(seq, PFX_T)


def distinct(seq):
    i, j = z3.Int(sv.fresh_name("i")), z3.Int(sv.fresh_name("j"))
    n = z3.Length(seq)
    return z3.ForAll([i, j], z3.Implies(z3.And(0 <= i, i < n, 0 <= j, j < n, i != j), seq[i] != seq[j]))


def in_seq(seq, x):
    j = z3.Int(sv.fresh_name("j"))
    return z3.Exists([j], z3.And(0 <= j, j < z3.Length(seq), seq[j] == x))


def all_non_root_in(paths, ne):
    i = z3.Int(sv.fresh_name("i"))
    return z3.ForAll([i], z3.Implies(z3.And(0 <= i, i < z3.Length(paths), paths[i] != ROOT), in_seq(ne, paths[i])))


def tail_of_split(t):
    """the relative path a split tuple stands for: its second component, "/" when that is None"""
    o = SPLIT.get(t, 1)
    return z3.If(OPT_P.is_none(o), ROOT, OPT_P.val(o))


from pyvc.spec import LazyIter


class GroupsIter(LazyIter):
    def __init__(self, n, gk, gm):
        self.n, self.gk, self.gm = n, gk, gm

    def concrete(self, eng):
        return None

    def length(self, eng):
        return self.n

    def item(self, eng, k):
        return (Sym(self.gk(k), SEG), Sym(self.gm(k), SEQ_SPLIT))


class non_terminal_leaves(FnSpec):
    file, qualname = "dds/structures_utils.py", "FunctionInteractionsUtils.non_terminal_leaves"
    variant = "below a prefix"
    filter_subsequence_axioms = True
    prefer_solver = "cvc5"

    def __init__(self):
        super().__init__()
        g = self.globals
        g["DDSPath"] = Model(self.m_ddspath, "DDSPath")
        g["DDSPathUtils"] = ObjVal("DDSPathUtils")
        self.classes["DDSPathUtils"] = {"split": Model(self.m_split, "DDSPathUtils.split (definition of the segment algebra)")}
        g["sorted"] = Model(self.m_sorted, "sorted(key=first component)")
        g["itertools"] = ObjVal("itertools")
        self.classes["itertools"] = {"groupby": Model(self.m_groupby, "contract:groupby after sort")}
        g["FunctionInteractionsUtils"] = ObjVal("FIU")
        self.classes["FIU"] = {"non_terminal_leaves": Model(self.ih, "IH:non_terminal_leaves")}
        self.loops[0] = LoopSpec(invariant=self.inv, seqvars={"res": TSeq(DP)})
        # 1: [DDSPathUtils.split(p) for p in non_empty_paths]   2: [(p if p is not None else empty_path) for (_, p) in l]
        self.comps[1] = CompSpec(elem=lambda item: Sym(self.split_term(item.term), SPLIT), result=self.splits_of)
        self.comps[2] = CompSpec(elem=lambda item: Sym(tail_of_split(item.term), DP), result=self.tails_of)

    # ---- models ---------------------------------------------------------------------------------------------------
    def m_ddspath(self, eng, args, kwargs, node):
        x = args[0]
        if x == "/":
            return Sym(ROOT, DP)
        if isinstance(x, ObjVal) and x.cls == "PathExpr":
            pre, seg = x.fields["prefix"], x.fields["seg"]
            return Sym(JOIN(ROOT if pre is None else pre.term, seg.term), DP)
        raise OutOfSubset("DDSPath(%r)" % (x,))

    def binop_other(self, eng, op, a, b, node):
        if isinstance(op, _ast.Add):
            if a == "/" and isinstance(b, Sym) and b.ty == SEG:
                return ObjVal("PathExpr", prefix=None, seg=b)
            if isinstance(a, Sym) and a.ty == DP and b == "/":
                return ObjVal("PathExprPrefix", prefix=a)
            if isinstance(a, ObjVal) and a.cls == "PathExprPrefix" and isinstance(b, Sym) and b.ty == SEG:
                return ObjVal("PathExpr", prefix=a.fields["prefix"], seg=b)
        return NotImplemented

    def split_term(self, p):
        t = TAIL(p)
        return SPLIT.mk(HEAD(p), z3.If(t == ROOT, OPT_P.none(), OPT_P.some(t)))

    def m_split(self, eng, args, kwargs, node):
        p = DP.lift(args[1]).term
        return Sym(self.split_term(p), SPLIT)

    def splits_of(self, it):
        """spec-level map: the split of every element, in order"""
        eng = self.ctx.eng
        src = it.term if isinstance(it, Sym) else it.sym().term
        r = SEQ_SPLIT.fresh("splits")
        i = z3.Int(sv.fresh_name("i"))
        eng.assume(z3.Length(r.term) == z3.Length(src))
        eng.assume(z3.ForAll([i], z3.Implies(z3.And(0 <= i, i < z3.Length(src)), r.term[i] == self.split_term(src[i]))), heavy=True)
        # proof steps about the filtered list and its splits (each an obligation, then available)
        rng = z3.And(0 <= i, i < z3.Length(src))
        eng.oblige("lemma:filtered_paths_are_not_root", z3.ForAll([i], z3.Implies(rng, src[i] != ROOT)), kind="lemma")
        eng.oblige("lemma:filtered_paths_are_distinct", distinct(src), kind="lemma")
        eng.oblige("lemma:both_root_and_other_paths_iff_the_filter_dropped_some_but_not_all", self.root_and_other(self.ctx) == z3.And(z3.Length(self.ctx.args["paths"].term) > z3.Length(src), z3.Length(src) > 0), kind="lemma")
        ps = self.ctx.args["paths"].term
        eng.oblige("lemma:filtered_paths_come_from_the_list", z3.ForAll([i], z3.Implies(rng, in_seq(ps, src[i]))), kind="lemma")
        eng.oblige("lemma:every_non_root_path_is_in_the_filtered_list", all_non_root_in(ps, src), kind="lemma")
        # the two existential lemmas just proved, by index functions (skolemisation: conservative)
        n_ = sv.fresh_name("flt")
        PI = z3.Function(n_ + ".index_in_list", z3.IntSort(), z3.IntSort())
        NI = z3.Function(n_ + ".index_in_filtered", z3.IntSort(), z3.IntSort())
        eng.assume(z3.ForAll([i], z3.Implies(rng, z3.And(0 <= PI(i), PI(i) < z3.Length(ps), ps[PI(i)] == src[i]))), heavy=True)
        eng.assume(z3.ForAll([i], z3.Implies(z3.And(0 <= i, i < z3.Length(ps), ps[i] != ROOT), z3.And(0 <= NI(i), NI(i) < z3.Length(src), src[NI(i)] == ps[i]))), heavy=True)
        eng.st.ghost_PI, eng.st.ghost_NI = PI, NI
        eng.oblige("lemma:split_components", z3.ForAll([i], z3.Implies(rng, z3.And(SPLIT.get(r.term[i], 0) == HEAD(src[i]), tail_of_split(r.term[i]) == TAIL(src[i])))), kind="lemma")
        self.ctx.eng.st.ghost_ne = src
        return r

    def tails_of(self, it):
        src = it.term if isinstance(it, Sym) else it.sym().term
        return Sym(TAILS(src), TSeq(DP))

    def m_sorted(self, eng, args, kwargs, node):
        xs = args[0]
        key = kwargs.get("key")
        if not self.is_first_component(key):
            raise OutOfSubset("sorted with another key than the first component")
        t = xs.term if isinstance(xs, Sym) else xs.sym().term
        return ObjVal("SortedByFirst", seq=Sym(t, SEQ_SPLIT))

    def is_first_component(self, f):
        from pyvc.engine import Closure

        if not isinstance(f, Closure):
            return False
        e = f.fdef
        try:
            b = e.body
            return isinstance(b, _ast.Subscript) and isinstance(b.value, _ast.Name) and b.value.id == e.args.args[0].arg and isinstance(b.slice, _ast.Constant) and b.slice.value == 0
        except Exception:
            return False

    def m_groupby(self, eng, args, kwargs, node):
        xs, key = args[1], args[2]
        if not self.is_first_component(key):
            raise OutOfSubset("groupby with another key than the first component")
        is_sorted = isinstance(xs, ObjVal) and xs.cls == "SortedByFirst"
        s = xs.fields["seq"].term if is_sorted else (xs.term if isinstance(xs, Sym) else xs.sym().term)
        # groups as functions of the group index: key GK(g), members GM(g)
        n_ = sv.fresh_name("groups")
        NG = z3.Int(n_ + ".count")
        GK = z3.Function(n_ + ".key", z3.IntSort(), SG)
        GM = z3.Function(n_ + ".members", z3.IntSort(), SEQ_SPLIT.sort())
        g, g2, m, i = z3.Int(sv.fresh_name("g")), z3.Int(sv.fresh_name("g2")), z3.Int(sv.fresh_name("m")), z3.Int(sv.fresh_name("i"))
        ns = z3.Length(s)
        ing = z3.And(0 <= g, g < NG)
        inm = z3.And(ing, 0 <= m, m < z3.Length(GM(g)))
        SI = z3.Function(n_ + ".index_of_member", z3.IntSort(), z3.IntSort(), z3.IntSort())  # where member m of group g sits in the input
        GG = z3.Function(n_ + ".group_of", z3.IntSort(), z3.IntSort())  # the group / position of input element i
        MM = z3.Function(n_ + ".position_of", z3.IntSort(), z3.IntSort())
        eng.assume(NG >= 0)
        # every group is non-empty and holds elements of the input with the group's key
        eng.assume(z3.ForAll([g], z3.Implies(ing, z3.Length(GM(g)) > 0)), heavy=True)
        eng.assume(z3.ForAll([g, m], z3.Implies(inm, z3.And(SPLIT.get(GM(g)[m], 0) == GK(g), 0 <= SI(g, m), SI(g, m) < ns, s[SI(g, m)] == GM(g)[m]))), heavy=True)
        # every element of the input is in some group
        eng.assume(z3.ForAll([i], z3.Implies(z3.And(0 <= i, i < ns), z3.And(0 <= GG(i), GG(i) < NG, 0 <= MM(i), MM(i) < z3.Length(GM(GG(i))), GM(GG(i))[MM(i)] == s[i]))), heavy=True)
        # a group of a duplicate-free input is duplicate-free
        eng.assume(z3.Implies(distinct_splits(s), z3.ForAll([g], z3.Implies(ing, distinct_splits(GM(g))))), heavy=True)
        if is_sorted:
            # sorted by the grouping key: equal keys are adjacent, so no key has two groups
            eng.assume(z3.ForAll([g, g2], z3.Implies(z3.And(ing, 0 <= g2, g2 < NG, g != g2), GK(g) != GK(g2))), heavy=True)
        # a name for "the tails of group g overlap" (keeps the nested quantifiers out of the invariant)
        OVG = z3.Function(n_ + ".tails_overlap", z3.IntSort(), z3.BoolSort())
        eng.assume(z3.ForAll([g], OVG(g) == overlap_t(TAILS(GM(g)))), heavy=True)
        eng.st.ghost_OVG = OVG
        eng.st.ghost_groups = (NG, GK, GM)
        eng.st.ghost_splits = s
        # proof step: the splits of pairwise distinct non-root paths are pairwise distinct
        eng.oblige("lemma:splits_are_distinct", distinct_splits(s), kind="lemma", node=node)
        eng.oblige("lemma:groups_are_duplicate_free", z3.ForAll([g], z3.Implies(ing, distinct_splits(GM(g)))), kind="lemma", node=node)
        ps = self.ctx.args["paths"].term
        PI, NI = eng.st.ghost_PI, eng.st.ghost_NI
        a = z3.Int(sv.fresh_name("a"))
        ina = z3.And(0 <= a, a < z3.Length(ps))
        src_of = lambda g_, m_: ps[PI(SI(g_, m_))]
        eng.oblige(
            "lemma:a_group_member_is_the_split_of_a_non_root_path_of_the_list",
            z3.ForAll([g, m], z3.Implies(inm, z3.And(0 <= PI(SI(g, m)), PI(SI(g, m)) < z3.Length(ps), src_of(g, m) != ROOT, GM(g)[m] == self.split_term(src_of(g, m)), GK(g) == HEAD(src_of(g, m)), tail_of_split(GM(g)[m]) == TAIL(src_of(g, m))))),
            kind="lemma",
            node=node,
        )
        grp = lambda a_: GG(NI(a_))
        pos = lambda a_: MM(NI(a_))
        eng.oblige(
            "lemma:a_non_root_path_of_the_list_is_in_the_group_of_its_first_segment",
            z3.ForAll([a], z3.Implies(z3.And(ina, ps[a] != ROOT), z3.And(0 <= grp(a), grp(a) < NG, 0 <= pos(a), pos(a) < z3.Length(GM(grp(a))), GK(grp(a)) == HEAD(ps[a]), GM(grp(a))[pos(a)] == self.split_term(ps[a]), tail_of_split(GM(grp(a))[pos(a)]) == TAIL(ps[a])))),
            kind="lemma",
            node=node,
        )
        eng.st.ghost_idx = (SI, GG, MM)
        return GroupsIter(NG, GK, GM)

    def ih(self, eng, args, kwargs, node):
        """the recursive call by its contract"""
        sub, prefix = args[1], args[2]
        st = sub.term if isinstance(sub, Sym) else sub.sym().term
        eng.oblige("call:non_terminal_leaves:requires:paths_distinct", distinct(st), kind="call-requires", node=node)
        r = TSeq(DP).fresh("rec")
        eng.assume((z3.Length(r.term) > 0) == overlap_t(st), heavy=True)
        # proof step: for the group being processed this is the named predicate
        OVG = getattr(eng.st, "ghost_OVG", None)
        try:
            gm = st.arg(0)
            if OVG is not None and st.decl().name() == TAILS.name() and gm.num_args() == 1:
                eng.oblige("lemma:the_recursive_call_decides_the_overlap_of_this_group", (z3.Length(r.term) > 0) == OVG(gm.arg(0)), kind="lemma", node=node)
        except Exception:
            pass
        return r

    # ---- contract ---------------------------------------------------------------------------------------------------
    def prefix_arg(self):
        return DP.const("current_prefix")

    def make_args(self, eng):
        return {"cls": ObjVal("FIU"), "paths": TSeq(DP).const("paths"), "current_prefix": self.prefix_arg()}

    def requires(self, ctx):
        sq = z3.Const("sq_", SEQ_SPLIT.sort())
        i = z3.Int("ti_")
        tails_def = [
            z3.ForAll([sq], z3.Length(TAILS(sq)) == z3.Length(sq)),
            z3.ForAll([sq, i], z3.Implies(z3.And(0 <= i, i < z3.Length(sq)), TAILS(sq)[i] == tail_of_split(sq[i]))),
        ]
        return [("algebra_%d" % i, a) for i, a in enumerate(algebra())] + [("tails_def_%d" % i, a) for i, a in enumerate(tails_def)] + [("paths_distinct", distinct(ctx.args["paths"].term))]

    def root_and_other(self, ctx):
        ps = ctx.args["paths"].term
        i, j = z3.Int(sv.fresh_name("i")), z3.Int(sv.fresh_name("j"))
        n = z3.Length(ps)
        return z3.Exists([i, j], z3.And(0 <= i, i < n, 0 <= j, j < n, ps[i] == ROOT, ps[j] != ROOT))

    def inv(self, ctx, env, k):
        res = env["res"]
        t = res.term if isinstance(res, Sym) else res.sym().term
        NG, GK, GM = ctx.eng.st.ghost_groups
        g = z3.Int(sv.fresh_name("g"))
        OVG = ctx.eng.st.ghost_OVG
        return [("reported_iff_overlap_so_far", (z3.Length(t) > 0) == z3.Or(self.root_and_other(ctx), z3.Exists([g], z3.And(0 <= g, g < k, OVG(g)))))]

    def proof_steps(self, ctx):
        NG, GK, GM = ctx.eng.st.ghost_groups
        ps = ctx.args["paths"].term
        g = z3.Int(sv.fresh_name("g"))
        ing = z3.And(0 <= g, g < NG)
        return [
            ("root_with_another_path_is_an_overlap", z3.Implies(self.root_and_other(ctx), overlap(ps))),
            ("an_overlap_inside_a_group_is_an_overlap_of_the_list", z3.ForAll([g], z3.Implies(z3.And(ing, overlap_t(TAILS(GM(g)))), overlap(ps)))),
            ("an_overlap_of_the_list_is_the_root_case_or_inside_a_group", z3.Implies(overlap(ps), z3.Or(self.root_and_other(ctx), z3.Exists([g], z3.And(ing, overlap_t(TAILS(GM(g)))))))),
            ("named_predicate_1", z3.ForAll([g], z3.Implies(z3.And(ing, ctx.eng.st.ghost_OVG(g)), overlap_t(TAILS(GM(g)))))),
            ("named_predicate_2", z3.ForAll([g], z3.Implies(z3.And(ing, ctx.eng.st.ghost_OVG(g)), overlap(ps)))),
            ("named_predicate_3", z3.ForAll([g], z3.Implies(z3.And(ing, overlap_t(TAILS(GM(g)))), ctx.eng.st.ghost_OVG(g)))),
            ("named_predicate_4", z3.Implies(overlap(ps), z3.Or(self.root_and_other(ctx), z3.Exists([g], z3.And(ing, ctx.eng.st.ghost_OVG(g)))))),
        ]

    def ensures(self, ctx):
        r = ctx.result
        t = r.term if isinstance(r, Sym) else r.sym().term
        return [("reports_iff_some_path_is_a_proper_prefix_of_another", (z3.Length(t) > 0) == overlap(ctx.args["paths"].term))]


TAILS = z3.Function("tails_of_group", SEQ_SPLIT.sort(), z3.SeqSort(P))


def distinct_splits(seq):
    i, j = z3.Int(sv.fresh_name("i")), z3.Int(sv.fresh_name("j"))
    n = z3.Length(seq)
    return z3.ForAll([i, j], z3.Implies(z3.And(0 <= i, i < n, 0 <= j, j < n, i != j), seq[i] != seq[j]))


class non_terminal_leaves_top(non_terminal_leaves):
    variant = "top level (no prefix)"

    def prefix_arg(self):
        return None


SPECS = [non_terminal_leaves, non_terminal_leaves_top]
