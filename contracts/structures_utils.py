"""Contracts for dds/structures_utils.py: FunctionInteractionsUtils.all_store_paths (C01 ONE-KEY, C04)."""
import z3

from .common import *
from .store_memory import m_OrderedDict_from_pairs
from pyvc.sv import TUnion
from pyvc.engine import _Raise, _PathEnd, LazyIter
from pyvc.spec import ItemsIter
import dds.structures as DS

FIN = TUn("FiNode")
NS = FIN.sort()
OPT_PATH = TOpt(PATH)
BODYELT = TUnion("ParsedBodyItem", [("b_fi", FIN, (DS.FunctionInteractions,)), ("b_other", None, (object,))])
SPATH = z3.Function("fi_store_path", NS, OPT_PATH.sort())
SIG = z3.Function("fi_fun_return_sig", NS, KEY.sort())
BODY = z3.Function("fi_parsed_body", NS, z3.SeqSort(BODYELT.sort()))
INTREE = z3.Function("fi_in_tree", NS, NS, z3.BoolSort())  # INTREE(n, m): m is n or a descendant of n
PAIR = TTup(PATH, KEY)


def kept(m):
    return z3.Not(OPT_PATH.is_none(SPATH(m)))


def path_of(m):
    return OPT_PATH.val(SPATH(m))


def child(n, i):
    return BODYELT.payload(BODY(n)[i], "b_fi").term


def is_fi(n, i):
    return BODYELT.is_tag(BODY(n)[i], "b_fi")


def in_upto(n, k, m):
    i = z3.Int(sv.fresh_name("i"))
    return z3.Or(m == n, z3.Exists([i], z3.And(0 <= i, i < k, i < z3.Length(BODY(n)), is_fi(n, i), INTREE(child(n, i), m))))


def unique(n):
    """no path is kept with two different signatures inside tree(n)"""
    a, b = z3.Const(sv.fresh_name("a"), NS), z3.Const(sv.fresh_name("b"), NS)
    return z3.ForAll([a, b], z3.Implies(z3.And(INTREE(n, a), INTREE(n, b), kept(a), kept(b), path_of(a) == path_of(b)), SIG(a) == SIG(b)))


def post(n, r):
    """contract of all_store_paths(n) = r"""
    m = z3.Const(sv.fresh_name("m"), NS)
    return [
        ("every_kept_node_has_its_path", z3.ForAll([m], z3.Implies(z3.And(INTREE(n, m), kept(m)), r.has(path_of(m))))),
        ("only_kept_paths", forall(PATH, lambda q: z3.Implies(r.has(q), z3.Exists([m], z3.And(INTREE(n, m), kept(m), path_of(m) == q, r.get(q) == SIG(m)))))),
        # ONE-KEY: the key registered for a path is the signature of the call kept there
        ("ONE-KEY", z3.ForAll([m], z3.Implies(z3.And(INTREE(n, m), kept(m)), r.get(path_of(m)) == SIG(m)))),
    ]


class PairList:
    """A list of (path, key) pairs that is only appended to / extended with the items of a dict and finally turned into
    an OrderedDict: represented exactly by  occ(p, k)  -- the pair occurs in the list --  and  lw  -- the map the list
    denotes under last-binding-wins.  No sequence reasoning is needed."""

    def __init__(self):
        self.occ = z3.K(PAIR.sort(), z3.BoolVal(False))
        self.lw = MapVal.empty(PATH, KEY, ordered=True)

    vc_extend = True

    def has_pair(self, p, k):
        return z3.Select(self.occ, PAIR.mk(p, k))

    def append(self, p, k):
        self.occ = z3.Store(self.occ, PAIR.mk(p, k), z3.BoolVal(True))
        self.lw.dom = z3.Store(self.lw.dom, p, z3.BoolVal(True))
        self.lw.val = z3.Store(self.lw.val, p, k)

    def extend_items(self, eng, d):
        """res += d.items()  (d a dict: distinct keys)"""
        o_occ, o_lw = self.occ, self.lw.snapshot()
        self.vc_havoc(eng)
        q = z3.Const(sv.fresh_name("q"), PATH.sort())
        k = z3.Const(sv.fresh_name("k"), KEY.sort())
        eng.assume(z3.ForAll([q, k], self.has_pair(q, k) == z3.Or(z3.Select(o_occ, PAIR.mk(q, k)), z3.And(d.has(q), d.get(q) == k))), heavy=True)
        eng.assume(z3.ForAll([q], self.lw.has(q) == z3.Or(o_lw.has(q), d.has(q))), heavy=True)
        eng.assume(z3.ForAll([q], z3.Implies(self.lw.has(q), self.lw.get(q) == z3.If(d.has(q), d.get(q), o_lw.get(q)))), heavy=True)

    def vc_havoc(self, eng):
        self.occ = z3.Const(sv.fresh_name("occ"), self.occ.sort())
        f = MapVal.fresh("lw", PATH, KEY, ordered=True)
        self.lw.dom, self.lw.val = f.dom, f.val

    def snapshot(self):
        o = PairList.__new__(PairList)
        o.occ, o.lw = self.occ, self.lw.snapshot()
        return o


class all_store_paths(FnSpec):
    file, qualname = "dds/structures_utils.py", "FunctionInteractionsUtils.all_store_paths"

    def __init__(self):
        super().__init__()
        self.loops[0] = LoopSpec(invariant=self.inv)
        self.globals["OrderedDict"] = Model(lambda eng, a, k, n: a[0].lw.snapshot(), "OrderedDict(list of pairs): last binding wins")
        self.globals["FunctionInteractions"] = DS.FunctionInteractions
        self.classes["FIU"] = {"all_store_paths": Model(self.ih, "IH:all_store_paths")}

    def sym_getattr(self, eng, o, attr, node):
        if o.ty == FIN:
            if attr == "store_path":
                return Sym(SPATH(o.term), OPT_PATH)
            if attr == "fun_return_sig":
                return Sym(SIG(o.term), KEY)
            if attr == "parsed_body":
                return Sym(BODY(o.term), TSeq(BODYELT))
        return NotImplemented

    def ih(self, eng, args, kwargs, node):
        """recursive call on a child: the contract itself (finite tree: A-REC); the (path -> signature) items in key order"""
        c = args[1]
        ct = BODYELT.payload(c.term, "b_fi").term if c.ty == BODYELT else c.term
        n = self.ctx.args["fi"].term
        a = z3.Const(sv.fresh_name("a"), NS)
        # helper lemma (proved here, then available): the child's subtree is part of the tree
        eng.oblige("lemma:child_subtree_in_tree", z3.ForAll([a], z3.Implies(INTREE(ct, a), INTREE(n, a))), kind="lemma", node=node)
        r = MapVal.fresh("child_paths", PATH, KEY, with_keys=True, ordered=True)
        light, heavy = r.axioms()
        for f in light:
            eng.assume(f)
        for f in heavy:
            eng.assume(f, heavy=True)
        for name, c_ in post(ct, r)[:2]:
            eng.assume(c_, heavy=True)
        # ONE-KEY of the child holds under the same hypothesis about its own subtree
        eng.assume(z3.Implies(unique(ct), post(ct, r)[2][1]), heavy=True)
        return r

    def method_other(self, eng, recv, name, args, kwargs, node):
        return NotImplemented

    def on_assign(self, eng, name, value, node):
        if name == "res" and isinstance(value, ListVal) and not value.items:
            return PairList()
        return value

    def call_method(self, eng, recv, name, args, kwargs, node):
        if isinstance(recv, PairList):
            if name == "append":
                p, k = args[0]
                recv.append(PATH.lift(p).term, KEY.lift(k).term)
                return None
            if name == "extend" and isinstance(args[0], ItemsIter):
                recv.extend_items(eng, args[0].m)
                return None
            raise OutOfSubset("operation %s on the pair list" % name)
        return super().call_method(eng, recv, name, args, kwargs, node)

    def make_args(self, eng):
        return {"cls": ObjVal("FIU"), "fi": FIN.const("fi")}

    def requires(self, ctx):
        n = ctx.args["fi"].term
        a, m = z3.Const(sv.fresh_name("a"), NS), z3.Const(sv.fresh_name("m"), NS)
        i = z3.Int(sv.fresh_name("i"))
        return [
            # definition of the tree relation
            ("tree_unfold", z3.ForAll([a, m], INTREE(a, m) == z3.Or(m == a, z3.Exists([i], z3.And(0 <= i, i < z3.Length(BODY(a)), is_fi(a, i), INTREE(child(a, i), m)))))),
        ]

    def inv(self, ctx, env, k):
        n = ctx.args["fi"].term
        res = env["res"]
        m = z3.Const(sv.fresh_name("m"), NS)
        q = z3.Const(sv.fresh_name("q"), PATH.sort())
        kk = z3.Const(sv.fresh_name("kk"), KEY.sort())
        return [
            ("pairs_come_from_kept_nodes", z3.ForAll([q, kk], z3.Implies(res.has_pair(q, kk), z3.Exists([m], z3.And(in_upto(n, k, m), kept(m), path_of(m) == q, SIG(m) == kk))))),
            ("kept_nodes_so_far_have_their_path", z3.ForAll([m], z3.Implies(z3.And(in_upto(n, k, m), kept(m)), res.lw.has(path_of(m))))),
        ] + self.extra_inv(n, k, res, m) + [
            ("last_binding_is_an_occurring_pair", z3.ForAll([q], z3.And(res.lw.has(q) == z3.Exists([kk], res.has_pair(q, kk)), z3.Implies(res.lw.has(q), res.has_pair(q, res.lw.get(q)))))),
        ]

    def extra_inv(self, n, k, res, m):
        return []

    def ensures(self, ctx):
        return post(ctx.args["fi"].term, ctx.result)[:2]


class all_store_paths_unique(all_store_paths):
    """under the hypothesis that no path is kept with two different signatures in the tree (what a caller has to
    establish): ONE-KEY -- the key registered for a path is the signature of the call kept there"""

    variant = "one signature per path"

    def requires(self, ctx):
        return super().requires(ctx) + [("one_signature_per_path", unique(ctx.args["fi"].term))]

    def extra_inv(self, n, k, res, m):
        # the pair of every kept node is in the list (nothing replaced it)
        return [("kept_nodes_so_far_have_their_pair", z3.ForAll([m], z3.Implies(z3.And(in_upto(n, k, m), kept(m)), res.has_pair(path_of(m), SIG(m)))))]

    def ih(self, eng, args, kwargs, node):
        r = super().ih(eng, args, kwargs, node)
        return r

    def ensures(self, ctx):
        return post(ctx.args["fi"].term, ctx.result)


SPECS = [all_store_paths, all_store_paths_unique]
