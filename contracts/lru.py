"""Contracts for dds/_lru_store.py (property C12, also C08 for the cache-wrapped store)."""
import z3

from .common import *
from pyvc.engine import _Raise, _PathEnd

ENTRY = TRec("Entry", obj=ANY)
OPT_ENTRY = TOpt(ENTRY)
FILE = "dds/_lru_store.py"


def lru_cache_obj(name="lru"):
    return ObjVal(
        "LRUCache",
        _cache=MapVal.named(name + "._cache", KEY, ENTRY, with_card=True, ordered=True),
        _capacity=TInt.const(name + "._capacity"),
    )


def m_Entry(eng, args, kwargs, node):
    return Sym(ENTRY.mk(obj=ANY.lift(args[0])), ENTRY)


class LRUCache_get(FnSpec):
    file, qualname = FILE, "LRUCache.get"
    result_ty = OPT_ENTRY

    def param_names(self):
        return ["self", "key"]

    def make_args(self, eng):
        return {"self": lru_cache_obj(), "key": KEY.const("key")}

    def modifies(self, ctx):
        return []  # move_to_end only changes the recency order, which the view does not contain

    def ensures(self, ctx):
        c = ctx.old["self"]._cache
        k = KEY.lift(ctx.args["key"]).term
        res = OPT_ENTRY.lift(ctx.result).term
        now = ctx.args["self"]._cache
        return [
            ("result_is_lookup", res == z3.If(c.has(k), OPT_ENTRY.some(c.get(k)), OPT_ENTRY.none())),
            ("cache_view_unchanged", z3.And(now.dom == c.dom, now.val == c.val, now.card == c.card)),
        ]


class LRUCache_put(FnSpec):
    file, qualname = FILE, "LRUCache.put"

    def __init__(self):
        super().__init__()
        self.globals["Entry"] = Model(m_Entry, "Entry")
        self.loops[0] = LoopSpec(invariant=self.inv, decreases=lambda ctx, env: env["self"]._cache.card)

    def param_names(self):
        return ["self", "key", "value"]

    def make_args(self, eng):
        return {"self": lru_cache_obj(), "key": KEY.const("key"), "value": ANY.const("value")}

    def requires(self, ctx):
        return [("capacity_nonneg", ctx.args["self"]._capacity >= 0)] if False else [("capacity_nonneg", ctx.args["self"].fields["_capacity"].term >= 0)]

    def modifies(self, ctx):
        return [ctx.args["self"]._cache]

    def _rel(self, ctx, now):
        old = ctx.old["self"]._cache
        k = KEY.lift(ctx.args["key"]).term
        e = ENTRY.mk(obj=ANY.lift(ctx.args["value"]))
        return [
            ("dom_subset", forall(KEY, lambda q: z3.Implies(now.has(q), z3.Or(old.has(q), q == k)))),
            ("values", forall(KEY, lambda q: z3.Implies(now.has(q), now.get(q) == z3.If(q == k, e, old.get(q))))),
        ]

    def inv(self, ctx, env, k):
        now = env["self"]._cache
        return self._rel(ctx, now) + [("card_nonneg", now.card >= 0)]

    def ensures(self, ctx):
        now = ctx.args["self"]._cache
        cap = ctx.args["self"].fields["_capacity"].term
        return self._rel(ctx, now) + [("bounded", now.card <= cap), ("capacity_unchanged", ctx.args["self"].fields["_capacity"].term == ctx.old["self"].fields["_capacity"].term)]


# ---------------------------------------------------------------------------------------------


# What the wrapped store answers for a blob stored as v: v itself for the memory store, decode(encode(v)) for the file stores
# (a bytearray comes back as bytes, a subclass instance as its base class ...).  Left uninterpreted: the wrapper is invisible
# only if it never answers with an object the wrapped store has not read back.
READ_BACK = z3.Function("value_the_wrapped_store_reads_back", ANY.sort(), ANY.sort())


def _st_store_blob_rb(eng, args, kwargs, node):
    st, key, blob = args[0], args[1], args[2]
    k = KEY.lift(key).term
    eng.event("store_blob", store=st, key=key, blob=blob)
    st.blobs.dom = z3.Store(st.blobs.dom, k, z3.BoolVal(True))
    st.blobs.val = z3.Store(st.blobs.val, k, READ_BACK(ANY.lift(blob).term))
    return None


def lru_store_obj():
    return ObjVal("LRUCacheStore", _store=abstract_store("inner"), _num_elem=TInt.const("num_elem"), _cache=lru_cache_obj("lru"))


def COH(selfobj):
    c = selfobj._cache._cache
    b = selfobj._store.blobs
    return forall(KEY, lambda q: z3.Implies(c.has(q), z3.And(b.has(q), ENTRY.get(c.get(q), "obj").term == b.get(q))))


def CAP(selfobj):
    return z3.And(selfobj._cache._cache.card <= selfobj._cache.fields["_capacity"].term, selfobj._cache.fields["_capacity"].term >= 0)


class _LRUStoreBase(FnSpec):
    file = FILE

    def __init__(self):
        super().__init__()
        self.classes["Store"] = dict(ABSTRACT_STORE_CLASS, store_blob=Model(_st_store_blob_rb, "Store.store_blob"))
        self.classes["LRUCache"] = {"get": LRUCache_get().as_callee(), "put": LRUCache_put().as_callee()}

    def requires(self, ctx):
        return [("COH", COH(ctx.args["self"])), ("CAP", CAP(ctx.args["self"]))]

    def inv_after(self, ctx):
        return [("COH_preserved", COH(ctx.args["self"])), ("CAP_preserved", CAP(ctx.args["self"]))]

    def store_unchanged(self, ctx):
        o, n = ctx.old["self"]._store, ctx.args["self"]._store
        return [("store_view_unchanged", z3.And(n.blobs.dom == o.blobs.dom, n.blobs.val == o.blobs.val, n.paths.dom == o.paths.dom, n.paths.val == o.paths.val))]


class LRUCacheStore_has_blob(_LRUStoreBase):
    qualname = "LRUCacheStore.has_blob"

    def make_args(self, eng):
        return {"self": lru_store_obj(), "key": KEY.const("key")}

    def ensures(self, ctx):
        b = ctx.old["self"]._store.blobs
        k = ctx.args["key"].term
        r = ctx.result
        rt = r.term if isinstance(r, Sym) else z3.BoolVal(r)
        return [("answer_equals_bare_store", rt == b.has(k))] + self.inv_after(ctx) + self.store_unchanged(ctx)


class LRUCacheStore_fetch_blob(_LRUStoreBase):
    qualname = "LRUCacheStore.fetch_blob"

    def make_args(self, eng):
        return {"self": lru_store_obj(), "key": KEY.const("key")}

    def ensures(self, ctx):
        b = ctx.old["self"]._store.blobs
        k = ctx.args["key"].term
        r = ANY.lift(ctx.result).term
        return [("answer_equals_bare_store", r == z3.If(b.has(k), b.get(k), ANY.none_term()))] + self.inv_after(ctx) + self.store_unchanged(ctx)


class LRUCacheStore_store_blob(_LRUStoreBase):
    qualname = "LRUCacheStore.store_blob"

    def make_args(self, eng):
        return {"self": lru_store_obj(), "key": KEY.const("key"), "blob": ANY.const("blob"), "codec": REF.const("codec")}

    def requires(self, ctx):
        b = ctx.args["self"]._store.blobs
        k, v = ctx.args["key"].term, ctx.args["blob"].term
        # content addressing (DESIGN 4.2): a key is only ever re-stored with the value it already denotes
        return super().requires(ctx) + [("content_addressed", z3.Or(z3.Not(b.has(k)), b.get(k) == READ_BACK(v)))]

    def ensures(self, ctx):
        o, n = ctx.old["self"]._store, ctx.args["self"]._store
        k, v = ctx.args["key"].term, ctx.args["blob"].term
        return [
            ("blobs_updated", z3.And(n.blobs.dom == z3.Store(o.blobs.dom, k, z3.BoolVal(True)), n.blobs.val == z3.Store(o.blobs.val, k, READ_BACK(v)))),
            ("paths_unchanged", z3.And(n.paths.dom == o.paths.dom, n.paths.val == o.paths.val)),
        ] + self.inv_after(ctx)


class LRUCacheStore_sync_paths(_LRUStoreBase):
    qualname = "LRUCacheStore.sync_paths"

    def make_args(self, eng):
        return {"self": lru_store_obj(), "paths": MapVal.named("m", PATH, KEY, with_keys=True, ordered=True)}

    def ensures(self, ctx):
        o, n = ctx.old["self"]._store, ctx.args["self"]._store
        return [
            ("paths_overridden", map_is_override(n.paths, o.paths, ctx.old["paths"])),
            ("blobs_unchanged", z3.And(n.blobs.dom == o.blobs.dom, n.blobs.val == o.blobs.val)),
        ] + self.inv_after(ctx)


def _faulty(model, what):
    """the wrapped store's operation may fail (I/O fault: disk full, network) and then leaves the store as it was"""

    def m(eng, args, kwargs, node):
        if eng.choose(z3.Bool(sv.fresh_name("inner_%s_fails" % what))):
            eng.event("inner_fault", what=what)
            raise _Raise(ExcVal("Exception*"))
        return model.fn(eng, args, kwargs, node) if hasattr(model, "fn") else model(eng, args, kwargs, node)

    return Model(m, "Store.%s (may fail)" % what)


class _Faulty:
    """the same operation over a wrapped store whose writes may fail: whatever happens, the cache stays coherent with the
    store (an object is cached only if the store holds it), so the wrapper never claims a blob the store lacks"""

    may_raise = True
    variant = "wrapped store may fail"

    def __init__(self):
        super().__init__()
        from .common import _st_sync_paths

        from .common import _st_fetch_blob

        cls = dict(self.classes["Store"])
        cls["store_blob"] = _faulty(_st_store_blob_rb, "store_blob")
        cls["sync_paths"] = _faulty(_st_sync_paths, "sync_paths")
        cls["fetch_blob"] = _faulty(_st_fetch_blob, "fetch_blob")  # e.g. a blob whose class is not importable yet
        self.classes["Store"] = cls

    def signals(self, ctx):
        faults = [e for e in ctx.events if e.kind == "inner_fault"]
        return [("only_the_inner_fault_propagates", len(faults) == 1)] + self.inv_after(ctx) + self.store_unchanged(ctx)


class LRUCacheStore_store_blob_faulty(_Faulty, LRUCacheStore_store_blob):
    pass


class LRUCacheStore_sync_paths_faulty(_Faulty, LRUCacheStore_sync_paths):
    pass


class LRUCacheStore_fetch_blob_faulty(_Faulty, LRUCacheStore_fetch_blob):
    pass


SPECS = [LRUCacheStore_store_blob_faulty, LRUCacheStore_sync_paths_faulty, LRUCacheStore_fetch_blob_faulty, LRUCache_get, LRUCache_put, LRUCacheStore_has_blob, LRUCacheStore_fetch_blob, LRUCacheStore_store_blob, LRUCacheStore_sync_paths]
