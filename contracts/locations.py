"""Path string -> location lemmas for LocalFileStore (C08: LOC-INJ, LOC-INSIDE) over the *segments view* of a DDS path.

A canonical absolute path is "/" + "/".join(segs) with non-empty, slash-free segments.  For such a path
  os.path.split(path) == ("/" + "/".join(segs[:-1]), segs[-1])          (A: posixpath.split, cross-checked natively)
  s.replace("/", "")   removes the slashes: head -> "".join(segs[:-1])
so the location used by sync_paths / fetch_paths is determined by the pair (concat(segs[:-1]), segs[-1]).
The lemmas are stated for lists of 1..4 segments (expanded, no quantifier over the list structure): this is exact for
that many segments and is the scope the property itself names; longer lists only add more collisions.
"""
import itertools

import z3

from pyvc.engine import Obligation

MAXSEG = 4


def _segs(prefix, n):
    return [z3.String("%s%d" % (prefix, i)) for i in range(n)]


def _wf(segs):
    return [z3.And(z3.Length(s) > 0, z3.Not(z3.Contains(s, z3.StringVal("/")))) for s in segs]


def _loc(segs):
    head = z3.StringVal("")
    for s in segs[:-1]:
        head = z3.Concat(head, s)
    return head, segs[-1]


def lemmas():
    out = []
    # LOC-INJ: different segment lists never share a location
    cases = []
    for n, m in itertools.product(range(1, MAXSEG + 1), repeat=2):
        a, b = _segs("a", n), _segs("b", m)
        differ = z3.BoolVal(True) if n != m else z3.Or(*[x != y for x, y in zip(a, b)])
        ha, ta = _loc(a)
        hb, tb = _loc(b)
        cases.append(z3.Implies(z3.And(*(_wf(a) + _wf(b)), differ), z3.Or(ha != hb, ta != tb)))
    g = z3.And(*cases)
    # the lemma has a single failure mode (equal concatenation of the directory segments): any counter-model is in that class
    out.append(Obligation("LocalFileStore.location#LOC-INJ", "lemma", 0, [], g, 0, {"classes": {"concatenation_ambiguity": z3.Not(g)}}))
    # LOC-INSIDE: no component of the location is a parent / self reference
    cases = []
    for n in range(1, MAXSEG + 1):
        a = _segs("a", n)
        h, t = _loc(a)
        cases.append(z3.Implies(z3.And(*_wf(a)), z3.And(h != z3.StringVal(".."), h != z3.StringVal("."), t != z3.StringVal(".."), t != z3.StringVal("."))))
    g = z3.And(*cases)
    out.append(Obligation("LocalFileStore.location#LOC-INSIDE", "lemma", 0, [], g, 0, {"classes": {"dot_segments": z3.Not(g)}}))
    return out
