"""Contracts for dds/fun_args.py: get_arg_ctx / get_arg_ctx_ast (C13, C02 static=runtime)."""
import inspect

import z3

from .common import *
from .pyval import *
from .hashing import code_term
from pyvc.engine import _Raise, _PathEnd
import dds.structures as DS

FILE = "dds/fun_args.py"
KIND = TEnum(inspect._ParameterKind)
K_POK = list(inspect._ParameterKind).index(inspect.Parameter.POSITIONAL_OR_KEYWORD)
K_VARKW = list(inspect._ParameterKind).index(inspect.Parameter.VAR_KEYWORD)
K_VARPOS = list(inspect._ParameterKind).index(inspect.Parameter.VAR_POSITIONAL)
# inspect.Parameter abstracted: name, kind, whether it has a default, the default value
PARAM = TRec("Param", name=TStr, kind=KIND, has_default=TBool, default=TPV)
OPT_HASH = TOpt(TStr)
ENTRY = TTup(TStr, OPT_HASH)


def pv_truthy(t):
    """Python truthiness of a value (DESIGN 2.4): this is what makes `default or "__none__"` visible"""
    return z3.And(
        z3.Not(IS["VNone"](t)),
        z3.Implies(IS["VBool"](t), ACC["VBool"][0](t)),
        z3.Implies(IS["VInt"](t), ACC["VInt"][0](t) != 0),
        z3.Implies(IS["VFloat"](t), FLOAT_NONZERO(ACC["VFloat"][0](t))),
        z3.Implies(IS["VStr"](t), z3.Length(ACC["VStr"][0](t)) > 0),
        z3.Implies(IS["VList"](t), z3.Length(ACC["VList"][0](t)) > 0),
        z3.Implies(IS["VTuple"](t), z3.Length(ACC["VTuple"][0](t)) > 0),
        z3.Implies(IS["VDict"](t), z3.Length(ACC["VDict"][0](t)) > 0),
        z3.Implies(IS["VOrdDict"](t), z3.Length(ACC["VOrdDict"][0](t)) > 0),
        z3.Implies(IS["VDate"](t), DATE_TRUTHY(ACC["VDate"][0](t))),
    )


FLOAT_NONZERO = z3.Function("float_nonzero", FB, z3.BoolSort())
DATE_TRUTHY = z3.Function("date_truthy", S, z3.BoolSort())
TPV.truthy = staticmethod(pv_truthy)


class DefaultOf:
    """the value of `p.default` (inspect.Parameter.empty when the parameter has no default)"""

    def __init__(self, p):
        self.p = p


class _CtxSpec(FnSpec):
    file = FILE
    may_raise = True

    def __init__(self):
        super().__init__()
        g = self.globals
        g["inspect"] = ObjVal("inspect")
        self.classes["inspect"] = {"signature": Model(lambda eng, a, k, n: ObjVal("Signature", parameters=ObjVal("ParamMap")), "inspect.signature")}
        self.classes["ParamMap"] = {"items": Model(lambda eng, a, k, n: ParamItems(), "parameters.items")}
        g["dds_hash"] = Model(self.m_dds_hash, "contract:dds_hash")
        g["FunctionArgContext"] = Model(lambda eng, a, k, n: ObjVal("FunctionArgContext", named_args=a[0], inner_call_key=a[1]), "FunctionArgContext")
        g["OrderedDict"] = Model(lambda eng, a, k, n: a[0], "OrderedDict")  # keeps the list of pairs (insertion order = list order, names distinct)

    def m_dds_hash(self, eng, args, kwargs, node):
        """caller view of dds_hash (verified in contracts/hashing.py)"""
        v = args[0]
        if isinstance(v, DefaultOf):
            eng.oblige("hash_of_missing_default", v.p.ty.get(v.p.term, "has_default").term, kind="safety", node=node)
            v = v.p.ty.get(v.p.term, "default")
        x = TPV.lift(v).term
        eng.assume(z3.And(*unfold(x)))
        if eng.choose(ER(x) != 0):
            raise _Raise(ExcVal(DS.DDSException, code=Sym(ER(x), TInt), ident="hash_error"))
        return Sym(SH(x), TStr)

    def sym_getattr(self, eng, o, attr, node):
        if o.ty == PARAM and attr == "default":
            return DefaultOf(o)
        return NotImplemented

    def eq_other(self, eng, a, b, node):
        for x, y in ((a, b), (b, a)):
            if isinstance(x, DefaultOf) and y is inspect.Parameter.empty:
                return z3.Not(x.p.ty.get(x.p.term, "has_default").term)
        return NotImplemented

    def eq(self, eng, a, b, node):
        if isinstance(a, DefaultOf) or isinstance(b, DefaultOf):
            return self.eq_other(eng, a, b, node)
        return super().eq(eng, a, b, node)

    def truthy(self, eng, v):
        if isinstance(v, DefaultOf):
            p = v.p
            # Parameter.empty (a class) is truthy; otherwise the default value's own truthiness
            return z3.If(p.ty.get(p.term, "has_default").term, pv_truthy(p.ty.get(p.term, "default").term), z3.BoolVal(True))
        return super().truthy(eng, v)

    def py_getattr(self, eng, o, attr, node):
        if o is inspect.Parameter and attr in ("POSITIONAL_OR_KEYWORD", "VAR_KEYWORD", "VAR_POSITIONAL", "empty"):
            return getattr(inspect.Parameter, attr)
        return NotImplemented


PARAMS = TSeq(PARAM).const("params")  # inspect.signature(f).parameters, in order


from pyvc.engine import LazyIter


class ParamItems(LazyIter):
    def concrete(self, eng):
        return None

    def length(self, eng):
        return z3.Length(PARAMS.term)

    def item(self, eng, k):
        p = Sym(PARAMS.term[k], PARAM)
        return (PARAM.get(p.term, "name"), p)


def bind(ctx, i):
    """the value Python binds to parameter i for this call (positional, else keyword, else default)"""
    args, kwargs = ctx.args["args"].term, ctx.args["kwargs"]
    p = PARAMS.term[i]
    n = PARAM.get(p, "name").term
    return z3.If(i < z3.Length(args), args[i], z3.If(kwargs.has(n), kwargs.get(n), PARAM.get(p, "default").term))


def bound(ctx, i):
    args, kwargs = ctx.args["args"].term, ctx.args["kwargs"]
    p = PARAMS.term[i]
    return z3.Or(i < z3.Length(args), kwargs.has(PARAM.get(p, "name").term), PARAM.get(p, "has_default").term)


def expected_entry(ctx, i):
    p = PARAMS.term[i]
    n = PARAM.get(p, "name").term
    is_varkw = PARAM.get(p, "kind").term == K_VARKW
    h = z3.If(z3.And(is_varkw, z3.Not(bound(ctx, i))), OPT_HASH.none(), OPT_HASH.some(SH(bind(ctx, i))))
    return ENTRY.mk(n, h)


class get_arg_ctx(_CtxSpec):
    """named_args[i] == (name_i, hash of the value Python binds to parameter i) -- the signature depends on the
    binding, not on how it was spelled (positional / keyword / explicit default)."""

    qualname = "get_arg_ctx"

    def __init__(self):
        super().__init__()
        self.loops[0] = LoopSpec(invariant=self.inv, seqvars={"args_hashes": TSeq(ENTRY)})

    def make_args(self, eng):
        return {"f": Opaque("f"), "args": TSeq(TPV).const("args"), "kwargs": MapVal.named("kwargs", TStr, TPV, with_card=True)}

    def requires(self, ctx):
        i = z3.Int(sv.fresh_name("i"))
        n = z3.Length(PARAMS.term)
        k = lambda j: PARAM.get(PARAMS.term[j], "kind").term
        return [
            ("kinds_wf", z3.ForAll([i], z3.Implies(z3.And(0 <= i, i < n), z3.And(k(i) >= 0, k(i) < 5)))),
            # positional arguments never exceed the parameters (Python itself would reject the call)
            ("no_extra_positional", z3.Length(ctx.args["args"].term) <= n),
        ]

    def inv(self, ctx, env, k):
        ah = env["args_hashes"]
        t = ah.term if isinstance(ah, SeqBox) else ah.sym().term
        j = z3.Int(sv.fresh_name("j"))
        return [
            ("length", z3.Length(t) == k),
            ("entries_hash_the_binding", z3.ForAll([j], z3.Implies(z3.And(0 <= j, j < k), t[j] == expected_entry(ctx, j)))),
        ]

    def ensures(self, ctx):
        r = ctx.result
        na = r.fields["named_args"]
        t = na.term if isinstance(na, SeqBox) else na.sym().term if hasattr(na, "sym") else na.term
        j = z3.Int(sv.fresh_name("j"))
        n = z3.Length(PARAMS.term)
        return [
            ("one_entry_per_parameter", z3.Length(t) == n),
            ("each_entry_hashes_the_binding", z3.ForAll([j], z3.Implies(z3.And(0 <= j, j < n), t[j] == expected_entry(ctx, j)))),
            ("no_inner_call_key", r.fields["inner_call_key"] is None),
        ]

    def signals(self, ctx):
        e = ctx.exc
        j = z3.Int(sv.fresh_name("j"))
        n = z3.Length(PARAMS.term)
        kind = lambda i: PARAM.get(PARAMS.term[i], "kind").term
        if e.cls is NotImplementedError:
            return [("unsupported_parameter_kind", z3.Exists([j], z3.And(0 <= j, j < n, kind(j) != K_POK, kind(j) != K_VARKW)))]
        if e.cls is DS.DDSException and e.ident == "hash_error":
            return [("coded_hash_error", True)]
        return [
            ("only_coded_dds_errors", e.cls is DS.DDSException),
            ("missing_argument", z3.Exists([j], z3.And(0 <= j, j < n, z3.Not(bound(ctx, j))))),
        ]


SPECS = [get_arg_ctx]


# -------------------------------------------------------------------------------------------------
# get_arg_ctx_ast: arguments seen as AST nodes inside an evaluated function
# -------------------------------------------------------------------------------------------------
import ast as _ast
from pyvc.sv import TUnion

# an argument expression: a literal, a unary operator applied to an expression (itself a literal or not), anything else
UOP = TUnion("AstUnaryOperator", [("u_sub", None, (_ast.USub,)), ("u_add", None, (_ast.UAdd,)), ("u_invert", None, (_ast.Invert,)), ("u_not", None, (_ast.Not,))])
OPERAND = TUnion("AstOperand", [("o_const", TPV, (_ast.Constant,)), ("o_other", None, (_ast.AST,))])
UNARY = TRec("AstUnary", op=UOP, operand=OPERAND)
NODE = TUnion("AstNode", [("n_const", TPV, (_ast.Constant,)), ("n_unary", UNARY, (_ast.UnaryOp,)), ("n_other", None, (_ast.AST,))])


def node_hash(nt):
    """a literal is hashed exactly as the run-time value it denotes; anything else is unknown statically"""
    return z3.If(NODE.is_tag(nt, "n_const"), OPT_HASH.some(SH(NODE.payload(nt, "n_const").term)), OPT_HASH.none())


def expected_entry_ast(ctx, i):
    args, kwargs = ctx.args["args"].term, ctx.args["kwargs"]
    p = PARAMS.term[i]
    n = PARAM.get(p, "name").term
    h = z3.If(
        i < z3.Length(args),
        node_hash(args[i]),
        z3.If(kwargs.has(n), node_hash(kwargs.get(n)), z3.If(PARAM.get(p, "has_default").term, OPT_HASH.some(SH(PARAM.get(p, "default").term)), OPT_HASH.none())),
    )
    return ENTRY.mk(n, h)


class get_arg_ctx_ast(_CtxSpec):
    qualname = "get_arg_ctx_ast"

    def __init__(self):
        super().__init__()
        self.loops[0] = LoopSpec(invariant=self.inv, seqvars={"args_hashes": TSeq(ENTRY)})

    def make_args(self, eng):
        return {"f": Opaque("f"), "args": TSeq(NODE).const("args"), "kwargs": MapVal.named("kwargs", TStr, NODE, with_card=True)}

    def requires(self, ctx):
        i = z3.Int(sv.fresh_name("i"))
        n = z3.Length(PARAMS.term)
        k = lambda j: PARAM.get(PARAMS.term[j], "kind").term
        return [("kinds_wf", z3.ForAll([i], z3.Implies(z3.And(0 <= i, i < n), z3.And(k(i) >= 0, k(i) < 5))))]

    def sym_getattr(self, eng, o, attr, node):
        if o.ty == NODE and attr == "value":
            eng.oblige("value_of_constant_node", NODE.is_tag(o.term, "n_const"), kind="safety:AttributeError", node=node)
            return NODE.payload(o.term, "n_const")
        if o.ty == NODE and attr in ("op", "operand"):
            eng.oblige("%s_of_unary_node" % attr, NODE.is_tag(o.term, "n_unary"), kind="safety:AttributeError", node=node)
            return UNARY.get(NODE.payload(o.term, "n_unary").term, attr)
        if o.ty == OPERAND and attr == "value":
            eng.oblige("value_of_constant_operand", OPERAND.is_tag(o.term, "o_const"), kind="safety:AttributeError", node=node)
            return OPERAND.payload(o.term, "o_const")
        return super().sym_getattr(eng, o, attr, node)

    def inv(self, ctx, env, k):
        ah = env["args_hashes"]
        t = ah.term
        j = z3.Int(sv.fresh_name("j"))
        return [
            ("length", z3.Length(t) == k),
            ("entries_hash_the_literal_binding", z3.ForAll([j], z3.Implies(z3.And(0 <= j, j < k), t[j] == expected_entry_ast(ctx, j)))),
        ]

    def ensures(self, ctx):
        r = ctx.result
        t = r.term if isinstance(r, Sym) else r.sym().term
        j = z3.Int(sv.fresh_name("j"))
        n = z3.Length(PARAMS.term)
        return [
            ("one_entry_per_parameter", z3.Length(t) == n),
            ("literal_hashed_as_its_runtime_value", z3.ForAll([j], z3.Implies(z3.And(0 <= j, j < n), t[j] == expected_entry_ast(ctx, j)))),
        ]

    def signals(self, ctx):
        e = ctx.exc
        j = z3.Int(sv.fresh_name("j"))
        n = z3.Length(PARAMS.term)
        kind = lambda i: PARAM.get(PARAMS.term[i], "kind").term
        if e.cls is NotImplementedError:
            return [("unsupported_parameter_kind", z3.Exists([j], z3.And(0 <= j, j < n, kind(j) != K_POK, kind(j) != K_VARKW, kind(j) != K_VARPOS)))]
        return [("coded_hash_error", e.cls is DS.DDSException and e.ident == "hash_error")]


class get_arg_ctx_ast_no_signature(get_arg_ctx_ast):
    """a callable whose signature cannot be read (inspect.signature raises ValueError: a class whose constructor is the one of
    a builtin type -- a subclass of dict, of an exception class): no parameter is known, and that is not an error"""

    variant = "inspect.signature raises ValueError"

    def __init__(self):
        super().__init__()
        cls = dict(self.classes["inspect"])
        cls["signature"] = Model(self.m_no_signature, "inspect.signature (no signature found)")
        self.classes["inspect"] = cls
        self.globals["OrderedDict"] = Model(lambda eng, a, k, n: a[0] if a else Sym(z3.Empty(TSeq(ENTRY).sort()), TSeq(ENTRY)), "OrderedDict")

    def m_no_signature(self, eng, args, kwargs, node):
        raise _Raise(ExcVal(ValueError))

    def ensures(self, ctx):
        r = ctx.result
        t = r.term if isinstance(r, Sym) else r.sym().term
        return [("no_entry_without_a_readable_signature", z3.Length(t) == 0)]

    def signals(self, ctx):
        return [("a_callable_without_readable_signature_is_not_an_error", False)]


SPECS = [get_arg_ctx, get_arg_ctx_ast, get_arg_ctx_ast_no_signature]
