"""Contracts for dds/store.py: MemoryStore and NoOpStore against the Store interface (DESIGN 4.2)."""
import z3

from .common import *

FILE = "dds/store.py"


def mem_obj():
    return ObjVal("MemoryStore", _cache=MapVal.named("self._cache", KEY, ANY), _paths=MapVal.named("self._paths", PATH, KEY))


def same(a, b):
    return z3.And(a.dom == b.dom, a.val == b.val)


def m_OrderedDict_from_pairs(KT, VT):
    """OrderedDict(seq of (k, v)) / dict(...): last binding of a key wins."""

    def model(eng, args, kwargs, node):
        if not args:
            return MapVal.empty(KT, VT, with_keys=True, ordered=True)
        s = args[0]
        if isinstance(s, MapVal):
            return s.snapshot()
        conc = eng.concrete_iter(s)
        if conc is not None:
            m = MapVal.empty(KT, VT, ordered=True)
            for (k, v) in conc:
                eng.setitem(m, k, v, node)
            return m
        if isinstance(s, SeqBox):
            s = s.sym()
        assert isinstance(s, Sym) and isinstance(s.ty, TSeq) and isinstance(s.ty.elt, TTup), s
        tt = s.ty.elt
        m = MapVal.fresh("od", KT, VT, ordered=True, with_keys=True)
        n = z3.Length(s.term)
        i, j = z3.Int(sv.fresh_name("i")), z3.Int(sv.fresh_name("j"))
        k = z3.Const(sv.fresh_name("k"), KT.sort())
        fst = lambda t: tt.get(t, 0)
        if isinstance(tt.elts[1], TOpt) and tt.elts[1].inner.sort() == VT.sort():
            # values typed Optional but filtered to be present (the usual `if x is not None` comprehension)
            snd = lambda t: tt.elts[1].val(tt.get(t, 1))
        else:
            snd = lambda t: tt.get(t, 1)
        eng.assume(z3.ForAll([i], z3.Implies(z3.And(0 <= i, i < n), m.has(fst(s.term[i])))), heavy=True)
        # every bound key has a last occurrence, and that occurrence gives the value (last binding wins)
        eng.assume(
            z3.ForAll(
                [k],
                z3.Implies(
                    m.has(k),
                    z3.Exists(
                        [i],
                        z3.And(
                            0 <= i,
                            i < n,
                            fst(s.term[i]) == k,
                            m.get(k) == snd(s.term[i]),
                            z3.ForAll([j], z3.Implies(z3.And(i < j, j < n), fst(s.term[j]) != k)),
                        ),
                    ),
                ),
            ),
            heavy=True,
        )
        return m

    return Model(model, "OrderedDict")


class _Mem(FnSpec):
    file = FILE

    def views(self, ctx):
        return ctx.old["self"], ctx.args["self"]

    def unchanged(self, ctx):
        o, n = self.views(ctx)
        return [("view_unchanged", z3.And(same(n._cache, o._cache), same(n._paths, o._paths)))]


class MemoryStore_has_blob(_Mem):
    qualname = "MemoryStore.has_blob"

    def __init__(self):
        super().__init__()
        # a sibling method called on self is checked against its contract (modular), not its body
        self.classes["MemoryStore"] = {"fetch_blob": MemoryStore_fetch_blob().as_callee()}

    def make_args(self, eng):
        return {"self": mem_obj(), "key": KEY.const("key")}

    def ensures(self, ctx):
        o, n = self.views(ctx)
        r = ctx.result
        return [("result_is_presence", r.term == o._cache.has(ctx.args["key"].term))] + self.unchanged(ctx)


class MemoryStore_fetch_blob(_Mem):
    qualname = "MemoryStore.fetch_blob"
    result_ty = ANY

    def param_names(self):
        return ["self", "key"]

    def modifies(self, ctx):
        return []

    def make_args(self, eng):
        return {"self": mem_obj(), "key": KEY.const("key")}

    def ensures(self, ctx):
        o, n = self.views(ctx)
        k = ctx.args["key"].term
        return [("result_is_blob_or_None", ANY.lift(ctx.result).term == z3.If(o._cache.has(k), o._cache.get(k), ANY.none_term()))] + self.unchanged(ctx)


class MemoryStore_store_blob(_Mem):
    qualname = "MemoryStore.store_blob"

    def make_args(self, eng):
        return {"self": mem_obj(), "key": KEY.const("key"), "blob": ANY.const("blob"), "codec": REF.const("codec")}

    def ensures(self, ctx):
        o, n = self.views(ctx)
        k, b = ctx.args["key"].term, ctx.args["blob"].term
        return [
            ("blobs_is_update", z3.And(n._cache.dom == z3.Store(o._cache.dom, k, z3.BoolVal(True)), n._cache.val == z3.Store(o._cache.val, k, b))),
            ("paths_unchanged", same(n._paths, o._paths)),
        ]


class MemoryStore_sync_paths(_Mem):
    qualname = "MemoryStore.sync_paths"

    def __init__(self):
        super().__init__()
        self.loops[0] = LoopSpec(invariant=self.inv)

    def make_args(self, eng):
        return {"self": mem_obj(), "paths": MapVal.named("m", PATH, KEY, with_keys=True, ordered=True)}

    def inv(self, ctx, env, k):
        o = ctx.old["self"]._paths
        n = env["self"]._paths
        m = ctx.old["paths"]
        j = z3.Int(sv.fresh_name("j"))

        def seen(q):
            return z3.Exists([j], z3.And(0 <= j, j < k, m.keys[j] == q))

        return [
            ("dom", forall(PATH, lambda q: n.has(q) == z3.Or(o.has(q), seen(q)))),
            ("val_new", forall(PATH, lambda q: z3.Implies(seen(q), n.get(q) == m.get(q)))),
            ("val_old", forall(PATH, lambda q: z3.Implies(z3.And(z3.Not(seen(q)), o.has(q)), n.get(q) == o.get(q)))),
            ("blobs_frame", same(env["self"]._cache, ctx.old["self"]._cache)),
        ]

    def ensures(self, ctx):
        o, n = self.views(ctx)
        return [("paths_is_override", map_is_override(n._paths, o._paths, ctx.old["paths"])), ("blobs_unchanged", same(n._cache, o._cache))]


class MemoryStore_fetch_paths(_Mem):
    qualname = "MemoryStore.fetch_paths"
    may_raise = True

    def __init__(self):
        super().__init__()
        self.globals["OrderedDict"] = m_OrderedDict_from_pairs(PATH, KEY)

    def make_args(self, eng):
        return {"self": mem_obj(), "paths": TSeq(PATH).const("paths")}

    def _all_present(self, ctx):
        l = ctx.args["paths"].term
        i = z3.Int(sv.fresh_name("i"))
        return z3.ForAll([i], z3.Implies(z3.And(0 <= i, i < z3.Length(l)), ctx.old["self"]._paths.has(l[i])))

    def ensures(self, ctx):
        l = ctx.args["paths"].term
        r = ctx.result
        sp = ctx.old["self"]._paths
        i = z3.Int(sv.fresh_name("i"))
        return [
            ("all_requested_present", self._all_present(ctx)),
            ("result_dom", forall(PATH, lambda q: r.has(q) == z3.Exists([i], z3.And(0 <= i, i < z3.Length(l), l[i] == q)))),
            ("result_val", forall(PATH, lambda q: z3.Implies(r.has(q), r.get(q) == sp.get(q)))),
        ] + self.unchanged(ctx)

    def signals(self, ctx):
        import dds.structures as S

        e = ctx.exc
        return [("is_DDSException", e.cls is S.DDSException), ("only_when_some_path_missing", z3.Not(self._all_present(ctx)))] + self.unchanged(ctx)


SPECS = [MemoryStore_has_blob, MemoryStore_fetch_blob, MemoryStore_store_blob, MemoryStore_sync_paths, MemoryStore_fetch_paths]
