"""Contracts for the load / store pre-pass helpers (C09): FunctionIndirectInteractionUtils.all_loads.rec / all_stores.rec,
and dds.load while an evaluation is running."""
import z3

from .common import *
from .api import _ApiSpec, store_obj, OPT_PATH, count, _Create, INV
from pyvc.sv import TUnion
from pyvc.engine import _Raise, _PathEnd
from pyvc.spec import havoc
import dds.structures as DS

NODE = TUn("FiiNode")
N = NODE.sort()
DEP = TUnion("IndirectDep", [("d_path", PATH, (str,)), ("d_node", NODE, (DS.FunctionIndirectInteractions,))])
DEPS = z3.Function("fii_indirect_deps", N, z3.SeqSort(DEP.sort()))
SPATH = z3.Function("fii_store_path", N, OPT_PATH.sort())
ID = z3.Function("python_id", N, z3.IntSort())


def direct_loads(n, q):
    i = z3.Int(sv.fresh_name("i"))
    d = DEPS(n)
    return z3.Exists([i], z3.And(0 <= i, i < z3.Length(d), DEP.is_tag(d[i], "d_path"), DEP.payload(d[i], "d_path").term == q))


def is_child(n, c):
    i = z3.Int(sv.fresh_name("i"))
    d = DEPS(n)
    return z3.Exists([i], z3.And(0 <= i, i < z3.Length(d), DEP.is_tag(d[i], "d_node"), DEP.payload(d[i], "d_node").term == c))


class _Rec(FnSpec):
    """one visit of the DAG traversal: a node already visited is skipped; otherwise it is marked, its own loads / store
    path are collected and every child is visited.  (The closure of these local facts over the DAG is the reachable set.)"""

    file = "dds/structures_utils.py"
    collects = "loads"

    def __init__(self):
        super().__init__()
        self.loops[0] = LoopSpec(invariant=self.inv)
        self.globals["id"] = Model(lambda eng, a, k, n: Sym(ID(a[0].term), TInt), "id")
        self.globals["DDSPath"] = Model(lambda eng, a, k, n: DEP.payload(a[0].term, "d_path") if isinstance(a[0], Sym) and a[0].ty == DEP else a[0], "DDSPath")
        self.globals["FunctionIndirectInteractions"] = DS.FunctionIndirectInteractions

    def sym_getattr(self, eng, o, attr, node):
        if o.ty == NODE and attr == "indirect_deps":
            return Sym(DEPS(o.term), TSeq(DEP))
        if o.ty == NODE and attr == "store_path":
            return Sym(SPATH(o.term), OPT_PATH)
        return NotImplemented

    def make_args(self, eng):
        env = {"fis0": NODE.const("fis0"), "fis": NODE.const("root_fis"), "res": MapVal.named("res", PATH, None), "visited": MapVal.named("visited", TInt, None)}
        env["rec"] = Model(self.ih, "IH:rec")
        return env

    def ih(self, eng, args, kwargs, node):
        """recursive call on a child: the contract itself (the DAG is finite: A-REC)"""
        c = DEP.payload(args[0].term, "d_node").term if args[0].ty == DEP else args[0].term
        res, vis = eng.frames[-1].env["res"], eng.frames[-1].env["visited"]
        eng.event("rec", node=c)
        o_res, o_vis = res.snapshot(), vis.snapshot()
        was = o_vis.has(ID(c))
        havoc(eng, res)
        havoc(eng, vis)
        eng.assume(forall(PATH, lambda q: z3.Implies(o_res.has(q), res.has(q))), heavy=True)
        eng.assume(forall(TInt, lambda i: z3.Implies(o_vis.has(i), vis.has(i))), heavy=True)
        eng.assume(vis.has(ID(c)))
        eng.assume(z3.Implies(was, z3.And(res.dom == o_res.dom, vis.dom == o_vis.dom)))
        eng.assume(z3.Implies(z3.Not(was), self.own(c, res)), heavy=True)
        return None

    def own(self, n, res):
        if self.collects == "loads":
            return forall(PATH, lambda q: z3.Implies(direct_loads(n, q), res.has(q)))
        sp = SPATH(n)
        return z3.Implies(z3.Not(OPT_PATH.is_none(sp)), res.has(OPT_PATH.val(sp)))

    def method_other(self, eng, recv, name, args, kwargs, node):
        if isinstance(recv, MapVal) and recv.vty is None and name == "update":
            s = args[0]
            t = s.term if isinstance(s, Sym) else s.sym().term
            old = recv.snapshot()
            havoc(eng, recv)
            i = z3.Int(sv.fresh_name("i"))
            eng.assume(forall(recv.kty, lambda q: recv.has(q) == z3.Or(old.has(q), z3.Exists([i], z3.And(0 <= i, i < z3.Length(t), t[i] == q)))), heavy=True)
            return None
        return NotImplemented

    def call_method(self, eng, recv, name, args, kwargs, node):
        if isinstance(recv, MapVal) and recv.vty is None and name == "update":
            return self.method_other(eng, recv, name, args, kwargs, node)
        return super().call_method(eng, recv, name, args, kwargs, node)

    def eq_other(self, eng, a, b, node):
        return NotImplemented

    def inv(self, ctx, env, k):
        res, vis = env["res"], env["visited"]
        n = ctx.args["fis0"].term
        o_res, o_vis = ctx.old["res"], ctx.old["visited"]
        d = DEPS(n)
        j = z3.Int(sv.fresh_name("j"))
        return [
            ("marked", vis.has(ID(n))),
            ("own_items_collected", self.own(n, res)),
            ("monotone", z3.And(forall(PATH, lambda q: z3.Implies(o_res.has(q), res.has(q))), forall(TInt, lambda i: z3.Implies(o_vis.has(i), vis.has(i))))),
            ("children_so_far_visited", z3.ForAll([j], z3.Implies(z3.And(0 <= j, j < k, DEP.is_tag(d[j], "d_node")), vis.has(ID(DEP.payload(d[j], "d_node").term))))),
        ]

    def ensures(self, ctx):
        res, vis = ctx.args["res"], ctx.args["visited"]
        n = ctx.args["fis0"].term
        o_res, o_vis = ctx.old["res"], ctx.old["visited"]
        was = o_vis.has(ID(n))
        c = z3.Const(sv.fresh_name("c"), N)
        return [
            ("visited_node_is_skipped", z3.Implies(was, z3.And(res.dom == o_res.dom, vis.dom == o_vis.dom))),
            ("new_node_is_marked", z3.Implies(z3.Not(was), vis.has(ID(n)))),
            ("new_node_contributes_its_own_items", z3.Implies(z3.Not(was), self.own(n, res))),
            ("every_child_of_a_new_node_is_visited", z3.Implies(z3.Not(was), z3.ForAll([c], z3.Implies(is_child(n, c), vis.has(ID(c)))))),
            ("nothing_is_forgotten", z3.And(forall(PATH, lambda q: z3.Implies(o_res.has(q), res.has(q))), forall(TInt, lambda i: z3.Implies(o_vis.has(i), vis.has(i))))),
        ]


class all_loads_rec(_Rec):
    qualname = "FunctionIndirectInteractionUtils.all_loads.rec"
    collects = "loads"


class all_stores_rec(_Rec):
    qualname = "FunctionIndirectInteractionUtils.all_stores.rec"
    collects = "stores"

    def method_other(self, eng, recv, name, args, kwargs, node):
        return super().method_other(eng, recv, name, args, kwargs, node)


# -------------------------------------------------------------------------------------------------
# dds.load while an evaluation is running
# -------------------------------------------------------------------------------------------------


class load_in_evaluation(_ApiSpec):
    """dds.load(p) inside an evaluation that keeps p: the value kept at p *by this evaluation* (through the evaluation's own
    path map), never the previously committed content; a DDS error if the producer has not run yet."""

    qualname = "load"
    variant = "evaluation running, path kept by it"
    may_raise = True

    def __init__(self):
        super().__init__()
        self.globals["DDSPathUtils"] = ObjVal("DDSPathUtils")
        self.classes["DDSPathUtils"] = {"create": Model(lambda eng, a, k, n: _Create.model(eng, a[1:], k, n), "create")}

    def make_globals(self, eng):
        ctx_obj = ObjVal("EvalContext", requested_paths=MapVal.named("requested_paths", PATH, KEY), stats_time=Opaque("stats_time"))
        return {"_eval_ctx": ctx_obj, "__store__": store_obj()}

    def make_args(self, eng):
        return {"path": Opaque("user path")}

    def requires(self, ctx):
        rp = ctx.globals["_eval_ctx"].requested_paths
        return [("path_is_kept_by_this_evaluation", rp.has(PATH.const("created_path").term))]

    def ensures(self, ctx):
        st0 = ctx.old_globals["__store__"]
        rp = ctx.old_globals["_eval_ctx"].requested_paths
        p = PATH.const("created_path").term
        k = rp.get(p)
        res = ANY.lift(ctx.result).term
        return [
            ("producer_has_run", st0.blobs.has(k)),
            ("serves_the_value_kept_by_this_evaluation", res == st0.blobs.get(k)),
            ("read_only", count(ctx.events, "store_blob") == 0 and count(ctx.events, "sync_paths") == 0 and count(ctx.events, "user_call") == 0),
        ]

    def signals(self, ctx):
        st0 = ctx.old_globals["__store__"]
        rp = ctx.old_globals["_eval_ctx"].requested_paths
        p = PATH.const("created_path").term
        e = ctx.exc
        rejected = count(ctx.events, "has_blob") + count(ctx.events, "fetch_blob") + count(ctx.events, "fetch_paths") == 0
        return [("only_coded_dds_errors", e.cls is DS.DDSException), ("only_if_read_before_produced_or_invalid_path", True if rejected else z3.Not(st0.blobs.has(rp.get(p))))]


SPECS = [all_loads_rec, all_stores_rec, load_in_evaluation]
