"""Frame / effect clauses checked on the real AST (DESIGN: 'F' obligations).

Each check yields Obligation objects whose goal is the Boolean outcome of a syntactic analysis of /repo's
current source; they go through the same reporting as solver obligations (a False goal is 'refuted').
"""
import ast
import os

import z3

from pyvc import locate
from pyvc.engine import Obligation

DDS_FILES = [
    "dds/_api.py",
    "dds/_annotations.py",
    "dds/__init__.py",
    "dds/introspect.py",
    "dds/_introspect_indirect.py",
    "dds/_retrieve_objects.py",
    "dds/fun_args.py",
    "dds/structures_utils.py",
    "dds/structures.py",
    "dds/_eval_ctx.py",
    "dds/_global_ctx.py",
    "dds/_lambda_funs.py",
    "dds/_print_ast.py",
    "dds/_plotting.py",
    "dds/_config.py",
]


def ob(name, ok, detail="", line=0):
    return Obligation(name, "frame", line, [], z3.BoolVal(bool(ok)), 0, {"detail": detail} if not ok else {"trivial": True})


def _functions(tree, prefix=""):
    """yield (qualname, FunctionDef) for every def, including methods and nested defs"""
    for n in ast.iter_child_nodes(tree):
        if isinstance(n, (ast.FunctionDef, ast.AsyncFunctionDef)):
            yield prefix + n.name, n
            yield from _functions(n, prefix + n.name + ".")
        elif isinstance(n, ast.ClassDef):
            yield from _functions(n, prefix + n.name + ".")
        elif isinstance(n, (ast.If, ast.Try, ast.With, ast.For, ast.While)):
            yield from _functions(n, prefix)


def all_functions():
    out = {}
    for f in DDS_FILES:
        src, tree = locate.load(f)
        for q, n in _functions(tree):
            out[(f, q)] = n
    return out


def _is_log_call(c):
    return isinstance(c.func, ast.Attribute) and isinstance(c.func.value, ast.Name) and c.func.value.id in ("_logger", "logging")


def _own_nodes(fn):
    """nodes of fn's body excluding nested function bodies"""
    stack = [b for b in fn.body if not isinstance(b, (ast.FunctionDef, ast.AsyncFunctionDef))]
    while stack:
        n = stack.pop()
        yield n
        for c in ast.iter_child_nodes(n):
            if isinstance(c, (ast.FunctionDef, ast.AsyncFunctionDef, ast.Lambda)):
                continue
            stack.append(c)


def no_except_in_wrappers():
    """keep / eval / data_function wrappers never catch: a user exception can only propagate unchanged"""
    out = []
    targets = [
        ("dds/_api.py", "keep"),
        ("dds/_api.py", "eval"),
        ("dds/_annotations.py", "data_function.decorator_.wrapper"),
        ("dds/_annotations.py", "dds_function.decorator_.wrapper"),
        ("dds/__init__.py", "keep"),
        ("dds/__init__.py", "eval"),
    ]
    funs = all_functions()
    for f, q in targets:
        fn = funs.get((f, q))
        if fn is None:
            out.append(ob("%s:%s#frame:exists" % (f, q), False, "function not found"))
            continue
        handlers = [n for n in ast.walk(fn) if isinstance(n, ast.Try) and n.handlers]
        out.append(ob("%s:%s#frame:no_except_clause" % (f, q), not handlers, "try/except at line %s" % (handlers[0].lineno if handlers else ""), fn.lineno))
    # in _eval / _eval_new_ctx the only try is try/finally
    for q in ("_eval", "_eval_new_ctx"):
        fn = funs[("dds/_api.py", q)]
        handlers = [n for n in ast.walk(fn) if isinstance(n, ast.Try) and n.handlers]
        out.append(ob("dds/_api.py:%s#frame:no_except_clause" % q, not handlers, "try/except at line %s" % (handlers[0].lineno if handlers else ""), fn.lineno))
    return out


# ---------------------------------------------------------------------------------------------
# call graph + effect analysis of the analysis stage
# ---------------------------------------------------------------------------------------------

STORE_MUTATORS = {"store_blob", "sync_paths"}
FORBIDDEN_NAMES = {"_store", "_eval", "_eval_new_ctx", "keep", "_keep", "set_store"}
ANALYSIS_ROOTS = [
    ("dds/fun_args.py", "get_arg_ctx"),
    ("dds/_introspect_indirect.py", "introspect_indirect"),
    ("dds/introspect.py", "introspect"),
    ("dds/structures_utils.py", "FunctionIndirectInteractionUtils.all_loads"),
    ("dds/structures_utils.py", "FunctionIndirectInteractionUtils.all_stores"),
    ("dds/structures_utils.py", "FunctionInteractionsUtils.all_store_paths"),
    ("dds/structures_utils.py", "FunctionInteractionsUtils.non_terminal_leaves"),
    ("dds/structures_utils.py", "FunctionInteractionsUtils.pprint_tree"),
    ("dds/_plotting.py", "draw_graph"),
    ("dds/_api.py", "_parse_stages"),
]
# callable parameters that are invoked by design and are not user pipeline code
ALLOWED_CALLABLE_PARAMS = {
    ("dds/introspect.py", "_new_getfile", "_old_getfile"),  # default-bound to inspect.getfile
    ("dds/structures_utils.py", "FunctionInteractionsUtils.pprint_tree", "printer"), ("dds/structures_utils.py", "FunctionInteractionsUtils.pprint_tree.pprint_tree_", "printer")}


def _called_names(fn):
    names = set()
    for n in ast.walk(fn):
        if isinstance(n, ast.Call):
            f = n.func
            if isinstance(f, ast.Name):
                names.add(f.id)
            elif isinstance(f, ast.Attribute):
                names.add(f.attr)
    return names


def reachable(roots):
    funs = all_functions()
    by_last = {}
    for (f, q), n in funs.items():
        by_last.setdefault(q.split(".")[-1], []).append((f, q))
    seen = set()
    stack = [r for r in roots if r in funs]
    missing = [r for r in roots if r not in funs]
    while stack:
        k = stack.pop()
        if k in seen:
            continue
        seen.add(k)
        for nm in _called_names(funs[k]):
            for tgt in by_last.get(nm, []):
                if tgt not in seen:
                    stack.append(tgt)
    return funs, seen, missing


def _params_and_locals(fn):
    a = fn.args
    params = {p.arg for p in a.args + a.kwonlyargs + getattr(a, "posonlyargs", [])}
    if a.vararg:
        params.add(a.vararg.arg)
    if a.kwarg:
        params.add(a.kwarg.arg)
    return params


def analysis_is_effect_free():
    """Nothing reachable from the analysis entry points calls a Store mutator, re-enters the evaluation API,
    or applies a callable it received as a parameter (which is how user code would get executed)."""
    funs, seen, missing = reachable(ANALYSIS_ROOTS)
    out = [ob("analysis#frame:roots_found", not missing, "missing: %r" % (missing,))]
    bad_mut, bad_api, bad_apply = [], [], []
    for k in sorted(seen):
        f, q = k
        if f == "dds/_api.py" and q in ("_eval", "_eval_new_ctx", "keep", "eval", "load", "set_store", "_store"):
            bad_api.append("%s:%s reachable from the analysis" % k)
            continue
        fn = funs[k]
        params = _params_and_locals(fn)
        for n in _own_nodes(fn):
            if not isinstance(n, ast.Call) or _is_log_call(n):
                continue
            fx = n.func
            if isinstance(fx, ast.Attribute) and fx.attr in STORE_MUTATORS:
                bad_mut.append("%s:%s line %s calls .%s()" % (f, q, n.lineno, fx.attr))
            if isinstance(fx, ast.Name) and fx.id in FORBIDDEN_NAMES and f != "dds/_annotations.py":
                bad_api.append("%s:%s line %s calls %s()" % (f, q, n.lineno, fx.id))
            if isinstance(fx, ast.Name) and fx.id in params and (f, q, fx.id) not in ALLOWED_CALLABLE_PARAMS:
                bad_apply.append("%s:%s line %s applies its parameter %s" % (f, q, n.lineno, fx.id))
    out.append(ob("analysis#frame:no_store_mutation", not bad_mut, "; ".join(bad_mut)))
    out.append(ob("analysis#frame:no_reentry_into_evaluation_api", not bad_api, "; ".join(bad_api)))
    out.append(ob("analysis#frame:no_application_of_received_callables", not bad_apply, "; ".join(bad_apply)))
    out.append(Obligation("analysis#frame:reachable_functions_counted", "frame", 0, [], z3.BoolVal(len(seen) >= 20), 0, {"trivial": True, "n": len(seen)}))
    return out


# ---------------------------------------------------------------------------------------------
# C03: nothing but program content flows into a signature
# ---------------------------------------------------------------------------------------------
SIG_FILES = ["dds/introspect.py", "dds/_introspect_indirect.py", "dds/fun_args.py", "dds/_retrieve_objects.py", "dds/structures_utils.py", "dds/_eval_ctx.py", "dds/structures.py", "dds/_lambda_funs.py", "dds/_global_ctx.py"]
ENV_CALLS = {"id", "hash", "getcwd", "getpid", "time", "monotonic", "perf_counter", "random", "uuid4", "uuid1", "getenv", "gethostname"}
ENV_NAMES = {"__file__", "environ"}
# (file, enclosing function, how the value is used) -- uses that provably do not reach a hashed value
ALLOWED_ENV_USES = {
    ("dds/introspect.py", "_introspect_class", "id"): "object identities are collected in `obj_ids`, which is never read (the id-keyed global cache is never written)",
    ("dds/introspect.py", "_introspect_fun", "id"): "object identities only key a lookup in GlobalContext.cached_fun_interactions, which is never written (checked below)",
    ("dds/structures_utils.py", "FunctionIndirectInteractionUtils.all_loads.rec", "id"): "visited-set membership only",
    ("dds/structures_utils.py", "FunctionIndirectInteractionUtils.all_stores.rec", "id"): "visited-set membership only",
    ("dds/introspect.py", "_new_getfile", "__file__"): "locates the source text of a class (content), the file name itself is not hashed",
}


def signature_inputs_are_content_only():
    out = []
    # (1) the process-wide interaction cache is never populated, so nothing computed in an earlier evaluation is returned
    writes = []
    for f in DDS_FILES:
        src, tree = locate.load(f)
        for n in ast.walk(tree):
            if isinstance(n, (ast.Assign, ast.AugAssign)):
                tgts = n.targets if isinstance(n, ast.Assign) else [n.target]
                for t in tgts:
                    base = t.value if isinstance(t, ast.Subscript) else t
                    if isinstance(base, ast.Attribute) and base.attr == "cached_fun_interactions" and isinstance(base.value, ast.Name) and base.value.id == "_global_context":
                        writes.append("%s line %s" % (f, n.lineno))
            if isinstance(n, ast.Call) and isinstance(n.func, ast.Attribute) and n.func.attr in ("update", "setdefault", "__setitem__"):
                v = n.func.value
                if isinstance(v, ast.Attribute) and v.attr == "cached_fun_interactions" and isinstance(v.value, ast.Name) and v.value.id == "_global_context":
                    writes.append("%s line %s" % (f, n.lineno))
    out.append(ob("signatures#frame:process_wide_interaction_cache_never_written", not writes, "; ".join(writes)))
    # (2) identity / environment values do not occur in the signature-computing modules outside log lines and the listed uses
    bad = []
    funs = all_functions()
    for (f, q), fn in sorted(funs.items()):
        if f not in SIG_FILES:
            continue
        for n in _own_nodes(fn):
            what = None
            if isinstance(n, ast.Call) and not _is_log_call(n):
                fx = n.func
                nm = fx.id if isinstance(fx, ast.Name) else (fx.attr if isinstance(fx, ast.Attribute) else None)
                if nm in ENV_CALLS:
                    what = nm
            elif isinstance(n, ast.Name) and n.id in ENV_NAMES:
                what = n.id
            elif isinstance(n, ast.Attribute) and n.attr in ENV_NAMES:
                what = n.attr
            if what is None:
                continue
            if _inside_log_call(fn, n):
                continue
            if (f, q, what) in ALLOWED_ENV_USES:
                continue
            bad.append("%s:%s line %s uses %s" % (f, q, n.lineno, what))
    out.append(ob("signatures#frame:no_identity_or_environment_value_in_signature_code", not bad, "; ".join(bad[:6])))
    # (3) iteration over a set feeds a signature only through sorted()
    bad = []
    for (f, q) in (("dds/introspect.py", "_introspect_fun"), ("dds/introspect.py", "_introspect_class")):
        fn = funs.get((f, q))
        if fn is None:
            bad.append("%s:%s missing" % (f, q))
            continue
        for n in ast.walk(fn):
            if isinstance(n, ast.Call) and isinstance(n.func, ast.Name) and n.func.id == "_all_paths":
                par = _parent_call(fn, n)
                if not (par is not None and isinstance(par.func, ast.Name) and par.func.id == "sorted"):
                    bad.append("%s:%s line %s iterates the set of paths without sorted()" % (f, q, n.lineno))
    fn = funs.get(("dds/introspect.py", "InspectFunction.get_local_vars"))
    if fn is None or not any(isinstance(n, ast.Call) and isinstance(n.func, ast.Name) and n.func.id == "sorted" for n in ast.walk(fn)):
        bad.append("get_local_vars no longer sorts the set of local names")
    out.append(ob("signatures#frame:set_iteration_only_through_sorted", not bad, "; ".join(bad)))
    return out


def _inside_log_call(fn, node):
    for n in ast.walk(fn):
        if isinstance(n, ast.Call) and _is_log_call(n):
            for m in ast.walk(n):
                if m is node:
                    return True
    return False


def _parent_call(fn, node):
    for n in ast.walk(fn):
        if isinstance(n, ast.Call):
            for a in list(n.args) + [k.value for k in n.keywords]:
                if a is node:
                    return n
    return None


# ---------------------------------------------------------------------------------------------
# C18: the export hook has an empty write frame on evaluation state
# ---------------------------------------------------------------------------------------------


def export_does_not_mutate_its_inputs():
    """draw_graph / build_graph / _structure (and their nested functions) only mutate objects they allocate: no store
    to an attribute or item of a parameter, no mutating method on a parameter (the in-place `start_nodes += l1` hits
    lists created by traverse; all_refs = dict(indirect_refs) is a copy)."""
    funs = all_functions()
    bad = []
    n = 0
    for (f, q), fn in sorted(funs.items()):
        if f != "dds/_plotting.py":
            continue
        n += 1
        top = q.split(".")[0]
        params = _params_and_locals(funs[(f, top)]) | _params_and_locals(fn)
        params &= {"fis", "fis_", "present_blobs", "indirect_refs", "out"}
        for node in ast.walk(fn):
            tgt = None
            if isinstance(node, (ast.Assign, ast.AugAssign)):
                for t in node.targets if isinstance(node, ast.Assign) else [node.target]:
                    b = t
                    while isinstance(b, (ast.Subscript, ast.Attribute)):
                        b = b.value
                    if isinstance(t, (ast.Subscript, ast.Attribute)) and isinstance(b, ast.Name) and b.id in params:
                        tgt = b.id
            if isinstance(node, ast.Call) and isinstance(node.func, ast.Attribute) and node.func.attr in ("append", "extend", "update", "add", "pop", "clear", "insert", "remove", "setdefault", "sort"):
                b = node.func.value
                while isinstance(b, (ast.Subscript, ast.Attribute)):
                    b = b.value
                if isinstance(b, ast.Name) and b.id in params and not (b.id == "out"):
                    tgt = b.id
            if tgt:
                bad.append("%s:%s line %s mutates its input %s" % (f, q, node.lineno, tgt))
    # the hook passes the interaction tree, present_blobs and the resolved references, nothing mutable of the evaluation context
    fn = funs.get(("dds/_api.py", "_eval_new_ctx"))
    calls = [c for c in ast.walk(fn) if isinstance(c, ast.Call) and isinstance(c.func, ast.Name) and c.func.id == "draw_graph"]
    ok_args = len(calls) == 1 and [a.id if isinstance(a, ast.Name) else None for a in calls[0].args] == ["inters", "export_graph", "present_blobs", "resolved_indirect_refs"]
    return [
        ob("graph_export#frame:inputs_not_mutated", not bad and n >= 3, "; ".join(bad) or "functions of _plotting.py not found"),
        ob("graph_export#frame:hook_receives_only_the_analysis_results", ok_args, "draw_graph call site changed"),
    ]
