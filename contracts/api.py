"""Contracts for dds/_api.py: _eval, _eval_new_ctx, keep, eval, load (C01, C02, C04, C09, C10, C11, C15).

Ghost vocabulary
  APP            the value `fun(*args, **kwargs)` returns (user functions are deterministic: A-DET)
  VALUE_OF(k)    the value of the computation a signature k denotes
  INV(blobs)     store invariant (DESIGN 4.2): every stored blob equals VALUE_OF(its key)
  events         effect trace of the path: user_call, has_blob, fetch_blob, store_blob, sync_paths, fetch_paths,
                 analysis:<name>, export_graph
"""
import z3

from .common import *
from pyvc.engine import _Raise, _PathEnd
import dds.structures as S

FILE = "dds/_api.py"
PS = S.ProcessingStage
PHASES = PS.all_phases()
APP_SYM = ANY.const("APP_fun_args_kwargs")
APP = APP_SYM.term
VALUE_OF = z3.Function("VALUE_OF", KEY.sort(), ANY.sort())
OVERLAP = z3.Function("has_prefix_overlap", z3.SeqSort(PATH.sort()), z3.BoolSort())
OPT_PATH = TOpt(PATH)


def INV(blobs):
    return forall(KEY, lambda k: z3.Implies(blobs.has(k), blobs.get(k) == VALUE_OF(k)))


class StagesPrefix:
    """the value of `stages`: the first n phases of the stage order (post-condition of _parse_stages)"""

    def __init__(self, n):
        self.n = n


def store_obj():
    return abstract_store("store")


def user_fn():
    return ObjVal("UserFn", __module__=Opaque("fun.__module__"))


def kinds(events):
    return [e.kind for e in events]


def count(events, kind):
    return sum(1 for e in events if e.kind == kind)


MUTATORS = ("store_blob", "sync_paths")


class _ApiSpec(FnSpec):
    file = FILE

    def __init__(self):
        super().__init__()
        self.classes["Store"] = dict(ABSTRACT_STORE_CLASS)
        self.classes["Store"]["fetch_paths"] = Model(self.m_fetch_paths, "Store.fetch_paths")
        self.classes["EvalContext"] = {"_replace": Model(self.m_replace, "_replace")}
        self.classes["FunctionInteractions"] = {"_replace": Model(self.m_replace, "_replace")}
        g = self.globals
        g["_store"] = Model(lambda eng, a, k, n: eng.st.globals["__store__"], "_store")
        g["_time"] = Model(lambda eng, a, k, n: Opaque("time"), "_time")
        g["_add_delta"] = Model(lambda eng, a, k, n: None, "_add_delta")
        g["get_option"] = Model(lambda eng, a, k, n: Sym(z3.Bool("option_extra_debug"), TBool), "get_option")
        g["pathlib"] = Opaque("pathlib")
        g["OrderedDict"] = Model(self.m_ordered_dict, "OrderedDict")
        g["sum"] = Model(lambda eng, a, k, n: Opaque("sum"), "sum")
        g["dict"] = Model(lambda eng, a, k, n: Opaque("dict"), "dict")
        g["set"] = Model(lambda eng, a, k, n: Opaque("set"), "set")
        g["sorted"] = Model(self.m_sorted, "sorted")

    # ---- models -----------------------------------------------------------------------
    def m_replace(self, eng, args, kwargs, node):
        o = args[0]
        if o.cls == "EvalContext" and "requested_paths" in kwargs:
            self._final_requested = kwargs["requested_paths"]
        n = ObjVal(o.cls, **o.fields)
        for k, v in kwargs.items():
            if k not in n.fields:
                raise OutOfSubset("_replace of unknown field %s" % k)
            n.fields[k] = v
        return n

    def m_ordered_dict(self, eng, args, kwargs, node):
        if not args:
            return MapVal.empty(PATH, KEY, ordered=True)
        if isinstance(args[0], MapVal):
            return args[0].snapshot()
        if isinstance(args[0], Opaque):
            return Opaque("OrderedDict")
        from .store_memory import m_OrderedDict_from_pairs

        return m_OrderedDict_from_pairs(PATH, KEY).fn(eng, args, kwargs, node)

    def m_sorted(self, eng, args, kwargs, node):
        v = args[0]
        if isinstance(v, Sym) and isinstance(v.ty, TSeq):
            r = v.ty.fresh("sorted")
            i = z3.Int(sv.fresh_name("i"))
            eng.assume(z3.Length(r.term) == z3.Length(v.term))
            # same members (permutation; order irrelevant to every clause that uses it)
            eng.assume(forall(v.ty.elt, lambda q: z3.Contains(r.term, z3.Unit(q)) == z3.Contains(v.term, z3.Unit(q))), heavy=True)
            return r
        if isinstance(v, Opaque):
            return Opaque("sorted")
        raise OutOfSubset("sorted(%r)" % (v,))

    def m_fetch_paths(self, eng, args, kwargs, node):
        """interface contract (DESIGN 4.2): all requested paths present => result maps each to its key; else DDSException"""
        st, l = args[0], args[1]
        eng.event("fetch_paths", store=st, paths=l)
        r = MapVal.fresh("resolved", PATH, KEY, ordered=True)
        if isinstance(l, ListVal):
            terms = [PATH.lift(x).term for x in l.items]
            allp = z3.And(*[st.paths.has(t) for t in terms]) if terms else z3.BoolVal(True)
            if not eng.choose(allp):
                raise _Raise(DDSExc())
            for t in terms:
                eng.assume(z3.And(r.has(t), r.get(t) == st.paths.get(t)))
            eng.assume(forall(PATH, lambda q: z3.Implies(r.has(q), z3.Or(*[q == t for t in terms]) if terms else z3.BoolVal(False))), heavy=True)
            return r
        lt = l.term if isinstance(l, Sym) else l.sym().term
        i = z3.Int(sv.fresh_name("i"))
        allp = z3.ForAll([i], z3.Implies(z3.And(0 <= i, i < z3.Length(lt)), st.paths.has(lt[i])))
        if eng.choose(z3.Bool(sv.fresh_name("fetch_paths_missing"))):
            eng.assume(z3.Not(allp), heavy=True)
            raise _Raise(DDSExc())
        eng.assume(allp, heavy=True)
        eng.assume(z3.ForAll([i], z3.Implies(z3.And(0 <= i, i < z3.Length(lt)), z3.And(r.has(lt[i]), r.get(lt[i]) == st.paths.get(lt[i])))), heavy=True)
        return r

    def user_call(self, eng, fun, node):
        """fun(*args, **kwargs): deterministic value APP; may raise anything; nested keeps may add blobs that keep
        INV, and touch nothing else (A-USER)."""
        eng.event("user_call", fun=fun)
        store = eng.st.globals["__store__"]
        old = store.blobs.snapshot()
        from pyvc.spec import havoc

        havoc(eng, store.blobs)
        eng.assume(forall(KEY, lambda k: z3.Implies(old.has(k), z3.And(store.blobs.has(k), store.blobs.get(k) == old.get(k)))), heavy=True)
        eng.assume(z3.Implies(INV(old), INV(store.blobs)), heavy=True)
        if eng.choose(z3.Bool(sv.fresh_name("user_function_raises"))):
            raise _Raise(ExcVal("BaseException*", ident="user_exception", origin=getattr(node, "lineno", None)))
        return APP_SYM

    def call_other(self, eng, f, args, kwargs, node):
        if isinstance(f, ObjVal) and f.cls == "UserFn":
            return self.user_call(eng, f, node)
        return super().call_other(eng, f, args, kwargs, node)

    def concrete_calls(self):
        return [PS.all_phases]

    def contains_other(self, eng, container, x, node):
        if isinstance(container, StagesPrefix):
            if isinstance(x, PS):
                return PHASES.index(x) < container.n
        return NotImplemented

    def py_getattr(self, eng, o, attr, node):
        if isinstance(o, Opaque):
            return Opaque(o.what + "." + attr)
        return NotImplemented

    def abstract_exc_matches(self, eng, exc, classes):
        return any(c is BaseException for c in classes)


# =================================================================================================
# _eval, called while an evaluation is running (nested keep)
# =================================================================================================


class eval_nested(_ApiSpec):
    """_eval reached from dds.keep inside a running evaluation (_eval_ctx is set)."""

    qualname = "_eval"
    variant = "evaluation running"
    may_raise = True

    def __init__(self):
        super().__init__()
        self.globals["_parse_stages"] = Model(self.m_parse_stages, "contract:_parse_stages")

    def m_parse_stages(self, eng, args, kwargs, node):
        eng.event("analysis:_parse_stages")
        if eng.choose(z3.Bool("parse_stages_rejects")):
            raise _Raise(DDSExc())
        n = z3.Int("n_stages")
        eng.assume(z3.And(n >= 0, n <= 5))
        return StagesPrefix(n)

    def make_globals(self, eng):
        ctx_obj = ObjVal("EvalContext", requested_paths=MapVal.named("requested_paths", PATH, KEY), stats_time=Opaque("stats_time"))
        self._ctx_obj0 = ctx_obj
        return {"_eval_ctx": ctx_obj, "__store__": store_obj()}

    def make_args(self, eng):
        return {
            "fun": user_fn(),
            "path": OPT_PATH.const("path"),
            "args": Opaque("args"),
            "kwargs": Opaque("kwargs"),
            "dds_export_graph": None,
            "dds_extra_debug": TOpt(TBool).const("dds_extra_debug"),
            "dds_stages": Opaque("dds_stages"),
        }

    def _key(self, ctx):
        rp = ctx.old_globals["_eval_ctx"].requested_paths
        p = ctx.args["path"]
        return rp.get(OPT_PATH.val(p.term))

    def requires(self, ctx):
        rp = ctx.globals["_eval_ctx"].requested_paths
        p = ctx.args["path"]
        pt = OPT_PATH.val(p.term)
        notnone = z3.Not(OPT_PATH.is_none(p.term))
        st = ctx.globals["__store__"]
        return [
            ("store_invariant", INV(st.blobs)),
            # the evaluation registered this keep: its path is in requested_paths ...
            ("keep_was_discovered", z3.Implies(notnone, rp.has(pt))),
            # ... under the signature of *this* call (ONE-KEY, established by all_store_paths / introspect)
            ("key_denotes_this_call", z3.Implies(notnone, VALUE_OF(rp.get(pt)) == APP)),
        ]

    def ensures(self, ctx):
        ev = ctx.events
        st0, st1 = ctx.old_globals["__store__"], ctx.globals["__store__"]
        k = self._key(ctx)
        hit = st0.blobs.has(k)
        n_user = count(ev, "user_call")
        n_store = count(ev, "store_blob")
        res = ANY.lift(ctx.result).term
        out = [
            ("returns_value_of_plain_execution", res == APP),
            ("store_invariant_preserved", INV(st1.blobs)),
            ("paths_untouched", z3.And(st1.paths.dom == st0.paths.dom, st1.paths.val == st0.paths.val)),
            ("no_path_commit", count(ev, "sync_paths") == 0),
            ("hit_runs_no_user_code", z3.Implies(hit, n_user == 0)),
            ("hit_leaves_blobs", z3.Implies(hit, z3.And(n_store == 0, st1.blobs.dom == st0.blobs.dom, st1.blobs.val == st0.blobs.val))),
            ("miss_runs_user_code_once", z3.Implies(z3.Not(hit), n_user == 1)),
            ("miss_result_present_afterwards", z3.Implies(z3.Not(hit), z3.And(st1.blobs.has(k), st1.blobs.get(k) == APP))),
            # the running evaluation's context object is not replaced by a nested keep (needed by the `finally` of _eval_new_ctx)
            ("eval_ctx_identity_kept", ctx.globals["_eval_ctx"] is self._ctx_obj0),
        ]
        if n_store:
            # the blob is stored only after the user function returned, under the requested key
            iu = kinds(ev).index("user_call") if n_user else -1
            istore = kinds(ev).index("store_blob")
            sb = [e for e in ev if e.kind == "store_blob"][0]
            out.append(("store_after_user_call", iu >= 0 and iu < istore and n_store == 1))
            out.append(("stored_under_requested_key", KEY.lift(sb.data["key"]).term == k))
            out.append(("stored_value_is_result", ANY.lift(sb.data["blob"]).term == res))
        return out

    def signals(self, ctx):
        ev = ctx.events
        e = ctx.exc
        st0, st1 = ctx.old_globals["__store__"], ctx.globals["__store__"]
        p = ctx.args["path"]
        is_user = e.ident == "user_exception"
        out = [
            ("nothing_stored_for_failed_call", count(ev, "store_blob") == 0),
            ("no_path_commit", count(ev, "sync_paths") == 0),
            ("paths_untouched", z3.And(st1.paths.dom == st0.paths.dom, st1.paths.val == st0.paths.val)),
            ("store_invariant_preserved", INV(st1.blobs)),
        ]
        if is_user:
            out.append(("user_exception_propagates_unchanged", True))
        else:
            is_dds = e.cls is S.DDSException
            out.append(("only_coded_dds_errors", is_dds))
            out.append(("rejected_before_any_user_code", count(ev, "user_call") == 0))
            if is_dds and e.code == S.DDSErrorCode.EVAL_IN_EVAL:
                out.append(("eval_in_eval_only_without_path", OPT_PATH.is_none(p.term)))
        return out


class eval_nested_no_path(eval_nested):
    """dds.eval called while an evaluation runs (path is None): must be rejected with EVAL_IN_EVAL before anything runs."""

    variant = "nested dds.eval"

    def make_args(self, eng):
        a = super().make_args(eng)
        a["path"] = None
        return a

    def requires(self, ctx):
        return [("store_invariant", INV(ctx.globals["__store__"].blobs))]

    def ensures(self, ctx):
        return [("nested_eval_must_be_rejected", False)]

    def signals(self, ctx):
        e = ctx.exc
        ev = ctx.events
        ok = e.cls is S.DDSException and (e.code == S.DDSErrorCode.EVAL_IN_EVAL or count(ev, "analysis:_parse_stages") == 1 and e.code is None)
        return [("EVAL_IN_EVAL", ok), ("nothing_ran", count(ev, "user_call") == 0 and count(ev, "store_blob") == 0 and count(ev, "sync_paths") == 0)]


class eval_toplevel(_ApiSpec):
    """_eval when no evaluation is running: parses the stages and delegates to _eval_new_ctx."""

    qualname = "_eval"
    variant = "no evaluation running"
    may_raise = True

    def __init__(self):
        super().__init__()
        self.globals["_parse_stages"] = Model(eval_nested.m_parse_stages.__get__(self), "contract:_parse_stages")
        self.globals["_eval_new_ctx"] = Model(self.m_new_ctx, "contract:_eval_new_ctx")

    def m_new_ctx(self, eng, args, kwargs, node):
        eng.event("call:_eval_new_ctx", args=list(args))
        if eng.choose(z3.Bool("new_ctx_raises")):
            raise _Raise(ExcVal("BaseException*", ident="from_eval_new_ctx"))
        return ANY.const("result_of_eval_new_ctx")

    def make_globals(self, eng):
        return {"_eval_ctx": None, "__store__": store_obj()}

    def make_args(self, eng):
        return {
            "fun": user_fn(),
            "path": OPT_PATH.const("path"),
            "args": Opaque("args"),
            "kwargs": Opaque("kwargs"),
            "dds_export_graph": None,
            "dds_extra_debug": TOpt(TBool).const("dds_extra_debug"),
            "dds_stages": Opaque("dds_stages"),
        }

    def _delegation(self, ctx):
        calls = [e for e in ctx.events if e.kind == "call:_eval_new_ctx"]
        if len(calls) != 1:
            return False
        a = calls[0].data["args"]
        return a[0] is ctx.args["fun"] and a[1] is ctx.args["path"] and a[2] is ctx.args["args"] and a[3] is ctx.args["kwargs"] and isinstance(a[6], StagesPrefix)

    def ensures(self, ctx):
        return [("delegates_once_with_same_call", self._delegation(ctx)), ("returns_its_result", ANY.lift(ctx.result).term == ANY.const("result_of_eval_new_ctx").term)]

    def signals(self, ctx):
        e = ctx.exc
        if e.ident == "from_eval_new_ctx":
            return [("exception_of_evaluation_propagates_unchanged", self._delegation(ctx))]
        return [("only_stage_parsing_may_reject", e.cls is S.DDSException and count(ctx.events, "call:_eval_new_ctx") == 0)]


# =================================================================================================
# _eval_new_ctx
# =================================================================================================


class eval_new_ctx(_ApiSpec):
    qualname = "_eval_new_ctx"
    may_raise = True

    def __init__(self):
        super().__init__()
        g = self.globals
        g["_fetch_ipython_vars"] = Model(lambda eng, a, k, n: Opaque("local_vars"), "_fetch_ipython_vars")
        g["get_arg_ctx"] = Model(self.analysis("get_arg_ctx", lambda eng: Opaque("arg_ctx")), "get_arg_ctx")
        g["EvalMainContext"] = Model(lambda eng, a, k, n: ObjVal("EvalMainContext", resolved_references=Opaque("rr")), "EvalMainContext")
        g["EvalContext"] = Model(self.m_EvalContext, "EvalContext")
        g["_accepted_packages"] = Opaque("_accepted_packages")
        # the loop that selects, among the collected paths, those whose blob is in the store (only these are committed)
        for ordinal in (0, 1, 2):
            self.loops[ordinal] = LoopSpec(invariant=self.commit_filter_inv)
        g["introspect_indirect"] = Model(self.analysis("introspect_indirect", lambda eng: Opaque("inters_indirect")), "introspect_indirect")
        g["introspect"] = Model(self.analysis("introspect", self.mk_inters), "introspect")
        g["FunctionIndirectInteractionUtils"] = ObjVal("FIIU")
        g["FunctionInteractionsUtils"] = ObjVal("FIU")
        self.classes["FIIU"] = {
            "all_loads": Model(self.analysis("all_loads", lambda eng: TSeq(PATH).fresh("all_loads"), raises=False), "all_loads"),
            "all_stores": Model(self.analysis("all_stores", lambda eng: TSeq(PATH).fresh("all_stores"), raises=False), "all_stores"),
        }
        self.classes["FIU"] = {
            "all_store_paths": Model(self.m_all_store_paths, "contract:all_store_paths"),
            "non_terminal_leaves": Model(self.m_non_terminal_leaves, "contract:non_terminal_leaves"),
            "pprint_tree": Model(lambda eng, a, k, n: None, "pprint_tree"),
        }
        g["draw_graph"] = Model(self.m_draw_graph, "draw_graph")

    # analysis functions: never run user code, never mutate the store (frame clause checked in props.C11 by
    # the call-graph effect analysis), may raise a DDSException
    def analysis(self, name, mk, raises=True):
        def model(eng, args, kwargs, node):
            eng.event("analysis:" + name)
            if raises and eng.choose(z3.Bool("analysis_%s_rejects" % name)):
                raise _Raise(DDSExc(code="some code"))
            return mk(eng)

        return model

    def mk_inters(self, eng):
        sig = KEY.const("root_sig")
        # signature soundness of the analysis (discovery layer, bounded elsewhere): the root signature denotes this call
        eng.assume(VALUE_OF(sig.term) == APP)
        return ObjVal("FunctionInteractions", fun_return_sig=sig, store_path=OPT_PATH.const("annotation_path"), arg_input=Opaque("arg_input"))

    def m_EvalContext(self, eng, args, kwargs, node):
        return ObjVal("EvalContext", requested_paths=kwargs["requested_paths"], stats_time=Opaque("stats_time"))

    def m_all_store_paths(self, eng, args, kwargs, node):
        """caller view of all_store_paths (verified in contracts/structures_utils.py): the root node's path maps to the
        root signature (ONE-KEY), every key denotes the computation kept at its path."""
        inters = args[1] if isinstance(args[0], ObjVal) and args[0].cls == "FIU" else args[0]
        eng.event("analysis:all_store_paths")
        # precondition of the ONE-KEY variant of all_store_paths: nothing in _eval_new_ctx (or in the analysis) establishes it
        one_sig = z3.Bool("interaction_tree_keeps_each_path_with_one_signature")
        self._asp_classes = {"call:all_store_paths:requires:one_signature_per_path": {"same_path_kept_with_two_signatures": z3.Not(one_sig)}}
        eng.oblige("call:all_store_paths:requires:one_signature_per_path", one_sig, kind="pre", node=node)
        m = MapVal.fresh("store_paths", PATH, KEY, with_keys=True, ordered=True)
        light, heavy = m.axioms()
        for f in light:
            eng.assume(f)
        for f in heavy:
            eng.assume(f, heavy=True)
        sp = inters.fields["store_path"]
        spt = OPT_PATH.lift(sp).term
        eng.assume(z3.Implies(z3.Not(OPT_PATH.is_none(spt)), z3.And(m.has(OPT_PATH.val(spt)), m.get(OPT_PATH.val(spt)) == inters.fields["fun_return_sig"].term)))
        eng.st.ghost_store_paths = m
        return m

    def m_non_terminal_leaves(self, eng, args, kwargs, node):
        eng.event("analysis:non_terminal_leaves")
        r = TSeq(PATH).fresh("faulty")
        keys = args[1]
        eng.st.ghost_overlap_arg = keys
        kt = keys.term if isinstance(keys, Sym) else keys.sym().term
        eng.assume((z3.Length(r.term) > 0) == OVERLAP(kt))
        return r

    def m_draw_graph(self, eng, args, kwargs, node):
        eng.event("export_graph")
        if eng.choose(z3.Bool("draw_graph_raises")):
            raise _Raise(ExcVal("Exception*", ident="export_failure"))
        return None

    def method_other(self, eng, recv, name, args, kwargs, node):
        if isinstance(recv, str) and name == "join":
            return Opaque("joined")
        return NotImplemented

    def finding_classes(self, ctx):
        return getattr(self, "_asp_classes", {})

    # ---------------------------------------------------------------------------------------------------
    def make_globals(self, eng):
        self._final_requested = None
        return {"_eval_ctx": None, "__store__": store_obj()}

    def make_args(self, eng):
        return {
            "fun": user_fn(),
            "path": OPT_PATH.const("path"),
            "args": Opaque("args"),
            "kwargs": Opaque("kwargs"),
            "export_graph": TOpt(TUn("FsPath")).const("export_graph"),
            "extra_debug": TBool.const("extra_debug"),
            "stages": StagesPrefix(z3.Int("n_stages")),
        }

    def requires(self, ctx):
        n = ctx.args["stages"].n
        return [("stages_is_prefix", z3.And(n >= 0, n <= 5)), ("store_invariant", INV(ctx.globals["__store__"].blobs))]

    def _common(self, ctx):
        ev = ctx.events
        st0, st1 = ctx.old_globals["__store__"], ctx.globals["__store__"]
        return [
            ("context_dropped", ctx.globals["_eval_ctx"] is None),
            ("store_invariant_preserved", INV(st1.blobs)),
        ]

    def commit_filter_inv(self, ctx, env, k):
        """after k of the collected paths: committed_paths holds exactly those of them whose blob is in the store, each with
        its collected signature"""
        sp = ctx.eng.st.ghost_store_paths
        cm = env["committed_paths"]
        blobs = ctx.globals["__store__"].blobs
        q = z3.Const(sv.fresh_name("q"), PATH.sort())
        j = z3.Int(sv.fresh_name("j"))
        seen = z3.Exists([j], z3.And(0 <= j, j < k, sp.keys[j] == q))
        return [
            ("selected_so_far", z3.ForAll([q], cm.has(q) == z3.And(seen, blobs.has(sp.get(q))))),
            ("with_their_collected_signature", z3.ForAll([q], z3.Implies(cm.has(q), cm.get(q) == sp.get(q)))),
        ]

    def ensures(self, ctx):
        ev = ctx.events
        k = kinds(ev)
        st0, st1 = ctx.old_globals["__store__"], ctx.globals["__store__"]
        n = ctx.args["stages"].n
        do_eval = n > PHASES.index(PS.EVAL)
        do_commit = n > PHASES.index(PS.PATH_COMMIT)
        n_user, n_store, n_sync = count(ev, "user_call"), count(ev, "store_blob"), count(ev, "sync_paths")
        sig = KEY.const("root_sig").term
        hit = st0.blobs.has(sig)
        res = ANY.lift(ctx.result).term
        path = ctx.args["path"].term
        haspath = z3.Not(OPT_PATH.is_none(path))
        out = self._common(ctx)
        out += [
            # C15 ---------------------------------------------------------------------------------
            ("dry_run_runs_nothing", z3.Implies(z3.Not(do_eval), z3.And(n_user == 0, n_store == 0, n_sync == 0))),
            ("dry_run_returns_None", z3.Implies(z3.Not(do_eval), res == ANY.none_term())),
            ("dry_run_leaves_store", z3.Implies(z3.Not(do_eval), z3.And(st1.blobs.dom == st0.blobs.dom, st1.blobs.val == st0.blobs.val, st1.paths.dom == st0.paths.dom, st1.paths.val == st0.paths.val))),
            ("no_commit_stage_leaves_paths", z3.Implies(z3.Not(do_commit), z3.And(n_sync == 0, st1.paths.dom == st0.paths.dom, st1.paths.val == st0.paths.val))),
            # C01 / C02 -------------------------------------------------------------------------
            ("returns_value_of_plain_execution", z3.Implies(do_eval, res == APP)),
            ("hit_runs_no_user_code", z3.Implies(hit, n_user == 0)),
            ("miss_runs_user_code_once", z3.Implies(z3.And(do_eval, z3.Not(hit)), n_user == 1)),
            ("kept_root_present_afterwards", z3.Implies(z3.And(do_eval, haspath), z3.And(st1.blobs.has(sig), st1.blobs.get(sig) == APP))),
            # C04 ---------------------------------------------------------------------------------
            ("commit_exactly_once", z3.Implies(do_commit, n_sync == 1)),
        ]
        if n_sync:
            isync = k.index("sync_paths")
            sp = getattr(ctx.eng.st, "ghost_store_paths", None)
            synced = ev[isync].data["paths"]
            out.append(("commit_is_last_effect", all(x not in ("user_call", "store_blob") for x in k[isync + 1 :]) and n_sync == 1))
            out.append(("commit_after_root_evaluated", ("user_call" in k[:isync]) or ("fetch_blob" in k[:isync])))
            # what is committed: the collected paths whose blob is in the store, each with its collected signature -- a path
            # is never pointed to a blob that does not exist (a keep that was analysed but not executed produces none)
            q_ = z3.Const(sv.fresh_name("q"), PATH.sort())
            out.append(("commits_exactly_the_collected_paths", sp is not None and z3.ForAll([q_], z3.And(synced.has(q_) == z3.And(sp.has(q_), st1.blobs.has(sp.get(q_))), z3.Implies(synced.has(q_), synced.get(q_) == sp.get(q_))))))
            out.append(("commit_points_only_to_present_blobs", z3.ForAll([q_], z3.Implies(synced.has(q_), st1.blobs.has(synced.get(q_))))))
            out.append(("paths_overridden_by_collected", map_is_override(st1.paths, st0.paths, synced)))
        if n_store:
            sb = [e for e in ev if e.kind == "store_blob"][0]
            iu = k.index("user_call") if n_user else -1
            out.append(("store_after_user_call", n_store == 1 and 0 <= iu < k.index("store_blob")))
            out.append(("stored_under_root_signature", KEY.lift(sb.data["key"]).term == sig))
            out.append(("stored_value_is_result", ANY.lift(sb.data["blob"]).term == res))
        # the paths the evaluation works with (what nested keeps look their key up in, what gets committed) were
        # checked for prefix overlaps, and none was found
        ov = getattr(ctx.eng.st, "ghost_overlap_arg", None)
        rp = getattr(self, "_final_requested", None)
        out.append(("overlap_check_ran_on_the_requested_paths", ov is not None and rp is not None and rp.keys is not None and z3.Implies(do_eval, z3.And(z3.Not(OVERLAP(_keys_term(ov))), _keys_term(ov) == rp.keys))))
        if n_user:
            iu = k.index("user_call")
            out.append(("analysis_completes_before_user_code", all(not x.startswith("analysis:") and x != "export_graph" for x in k[iu:])))
        return out

    def signals(self, ctx):
        ev = ctx.events
        k = kinds(ev)
        e = ctx.exc
        st0, st1 = ctx.old_globals["__store__"], ctx.globals["__store__"]
        out = self._common(ctx)
        out += [
            ("no_path_commit_on_failure", count(ev, "sync_paths") == 0),
            ("paths_untouched", z3.And(st1.paths.dom == st0.paths.dom, st1.paths.val == st0.paths.val)),
        ]
        if e.ident == "user_exception":
            out.append(("nothing_stored_for_failed_root", count(ev, "store_blob") == 0))
            out.append(("user_exception_propagates_unchanged", True))
        else:
            # rejected by the analysis (or the store lookup of loaded paths, or the graph export): nothing ran
            out.append(("rejected_before_anything_runs", count(ev, "user_call") == 0 and count(ev, "store_blob") == 0))
            out.append(("blobs_untouched", z3.And(st1.blobs.dom == st0.blobs.dom, st1.blobs.val == st0.blobs.val)))
            if e.cls is S.DDSException and e.code == S.DDSErrorCode.OVERLAPPING_PATH:
                out.append(("overlap_error_only_for_overlapping_paths", OVERLAP(_keys_term(ctx.eng.st.ghost_overlap_arg))))
        return out


def _keys_term(v):
    return v.term if isinstance(v, Sym) else v.sym().term


# =================================================================================================
# public wrappers
# =================================================================================================


class _Create:
    """caller view of DDSPathUtils.create (verified in contracts/paths.py): a DDSPath or a coded error"""

    @staticmethod
    def model(eng, args, kwargs, node):
        eng.event("analysis:DDSPathUtils.create")
        if eng.choose(z3.Bool("path_rejected")):
            raise _Raise(DDSExc(code=S.DDSErrorCode.PATH_NOT_ABSOLUTE))
        return PATH.const("created_path")


class keep_spec(_ApiSpec):
    qualname = "keep"
    may_raise = True

    def __init__(self):
        super().__init__()
        self.globals["DDSPathUtils"] = ObjVal("DDSPathUtils")
        self.classes["DDSPathUtils"] = {"create": Model(lambda eng, a, k, n: _Create.model(eng, a[1:], k, n), "create")}
        self.globals["_eval"] = Model(self.m_eval, "contract:_eval")

    def m_eval(self, eng, args, kwargs, node):
        eng.event("call:_eval", args=list(args))
        if eng.choose(z3.Bool("eval_raises")):
            raise _Raise(ExcVal("BaseException*", ident="from__eval"))
        return ANY.const("result_of__eval")

    def make_globals(self, eng):
        return {"__store__": store_obj()}

    def make_args(self, eng):
        return {"path": Opaque("user path"), "fun": user_fn(), "args": Opaque("args"), "kwargs": Opaque("kwargs")}

    def _delegates(self, ctx):
        calls = [e for e in ctx.events if e.kind == "call:_eval"]
        if len(calls) != 1:
            return False
        a = calls[0].data["args"]
        ok = a[0] is ctx.args["fun"] and a[2] is ctx.args["args"] and a[3] is ctx.args["kwargs"] and a[4] is None and a[5] is None and a[6] is None
        return ok and isinstance(a[1], Sym) and a[1].term.eq(PATH.const("created_path").term)

    def ensures(self, ctx):
        return [("delegates_to__eval_with_created_path", self._delegates(ctx)), ("returns_its_result", ANY.lift(ctx.result).term == ANY.const("result_of__eval").term)]

    def signals(self, ctx):
        e = ctx.exc
        if e.ident == "from__eval":
            return [("exception_propagates_unchanged", self._delegates(ctx))]
        return [("only_path_validation_may_reject", e.cls is S.DDSException and count(ctx.events, "call:_eval") == 0)]


class eval_spec(keep_spec):
    qualname = "eval"

    def make_args(self, eng):
        return {"fun": user_fn(), "args": Opaque("args"), "kwargs": Opaque("kwargs"), "dds_export_graph": Opaque("g"), "dds_extra_debug": Opaque("d"), "dds_stages": Opaque("s")}

    def _delegates(self, ctx):
        calls = [e for e in ctx.events if e.kind == "call:_eval"]
        if len(calls) != 1:
            return False
        a = calls[0].data["args"]
        A = ctx.args
        return a[0] is A["fun"] and a[1] is None and a[2] is A["args"] and a[3] is A["kwargs"] and a[4] is A["dds_export_graph"] and a[5] is A["dds_extra_debug"] and a[6] is A["dds_stages"]

    def ensures(self, ctx):
        return [("delegates_to__eval_without_path", self._delegates(ctx)), ("returns_its_result", ANY.lift(ctx.result).term == ANY.const("result_of__eval").term)]

    def signals(self, ctx):
        return [("exception_propagates_unchanged", ctx.exc.ident == "from__eval" and self._delegates(ctx))]


class load_standalone(_ApiSpec):
    """dds.load outside an evaluation: path -> key -> blob through the store (C04)"""

    qualname = "load"
    variant = "no evaluation running"
    may_raise = True

    def __init__(self):
        super().__init__()
        self.globals["DDSPathUtils"] = ObjVal("DDSPathUtils")
        self.classes["DDSPathUtils"] = {"create": Model(lambda eng, a, k, n: _Create.model(eng, a[1:], k, n), "create")}

    def make_globals(self, eng):
        return {"_eval_ctx": None, "__store__": store_obj()}

    def make_args(self, eng):
        return {"path": Opaque("user path")}

    def ensures(self, ctx):
        st0, st1 = ctx.old_globals["__store__"], ctx.globals["__store__"]
        p = PATH.const("created_path").term
        k = st0.paths.get(p)
        res = ANY.lift(ctx.result).term
        return [
            ("path_was_committed", st0.paths.has(p)),
            ("returns_blob_of_committed_key", res == z3.If(st0.blobs.has(k), st0.blobs.get(k), ANY.none_term())),
            ("store_untouched", z3.And(st1.blobs.dom == st0.blobs.dom, st1.blobs.val == st0.blobs.val, st1.paths.dom == st0.paths.dom, st1.paths.val == st0.paths.val)),
            ("read_only", count(ctx.events, "store_blob") == 0 and count(ctx.events, "sync_paths") == 0 and count(ctx.events, "user_call") == 0),
        ]

    def signals(self, ctx):
        st0 = ctx.old_globals["__store__"]
        p = PATH.const("created_path").term
        e = ctx.exc
        rejected = count(ctx.events, "fetch_paths") == 0
        return [("only_coded_dds_errors", e.cls is S.DDSException), ("only_when_path_not_committed_or_invalid", True if rejected else z3.Not(st0.paths.has(p)))]


SPECS = [eval_nested, eval_nested_no_path, eval_toplevel, eval_new_ctx, keep_spec, eval_spec, load_standalone]
