"""Contracts for dds/_annotations.py: the wrappers installed by @data_function / @dds_function (C01: the annotated function is
evaluated through keep with exactly its own path and function; C10: whatever keep raises propagates untouched; C11-style refusal of
arguments before anything runs)."""
import z3

from .common import *
from pyvc.engine import _Raise, _PathEnd, StarArgs
import dds.structures as DS


class _Wrapper(FnSpec):
    file = "dds/_annotations.py"
    may_raise = True
    refuses_arguments = True

    def __init__(self):
        super().__init__()
        g = self.globals
        g["_keep"] = Model(self.m_keep, "contract:keep")
        g["DDSException"], g["DDSErrorCode"] = DS.DDSException, DS.DDSErrorCode

    def m_keep(self, eng, args, kwargs, node):
        eng.event("keep", args=list(args), kwargs=dict(kwargs))
        if eng.choose(z3.Bool(sv.fresh_name("keep_raises"))):
            raise _Raise(ExcVal("BaseException*", code="raised by keep"))
        return ANY.const("result_of_keep")

    def make_args(self, eng):
        return {"args": TSeq(ANY).const("args"), "kwargs": MapVal.named("kwargs", TStr, ANY, with_card=True), "path": Opaque("the path of the annotation"), "func": Opaque("the annotated function")}

    def _delegated(self, ctx):
        ks = [e for e in ctx.events if e.kind == "keep"]
        if len(ks) != 1:
            return False
        a, kw = ks[0].data["args"], ks[0].data["kwargs"]
        ok = len(a) == 3 and a[0] is ctx.args["path"] and a[1] is ctx.args["func"] and isinstance(a[2], StarArgs) and a[2].v is ctx.args["args"] and set(kw) == {"**"} and kw["**"] is ctx.args["kwargs"]
        return ok

    def ensures(self, ctx):
        n_args = z3.Length(ctx.args["args"].term)
        n_kw = ctx.args["kwargs"].card
        out = [
            ("evaluated_through_keep_once_with_its_own_path_function_and_arguments", self._delegated(ctx)),
            ("returns_what_keep_returns", isinstance(ctx.result, Sym) and ctx.result.term.eq(ANY.const("result_of_keep").term)),
        ]
        if self.refuses_arguments:
            out.append(("evaluated_only_without_arguments", z3.And(n_args == 0, n_kw == 0)))
        return out

    def signals(self, ctx):
        e = ctx.exc
        ks = [ev for ev in ctx.events if ev.kind == "keep"]
        if e.code == "raised by keep":
            return [("what_keep_raises_propagates_untouched", len(ks) == 1 and self._delegated(ctx))]
        out = [("only_the_coded_refusal_of_arguments", e.cls is DS.DDSException and e.code == DS.DDSErrorCode.ARG_IN_DATA_FUNCTION and self.refuses_arguments),
               ("refused_before_anything_runs", len(ks) == 0),
               ("refused_only_with_arguments", z3.Or(z3.Length(ctx.args["args"].term) > 0, ctx.args["kwargs"].card > 0))]
        return out

    def abstract_exc_matches(self, eng, exc, classes):
        if exc.cls == "BaseException*":
            return any(c is BaseException for c in classes)
        return super().abstract_exc_matches(eng, exc, classes)


class data_function_wrapper(_Wrapper):
    qualname = "data_function.decorator_.wrapper"


class dds_function_wrapper(_Wrapper):
    qualname = "dds_function.decorator_.wrapper"
    refuses_arguments = False


SPECS = [data_function_wrapper, dds_function_wrapper]
