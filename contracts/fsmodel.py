"""File-system model for LocalFileStore (DESIGN 4.3, assumption A-FS) and models of the os / open externals.

fs = (kind: Path -> {ABSENT, DIR, FILE, LINK}, content: Path -> Bytes, complete: Path -> Bool, target: Path -> Path)
Paths are an uninterpreted sort with an injective child constructor; strings stay out of the obligations
(the path-string -> location function is studied separately in contracts/locations.py).
Each syscall-level step is atomic and durable once it returned (the granularity the crash property itself grants).
"""
import z3

from .common import *
from pyvc.engine import _Raise, _PathEnd

FSP = TUn("FsPath")
SEG = TUn("Seg")
P, SG = FSP.sort(), SEG.sort()
BYTES = TUn("Bytes")
BT = BYTES.sort()
ABSENT, DIR, FILE, LINK = 0, 1, 2, 3

CHILD = z3.Function("path_join", P, SG, P)  # os.path.join(dir, name)
SEG_BLOBS = z3.Const("seg_blobs", SG)  # "blobs"
KEYSEG = z3.Function("seg_of_key", KEY.sort(), SG)  # key
METASEG = z3.Function("seg_of_key_meta", KEY.sort(), SG)  # key + ".meta"
TMPSEG = z3.Function("seg_of_key_tmp", KEY.sort(), SG)  # key + ".tmp"
METATMPSEG = z3.Function("seg_of_key_meta_tmp", KEY.sort(), SG)  # key + ".meta.tmp"
LINKTMPSEG = z3.Function("seg_tmp_link", SG, SG)  # name + ".tmp_link"
IS_ANC = z3.Function("is_ancestor_or_self", P, P, z3.BoolSort())  # IS_ANC(a, p): a is p or one of its ancestors
ISABS = z3.Function("is_absolute", P, z3.BoolSort())
DIRNAME = z3.Function("dirname", P, P)
REL = z3.Function("resolve_relative_to", P, P, P)  # REL(dir, rel): what a relative path means from dir
EMPTYB = z3.Const("empty_bytes", BT)
DEPTH = z3.Function("path_depth", P, z3.IntSort())


def path_axioms():
    a, b = z3.Const("a_", P), z3.Const("b_", P)
    s, t = z3.Const("s_", SG), z3.Const("t_", SG)
    k, k2 = z3.Const("k_", KEY.sort()), z3.Const("k2_", KEY.sort())
    return [
        z3.ForAll([a, b, s, t], z3.Implies(CHILD(a, s) == CHILD(b, t), z3.And(a == b, s == t))),  # join is injective
        z3.ForAll([a, s], CHILD(a, s) != a),
        z3.ForAll([a, s], DIRNAME(CHILD(a, s)) == a),
        z3.ForAll([k, k2], z3.Implies(KEYSEG(k) == KEYSEG(k2), k == k2)),
        z3.ForAll([k, k2], z3.Implies(METASEG(k) == METASEG(k2), k == k2)),
        z3.ForAll([k, k2], KEYSEG(k) != METASEG(k2)),  # a signature never ends in ".meta" (A-H2)
        z3.ForAll([k, k2], z3.And(TMPSEG(k) != KEYSEG(k2), TMPSEG(k) != METASEG(k2), METATMPSEG(k) != KEYSEG(k2), METATMPSEG(k) != METASEG(k2), TMPSEG(k) != METATMPSEG(k2))),
        z3.ForAll([k, k2], z3.And(z3.Implies(TMPSEG(k) == TMPSEG(k2), k == k2), z3.Implies(METATMPSEG(k) == METATMPSEG(k2), k == k2))),
        z3.ForAll([k], z3.And(TMPSEG(k) != SEG_BLOBS, METATMPSEG(k) != SEG_BLOBS)),
        z3.ForAll([k], z3.And(KEYSEG(k) != SEG_BLOBS, METASEG(k) != SEG_BLOBS)),
        z3.ForAll([a], IS_ANC(a, a)),
        z3.ForAll([a, s, b], IS_ANC(b, CHILD(a, s)) == z3.Or(b == CHILD(a, s), IS_ANC(b, a))),
        z3.ForAll([a, s, b], z3.Implies(IS_ANC(CHILD(a, s), b), IS_ANC(a, b))),  # the parent of an ancestor is an ancestor
        z3.ForAll([a, s], z3.Implies(ISABS(a), ISABS(CHILD(a, s)))),
        z3.ForAll([a, s], DEPTH(CHILD(a, s)) == DEPTH(a) + 1),  # paths are finite: no path is its own descendant
        z3.ForAll([a, b], z3.Implies(IS_ANC(a, b), DEPTH(a) <= DEPTH(b))),
    ]


class FS:
    """mutable box holding the current file-system state (terms)"""

    def __init__(self, name="fs"):
        self.kind = z3.Const(name + ".kind", z3.ArraySort(P, z3.IntSort()))
        self.content = z3.Const(name + ".content", z3.ArraySort(P, BT))
        self.complete = z3.Const(name + ".complete", z3.ArraySort(P, z3.BoolSort()))
        self.target = z3.Const(name + ".target", z3.ArraySort(P, P))
        self.log = []  # effect log (python side), for crash obligations

    _hv = [0]

    def vc_havoc(self, eng):
        """the state after an unknown number of loop iterations: fresh arrays, constrained only by the loop invariant"""
        FS._hv[0] += 1
        n = "fs_h%d" % FS._hv[0]
        self.kind = z3.Const(n + ".kind", self.kind.sort())
        self.content = z3.Const(n + ".content", self.content.sort())
        self.complete = z3.Const(n + ".complete", self.complete.sort())
        self.target = z3.Const(n + ".target", self.target.sort())

    def snapshot(self):
        o = FS.__new__(FS)
        o.kind, o.content, o.complete, o.target, o.log = self.kind, self.content, self.complete, self.target, list(self.log)
        return o

    def wf(self):
        q = z3.Const("q_", P)
        s = z3.Const("s_", SG)
        # kinds are valid; the name space is a tree: an entry exists only inside an existing directory
        return [z3.And(z3.ForAll([q], z3.And(self.kind[q] >= 0, self.kind[q] <= 3)), z3.ForAll([q, s], z3.Implies(self.kind[CHILD(q, s)] != ABSENT, self.kind[q] == DIR)))]

    # ---- observations ---------------------------------------------------------------------------
    def lexists(self, p):
        return self.kind[p] != ABSENT

    def resolve(self, p):
        """one level of link resolution (blobs are regular files)"""
        t = self.target[p]
        return z3.If(self.kind[p] == LINK, z3.If(ISABS(t), t, REL(DIRNAME(p), t)), p)

    def exists(self, p):
        return self.kind[self.resolve(p)] != ABSENT if False else z3.And(self.kind[p] != ABSENT, z3.Implies(self.kind[p] == LINK, z3.And(self.kind[self.resolve(p)] != ABSENT, self.kind[self.resolve(p)] != LINK)))

    def isdir(self, p):
        r = self.resolve(p)
        return z3.And(self.kind[p] != ABSENT, self.kind[r] == DIR)

    def isfile(self, p):
        r = self.resolve(p)
        return z3.And(self.kind[p] != ABSENT, self.kind[r] == FILE)


def fs_path(eng, v):
    return FSP.lift(v).term


class FsModels:
    """external models bound to an FS box; `os`, `open`, `json` are ObjVals whose methods are these models"""

    def __init__(self, spec, fs_getter):
        self.spec = spec
        self.fs = fs_getter
        spec.globals["os"] = ObjVal("os", path=ObjVal("os.path"))
        spec.classes["os"] = {
            "makedirs": Model(self.makedirs, "os.makedirs"),
            "remove": Model(self.remove, "os.remove"),
            "symlink": Model(self.symlink, "os.symlink"),
            "replace": Model(self.replace, "os.replace"),
        }
        spec.classes["os.path"] = {
            "isdir": Model(lambda eng, a, k, n: Sym(self.fs(eng).isdir(fs_path(eng, a[1])), TBool), "os.path.isdir"),
            "exists": Model(lambda eng, a, k, n: Sym(self.fs(eng).exists(fs_path(eng, a[1])), TBool), "os.path.exists"),
            "isfile": Model(lambda eng, a, k, n: Sym(self.fs(eng).isfile(fs_path(eng, a[1])), TBool), "os.path.isfile"),
            "islink": Model(lambda eng, a, k, n: Sym(self.fs(eng).kind[fs_path(eng, a[1])] == LINK, TBool), "os.path.islink"),
            "lexists": Model(lambda eng, a, k, n: Sym(self.fs(eng).lexists(fs_path(eng, a[1])), TBool), "os.path.lexists"),
            "join": Model(self.join, "os.path.join"),
            "realpath": Model(lambda eng, a, k, n: Sym(self.fs(eng).resolve(fs_path(eng, a[1])), FSP), "os.path.realpath"),
        }
        spec.globals["open"] = Model(self.open_, "open")
        spec.classes["file"] = {
            "__enter__": Model(lambda eng, a, k, n: a[0], "__enter__"),
            "__exit__": Model(self.close, "__exit__"),
            "write": Model(self.write, "write"),
            "read": Model(self.read, "read"),
        }

    def join(self, eng, args, kwargs, node):
        parts = list(args[1:])
        t = fs_path(eng, parts[0])
        for s in parts[1:]:
            if isinstance(s, Sym) and s.ty == SEG:
                t = CHILD(t, s.term)
            elif s == "blobs":
                t = CHILD(t, SEG_BLOBS)
            elif isinstance(s, Sym) and s.ty == KEY:
                t = CHILD(t, KEYSEG(s.term))
            else:
                raise OutOfSubset("os.path.join component %r" % (s,))
        return Sym(t, FSP)

    def _effect(self, eng, what, p):
        fs = self.fs(eng)
        fs.log.append((what, p))
        eng.event("fs:" + what, path=p, fs=fs.snapshot())
        hook = getattr(self.spec, "on_fs_effect", None)
        if hook is not None:
            # crash point: the process may be killed right after this (atomic, durable) effect
            hook(eng, what, p, len(fs.log))

    def makedirs(self, eng, args, kwargs, node):
        fs = self.fs(eng)
        p = fs_path(eng, args[1])
        eng.oblige("makedirs_target_absent", z3.Not(fs.lexists(p)), kind="safety:FileExistsError", node=node)
        q = z3.Const(sv.fresh_name("q"), P)
        eng.oblige("makedirs_no_file_ancestor", z3.ForAll([q], z3.Implies(z3.And(IS_ANC(q, p), fs.lexists(q)), fs.isdir(q))), kind="safety:NotADirectoryError", node=node)
        # A-FS (canonical paths): the directories on the way are directories, not links to directories
        eng.assume(z3.ForAll([q], z3.Implies(z3.And(IS_ANC(q, p), fs.lexists(q)), fs.kind[q] != LINK)), heavy=True)
        newkind = z3.Const(sv.fresh_name("kind"), fs.kind.sort())
        eng.assume(z3.ForAll([q], newkind[q] == z3.If(z3.And(IS_ANC(q, p), fs.kind[q] == ABSENT), z3.IntVal(DIR), fs.kind[q])), heavy=True)
        fs.kind = newkind
        self._effect(eng, "makedirs", p)
        return None

    def remove(self, eng, args, kwargs, node):
        fs = self.fs(eng)
        p = fs_path(eng, args[1])
        eng.oblige("remove_target_is_file_or_link", z3.Or(fs.kind[p] == FILE, fs.kind[p] == LINK), kind="safety:OSError", node=node)
        fs.kind = z3.Store(fs.kind, p, z3.IntVal(ABSENT))
        self._effect(eng, "remove", p)
        return None

    def symlink(self, eng, args, kwargs, node):
        fs = self.fs(eng)
        tgt, link = fs_path(eng, args[1]), fs_path(eng, args[2])
        eng.oblige("symlink_name_free", z3.Not(fs.lexists(link)), kind="safety:FileExistsError", node=node)
        eng.oblige("symlink_parent_is_dir", fs.isdir(DIRNAME(link)), kind="safety:FileNotFoundError", node=node)
        fs.kind = z3.Store(fs.kind, link, z3.IntVal(LINK))
        fs.target = z3.Store(fs.target, link, tgt)
        self._effect(eng, "symlink", link)
        return None

    def replace(self, eng, args, kwargs, node):
        """os.replace(src, dst): one atomic rename; dst, if present, is replaced"""
        fs = self.fs(eng)
        src, dst = fs_path(eng, args[1]), fs_path(eng, args[2])
        eng.oblige("replace_source_exists", fs.lexists(src), kind="safety:FileNotFoundError", node=node)
        eng.oblige("replace_target_is_not_a_directory", fs.kind[dst] != DIR, kind="safety:IsADirectoryError", node=node)
        eng.oblige("replace_target_parent_is_dir", fs.isdir(DIRNAME(dst)), kind="safety:FileNotFoundError", node=node)
        k, c, cm, t = fs.kind[src], fs.content[src], fs.complete[src], fs.target[src]
        fs.kind = z3.Store(z3.Store(fs.kind, dst, k), src, z3.IntVal(ABSENT))
        fs.content = z3.Store(fs.content, dst, c)
        fs.complete = z3.Store(fs.complete, dst, cm)
        fs.target = z3.Store(fs.target, dst, t)
        self._effect(eng, "replace", dst)
        return None

    def open_(self, eng, args, kwargs, node):
        fs = self.fs(eng)
        p = fs_path(eng, args[0])
        mode = args[1]
        if mode == "wb":
            eng.oblige("open_wb_parent_is_dir", fs.isdir(DIRNAME(p)), kind="safety:FileNotFoundError", node=node)
            eng.oblige("open_wb_not_a_directory", z3.Not(fs.isdir(p)), kind="safety:IsADirectoryError", node=node)
            r = fs.resolve(p)
            fs.kind = z3.Store(fs.kind, r, z3.IntVal(FILE))
            fs.content = z3.Store(fs.content, r, EMPTYB)
            fs.complete = z3.Store(fs.complete, r, z3.BoolVal(False))
            self._effect(eng, "open_wb", r)
            return ObjVal("file", path=Sym(r, FSP), mode="wb")
        if mode == "rb":
            eng.oblige("open_rb_file_exists", fs.isfile(p), kind="safety:FileNotFoundError", node=node)
            return ObjVal("file", path=Sym(fs.resolve(p), FSP), mode="rb")
        raise OutOfSubset("open mode %r" % (mode,))

    def write(self, eng, args, kwargs, node):
        fs = self.fs(eng)
        f = args[0]
        p = f.fields["path"].term
        b = BYTES.lift(args[1]).term
        fs.content = z3.Store(fs.content, p, BCAT(fs.content[p], b))
        self._effect(eng, "write", p)
        return None

    def read(self, eng, args, kwargs, node):
        fs = self.fs(eng)
        return Sym(fs.content[args[0].fields["path"].term], BYTES)

    def close(self, eng, args, kwargs, node):
        fs = self.fs(eng)
        f = args[0]
        if f.fields["mode"] == "wb":
            p = f.fields["path"].term
            fs.complete = z3.Store(fs.complete, p, z3.BoolVal(True))
            self._effect(eng, "close", p)
        return None


BCAT = z3.Function("bytes_cat", BT, BT, BT)


def bcat_axioms():
    b = z3.Const("b_", BT)
    return [z3.ForAll([b], BCAT(EMPTYB, b) == b)]
