"""Contracts for dds/codecs/databricks.py:DBFSStore -- the commit-type semantics of sync_paths, fetch_paths, presence by
metadata, and the two dbutils wrappers (C19).

dbutils.fs is modelled (assumption A-DBU) as a map  URI -> content  with the four calls the store uses:
  head(u)                     content of u, raises (some Exception) when u does not exist
  put(u, c, overwrite=True)   u := c            (without overwrite=True: raises when u exists)
  cp(src, dst, recurse=True)  dst := content of src, raises when src does not exist
  rm(u, recurse=True)         u removed
URIs and contents are uninterpreted; the layout functions (where the record / the copy of a path and the blob / the metadata
of a key live) are named functions assumed injective with disjoint ranges (hypothesis LAYOUT-INJ).  json is abstracted by
constructor / accessor functions on contents (assumption A-LIB: json.loads(json.dumps(x)) == x).
"""
import z3

from .common import *
from .api_stages import NAME, lit
from pyvc.engine import _Raise, _PathEnd
import dds.structures as DS
import dds.codecs.databricks as DBX

FILE_ = "dds/codecs/databricks.py"
CT = DBX.CommitType
TCT = TEnum(CT)
URI = TUn("DbfsUri")
CONTENT = TUn("DbfsContent")
U, C = URI.sort(), CONTENT.sort()
K, PS_ = KEY.sort(), PATH.sort()

REDIR = z3.Function("dbfs_record_uri", PS_, U)  # data_dir / "_dds_meta" / path
OBJ = z3.Function("dbfs_object_uri", PS_, U)  # data_dir / path
BLOB = z3.Function("dbfs_blob_uri", K, U)  # internal_dir / "blobs" / key
BLOBMETA = z3.Function("dbfs_blob_meta_uri", K, U)  # internal_dir / "blobs" / key + ".meta"
# json views of a content
IS_REC = z3.Function("is_redirect_record", C, z3.BoolSort())  # parses as a json object with "redirection_key"
REC_KEY = z3.Function("record_key", C, K)  # json.loads(c)["redirection_key"]
REC_FULL = z3.Function("record_has_copy", C, z3.BoolSort())  # json.loads(c).get("full_copy", False)
REC = z3.Function("mk_record", K, z3.BoolSort(), C)  # json.dumps({"redirection_key": k, "full_copy": b})
REC_OLD = z3.Function("mk_record_without_flag", K, C)  # json.dumps({"redirection_key": k})
IS_META = z3.Function("is_blob_metadata", C, z3.BoolSort())
PROTO = z3.Function("metadata_protocol", C, NAME.sort())  # json.loads(c).get("protocol")


# codecs: a reference (a string) names a codec kind; the registry maps types to references on write
PYTYPE = TUn("PyType")
KIND = TUn("CodecKind")
KIND_OF = z3.Function("codec_kind_of_ref", NAME.sort(), KIND.sort())  # which codec a reference denotes (aliases included)
REGISTERED = z3.Function("dbfs_ref_is_registered", NAME.sort(), z3.BoolSort())
IS_FILE_CODEC = z3.Function("ref_denotes_a_file_codec", NAME.sort(), z3.BoolSort())
REF_FOR_TYPE = z3.Function("dbfs_ref_of_codec_for_type", PYTYPE.sort(), NAME.sort())
TYPEOF = z3.Function("dbfs_type_of", ANY.sort(), PYTYPE.sort())
ENCK = z3.Function("kind_encode", KIND.sort(), ANY.sort(), C)  # what a codec writes for a value
DECK = z3.Function("kind_decode", KIND.sort(), C, ANY.sort())  # what it reads back
META_OF = z3.Function("mk_blob_metadata", NAME.sort(), C)  # json.dumps({"protocol": ref, "timestamp_millis": ...})


def codec_axioms():
    kd, v, r = z3.Const("kd_", KIND.sort()), z3.Const("v_", ANY.sort()), z3.Const("r_", NAME.sort())
    return [
        z3.ForAll([kd, v], DECK(kd, ENCK(kd, v)) == v),  # A-LIB: every codec round-trips its own output
        z3.ForAll([r], z3.And(IS_META(META_OF(r)), PROTO(META_OF(r)) == r)),  # json round trip of the metadata record
    ]


def idx(m):
    return list(CT).index(m)


def json_axioms():
    k, b = z3.Const("k_", K), z3.Const("b_", z3.BoolSort())
    return [
        z3.ForAll([k, b], z3.And(IS_REC(REC(k, b)), REC_KEY(REC(k, b)) == k, REC_FULL(REC(k, b)) == b)),
        z3.ForAll([k], z3.And(IS_REC(REC_OLD(k)), REC_KEY(REC_OLD(k)) == k, z3.Not(REC_FULL(REC_OLD(k))))),
    ]


def layout_inj():
    p, q = z3.Const("p_", PS_), z3.Const("q_", PS_)
    k, k2 = z3.Const("k_", K), z3.Const("k2_", K)
    return z3.And(
        z3.ForAll([p, q], z3.And(z3.Implies(REDIR(p) == REDIR(q), p == q), z3.Implies(OBJ(p) == OBJ(q), p == q), REDIR(p) != OBJ(q))),
        z3.ForAll([k, k2], z3.And(z3.Implies(BLOB(k) == BLOB(k2), k == k2), z3.Implies(BLOBMETA(k) == BLOBMETA(k2), k == k2), BLOB(k) != BLOBMETA(k2))),
        z3.ForAll([p, k], z3.And(REDIR(p) != BLOB(k), REDIR(p) != BLOBMETA(k), OBJ(p) != BLOB(k), OBJ(p) != BLOBMETA(k))),
    )


class Dbfs:
    """ghost state: the DBFS name space seen through dbutils.fs"""

    _n = [0]

    def __init__(self, name="dbfs"):
        self.exists = z3.Const(name + ".exists", z3.ArraySort(U, z3.BoolSort()))
        self.content = z3.Const(name + ".content", z3.ArraySort(U, C))

    def snapshot(self):
        o = Dbfs.__new__(Dbfs)
        o.exists, o.content = self.exists, self.content
        return o

    def vc_havoc(self, eng):
        Dbfs._n[0] += 1
        n = "dbfs_h%d" % Dbfs._n[0]
        self.exists = z3.Const(n + ".exists", self.exists.sort())
        self.content = z3.Const(n + ".content", self.content.sort())

    def same_at(self, other, u):
        return z3.And(self.exists[u] == other.exists[u], self.content[u] == other.content[u])


def any_exception():
    return ExcVal("Exception*")


class _Dbfs(FnSpec):
    file = FILE_
    may_raise = True

    def __init__(self):
        super().__init__()
        g = self.globals
        g["CommitType"] = CT
        g["Path"] = Model(self.m_path, "Path")
        g["PyHash"] = Model(lambda eng, a, k, n: a[0], "PyHash")
        g["str"] = Model(lambda eng, a, k, n: a[0], "str")
        g["str"].pyclass = str
        g["json"] = ObjVal("json")
        self.classes["json"] = {"loads": Model(self.m_loads, "json.loads"), "dumps": Model(self.m_dumps, "json.dumps")}
        self.classes["jsonobj"] = {"get": Model(self.m_json_get, "dict.get")}
        self.classes["RelPath"] = {"joinpath": Model(self.m_joinpath, "Path.joinpath")}
        self.classes["dbutils.fs"] = {
            "head": Model(self.fs_head, "dbutils.fs.head"),
            "put": Model(self.fs_put, "dbutils.fs.put"),
            "cp": Model(self.fs_cp, "dbutils.fs.cp"),
            "rm": Model(self.fs_rm, "dbutils.fs.rm"),
        }
        g["STU"] = ObjVal("STU")
        self.classes["STU"] = {"from_type": Model(lambda eng, a, k, n: a[1], "STU.from_type")}
        g["type"] = Model(lambda eng, a, k, n: Sym(TYPEOF(ANY.lift(a[0]).term), PYTYPE), "type")
        g["GenericLocation"] = Model(lambda eng, a, k, n: a[0], "GenericLocation")
        g["ProtocolRef"] = Model(lambda eng, a, k, n: a[0], "ProtocolRef")
        g["current_timestamp"] = Model(lambda eng, a, k, n: Opaque("timestamp"), "current_timestamp")
        g["CodecProtocol"] = DS.CodecProtocol
        g["FileCodecProtocol"] = DS.FileCodecProtocol
        g["DDSException"] = DS.DDSException
        g["tempfile"] = ObjVal("tempfile")
        self.classes["tempfile"] = {"TemporaryDirectory": Model(lambda eng, a, k, n: ObjVal("TmpDir"), "tempfile.TemporaryDirectory")}
        self.classes["TmpDir"] = {"__enter__": Model(lambda eng, a, k, n: ObjVal("LocalDir"), "__enter__"), "__exit__": Model(lambda eng, a, k, n: None, "__exit__")}
        self.classes["LocalDir"] = {"joinpath": Model(lambda eng, a, k, n: ObjVal("LocalPath", content=None), "Path.joinpath")}
        self.classes["CodecRegistry"] = {"get_codec": Model(self.m_get_codec, "contract:CodecRegistry.get_codec")}
        self.classes["Codec"] = {
            "ref": Model(lambda eng, a, k, n: a[0].fields["_ref"], "codec.ref"),
            "serialize_into": Model(self.m_serialize, "codec.serialize_into"),
            "deserialize_from": Model(self.m_deserialize, "codec.deserialize_from"),
        }
        # the store's own helpers, by their contracts (each verified below against its body, or a layout definition)
        self.classes["DBFSStore"] = {
            "_head": Model(self.c_head, "contract:DBFSStore._head"),
            "_put": Model(self.c_put, "contract:DBFSStore._put"),
            "_physical_path": Model(self.c_physical_path, "layout:DBFSStore._physical_path"),
            "_blob_path": Model(lambda eng, a, k, n: Sym(BLOB(KEY.lift(a[1]).term), URI), "layout:DBFSStore._blob_path"),
            "_blob_meta_path": Model(lambda eng, a, k, n: Sym(BLOBMETA(KEY.lift(a[1]).term), URI), "layout:DBFSStore._blob_meta_path"),
            "_fetch_meta": Model(self.c_fetch_meta, "contract:DBFSStore._fetch_meta"),
            "fetch_blob": Model(lambda eng, a, k, n: Opaque("blob"), "DBFSStore.fetch_blob"),
        }

    # ---- state ------------------------------------------------------------------------------------------------
    def make_globals(self, eng):
        return {"__dbfs__": Dbfs("dbfs")}

    def st(self, eng):
        return eng.st.globals["__dbfs__"]

    def self_obj(self, commit_type=None):
        return ObjVal("DBFSStore", _dbutils=ObjVal("dbutils", fs=ObjVal("dbutils.fs")), _commit_type=commit_type if commit_type is not None else TCT.const("commit_type"), _internal_dir=Opaque("internal_dir"), _data_dir=Opaque("data_dir"), _registry=ObjVal("CodecRegistry"))

    def common_requires(self, ctx):
        return [("json_%d" % i, a) for i, a in enumerate(json_axioms())] + [("codec_%d" % i, a) for i, a in enumerate(codec_axioms())] + [("LAYOUT-INJ (hypothesis)", layout_inj())]

    # ---- models of dbutils.fs (A-DBU) -----------------------------------------------------------------------------
    def fs_head(self, eng, args, kwargs, node):
        st = self.st(eng)
        u = URI.lift(args[1]).term
        eng.event("dbfs:head", uri=u)
        if eng.choose(st.exists[u]):
            return Sym(st.content[u], CONTENT)
        raise _Raise(any_exception())

    def fs_put(self, eng, args, kwargs, node):
        st = self.st(eng)
        u = URI.lift(args[1]).term
        c = args[2]
        if not (isinstance(c, Sym) and c.ty == CONTENT):
            raise OutOfSubset("dbutils.fs.put of %r" % (c,))
        ow = kwargs.get("overwrite", args[3] if len(args) > 3 else False)
        if ow is not True:
            if eng.choose(st.exists[u]):
                raise _Raise(any_exception())
        st.exists = z3.Store(st.exists, u, z3.BoolVal(True))
        st.content = z3.Store(st.content, u, c.term)
        eng.event("dbfs:put", uri=u, content=c.term, st=st.snapshot())
        return True

    def fs_cp(self, eng, args, kwargs, node):
        st = self.st(eng)
        if isinstance(args[1], ObjVal) and args[1].cls == "LocalFileUri":
            # upload of a local temporary file
            c = args[1].fields["path"].fields["content"]
            if c is None:
                raise _Raise(any_exception())  # the local file was never written
            dst = URI.lift(args[2]).term
            st.exists = z3.Store(st.exists, dst, z3.BoolVal(True))
            st.content = z3.Store(st.content, dst, c.term)
            eng.event("dbfs:cp", src=None, dst=dst, st=st.snapshot())
            return True
        if isinstance(args[2], ObjVal) and args[2].cls == "LocalFileUri":
            src = URI.lift(args[1]).term
            if not eng.choose(st.exists[src]):
                raise _Raise(any_exception())
            args[2].fields["path"].fields["content"] = Sym(st.content[src], CONTENT)
            return True
        src, dst = URI.lift(args[1]).term, URI.lift(args[2]).term
        if not eng.choose(st.exists[src]):
            raise _Raise(any_exception())
        st.exists = z3.Store(st.exists, dst, z3.BoolVal(True))
        st.content = z3.Store(st.content, dst, st.content[src])
        eng.event("dbfs:cp", src=src, dst=dst, st=st.snapshot())
        return True

    def fs_rm(self, eng, args, kwargs, node):
        st = self.st(eng)
        u = URI.lift(args[1]).term
        st.exists = z3.Store(st.exists, u, z3.BoolVal(False))
        eng.event("dbfs:rm", uri=u, st=st.snapshot())
        return True

    # ---- contracts of the helpers ------------------------------------------------------------------------------------
    def c_head(self, eng, args, kwargs, node):
        """_head(p): the content of p; raises when p does not exist; no effect"""
        return self.fs_head(eng, [None, args[1]], {}, node)

    def c_put(self, eng, args, kwargs, node):
        """_put(p, c): p := c, whether or not p existed"""
        return self.fs_put(eng, [None, args[1], args[2]], {"overwrite": True}, node)

    def c_physical_path(self, eng, args, kwargs, node):
        r = args[1]
        if isinstance(r, ObjVal) and r.cls == "RelPath" and r.fields.get("p") is not None:
            p = PATH.lift(r.fields["p"]).term
            return Sym(REDIR(p) if r.fields["meta"] else OBJ(p), URI)
        raise OutOfSubset("_physical_path(%r)" % (r,))

    def c_fetch_meta(self, eng, args, kwargs, node):
        """_fetch_meta(key): the parsed metadata of the blob, None when there is none (contract verified below)"""
        st = self.st(eng)
        u = BLOBMETA(KEY.lift(args[1]).term)
        if eng.choose(st.exists[u]):
            return ObjVal("jsonobj", src=Sym(st.content[u], CONTENT))
        return None

    # ---- pathlib / json ----------------------------------------------------------------------------------------------
    def m_get_codec(self, eng, args, kwargs, node):
        """contract of CodecRegistry.get_codec (contracts/codecs.py): by reference if one is given, else by type; a coded
        error when the reference is not registered"""
        obj_type, ref = args[1], args[2]
        if isinstance(ref, Sym) and ref.ty == NAME:
            if not eng.choose(REGISTERED(ref.term)):
                raise _Raise(ExcVal(DS.DDSException, code=DS.DDSErrorCode.PROTOCOL_NOT_FOUND))
            rt = ref.term
        elif ref is None and isinstance(obj_type, Sym):
            rt = REF_FOR_TYPE(obj_type.term)
            eng.assume(REGISTERED(rt))  # the registry always has the `object` (pickle) codec as fall-back
        else:
            raise OutOfSubset("get_codec(%r, %r)" % (obj_type, ref))
        c = ObjVal("Codec", _ref=Sym(rt, NAME))
        c.pyclass = DS.FileCodecProtocol if eng.choose(IS_FILE_CODEC(rt)) else DS.CodecProtocol
        return c

    def m_serialize(self, eng, args, kwargs, node):
        c, blob, loc = args[0], args[1], args[2]
        data = ENCK(KIND_OF(c.fields["_ref"].term), ANY.lift(blob).term)
        if isinstance(loc, ObjVal) and loc.cls == "LocalPath":
            loc.fields["content"] = Sym(data, CONTENT)
            return None
        st = self.st(eng)
        u = URI.lift(loc).term
        st.exists = z3.Store(st.exists, u, z3.BoolVal(True))
        st.content = z3.Store(st.content, u, data)
        eng.event("dbfs:codec_write", uri=u, st=st.snapshot())
        return None

    def m_deserialize(self, eng, args, kwargs, node):
        c, loc = args[0], args[1]
        kd = KIND_OF(c.fields["_ref"].term)
        if isinstance(loc, ObjVal) and loc.cls == "LocalPath":
            if loc.fields["content"] is None:
                raise _Raise(any_exception())
            return Sym(DECK(kd, loc.fields["content"].term), ANY)
        st = self.st(eng)
        u = URI.lift(loc).term
        eng.oblige("blob_object_exists", st.exists[u], kind="safety:FileNotFoundError", node=node)
        return Sym(DECK(kd, st.content[u]), ANY)

    def eval_fstring(self, eng, e, env):
        import ast

        if len(e.values) == 2 and isinstance(e.values[0], ast.Constant) and e.values[0].value == "file://" and isinstance(e.values[1], ast.FormattedValue):
            x = eng.eval(e.values[1].value, env)
            if isinstance(x, ObjVal) and x.cls == "LocalPath":
                return ObjVal("LocalFileUri", path=x)
        return super().eval_fstring(eng, e, env)

    def m_path(self, eng, args, kwargs, node):
        x = args[0]
        if isinstance(x, ObjVal) and x.cls == "LocalDir":
            return x
        if x == "_dds_meta/":
            return ObjVal("RelPath", meta=True, p=None)
        if isinstance(x, ObjVal) and x.cls == "DotSlash":
            return ObjVal("RelPath", meta=False, p=x.fields["p"])
        raise OutOfSubset("Path(%r)" % (x,))

    def m_joinpath(self, eng, args, kwargs, node):
        r, x = args[0], args[1]
        if r.fields["p"] is None and isinstance(x, ObjVal) and x.cls == "DotSlash":
            return ObjVal("RelPath", meta=r.fields["meta"], p=x.fields["p"])
        raise OutOfSubset("joinpath(%r)" % (x,))

    def binop_other(self, eng, op, a, b, node):
        import ast

        if isinstance(op, ast.Add) and a == "./" and isinstance(b, Sym) and b.ty == PATH:
            return ObjVal("DotSlash", p=b)
        return NotImplemented

    def m_loads(self, eng, args, kwargs, node):
        c = args[1]
        if isinstance(c, Sym) and c.ty == CONTENT:
            return ObjVal("jsonobj", src=c)
        raise OutOfSubset("json.loads(%r)" % (c,))

    def make_dict(self, eng, pairs, node):
        d = {k: v for k, v in pairs}
        if set(d) == {"protocol", "timestamp_millis"}:
            return ObjVal("MetaDict", protocol=d["protocol"])
        if set(d) == {"redirection_key"}:
            return ObjVal("RecDict", key=d["redirection_key"], full=None)
        if set(d) == {"redirection_key", "full_copy"}:
            return ObjVal("RecDict", key=d["redirection_key"], full=d["full_copy"])
        return super().make_dict(eng, pairs, node)

    def m_dumps(self, eng, args, kwargs, node):
        d = args[1]
        if isinstance(d, ObjVal) and d.cls == "RecDict":
            k = KEY.lift(d.fields["key"]).term
            if d.fields["full"] is None:
                return Sym(REC_OLD(k), CONTENT)
            return Sym(REC(k, TBool.lift(d.fields["full"]).term), CONTENT)
        if isinstance(d, ObjVal) and d.cls == "MetaDict":
            return Sym(META_OF(NAME.lift(d.fields["protocol"]).term), CONTENT)
        raise OutOfSubset("json.dumps(%r)" % (d,))

    def getitem(self, eng, o, k, node):
        if isinstance(o, ObjVal) and o.cls == "jsonobj":
            src = o.fields["src"].term
            if k == "redirection_key":
                eng.oblige("record_is_well_formed", IS_REC(src), kind="safety:KeyError", node=node)
                return Sym(REC_KEY(src), KEY)
            if k == "protocol":
                eng.oblige("metadata_is_well_formed", IS_META(src), kind="safety:KeyError", node=node)
                return Sym(PROTO(src), NAME)
            raise OutOfSubset("json field %r" % (k,))
        return super().getitem(eng, o, k, node)

    def m_json_get(self, eng, args, kwargs, node):
        o, k = args[0], args[1]
        src = o.fields["src"].term
        if k == "protocol":
            # not modelled: blobs written through Spark (their commit needs a Spark session) -- assumed away here
            eng.assume(PROTO(src) != lit("dbfs.pyspark"))
            return Sym(PROTO(src), NAME)
        if k == "full_copy" and len(args) > 2 and args[2] is False:
            return Sym(REC_FULL(src), TBool)
        raise OutOfSubset("json .get(%r)" % (k,))

    # ---- state predicates ----------------------------------------------------------------------------------------------
    def records_wf(self, st):
        q = z3.Const(sv.fresh_name("q"), PS_)
        return z3.ForAll([q], z3.Implies(st.exists[REDIR(q)], IS_REC(st.content[REDIR(q)])))

    def copies_present(self, st):
        """REP-FULL: a record that says a copy was made sits next to a byte-identical copy of the blob it names"""
        q = z3.Const(sv.fresh_name("q"), PS_)
        r = st.content[REDIR(q)]
        return z3.ForAll([q], z3.Implies(z3.And(st.exists[REDIR(q)], REC_FULL(r)), z3.And(st.exists[OBJ(q)], st.content[OBJ(q)] == st.content[BLOB(REC_KEY(r))])))


class dbfs_head(_Dbfs):
    """_head(p) = dbutils.fs.head(str(p))"""

    qualname = "DBFSStore._head"

    def make_args(self, eng):
        return {"self": self.self_obj(), "p": URI.const("p")}

    def requires(self, ctx):
        return self.common_requires(ctx)

    def ensures(self, ctx):
        st0, st1 = ctx.old_globals["__dbfs__"], ctx.globals["__dbfs__"]
        u = ctx.args["p"].term
        r = ctx.result
        return [
            ("returns_the_content", isinstance(r, Sym) and r.ty == CONTENT and z3.And(st0.exists[u], r.term == st0.content[u])),
            ("no_effect", z3.And(st1.exists == st0.exists, st1.content == st0.content)),
        ]

    def signals(self, ctx):
        st0, st1 = ctx.old_globals["__dbfs__"], ctx.globals["__dbfs__"]
        return [("raises_only_when_absent", z3.Not(st0.exists[ctx.args["p"].term])), ("no_effect", z3.And(st1.exists == st0.exists, st1.content == st0.content))]


class dbfs_put(_Dbfs):
    """_put(p, blob): p := blob whether or not p existed (overwrite=True is passed)"""

    qualname = "DBFSStore._put"

    def make_args(self, eng):
        return {"self": self.self_obj(), "p": URI.const("p"), "blob": CONTENT.const("blob")}

    def requires(self, ctx):
        return self.common_requires(ctx)

    def ensures(self, ctx):
        st0, st1 = ctx.old_globals["__dbfs__"], ctx.globals["__dbfs__"]
        u, c = ctx.args["p"].term, ctx.args["blob"].term
        return [("writes_exactly_p", z3.And(st1.exists == z3.Store(st0.exists, u, z3.BoolVal(True)), st1.content == z3.Store(st0.content, u, c)))]

    def signals(self, ctx):
        return [("never_raises_for_an_existing_target", False)]


class dbfs_fetch_meta(_Dbfs):
    """_fetch_meta(key): parsed metadata, None iff the metadata object does not exist; no effect; never raises"""

    qualname = "DBFSStore._fetch_meta"

    def make_args(self, eng):
        return {"self": self.self_obj(), "key": KEY.const("key")}

    def requires(self, ctx):
        return self.common_requires(ctx)

    def ensures(self, ctx):
        st0, st1 = ctx.old_globals["__dbfs__"], ctx.globals["__dbfs__"]
        u = BLOBMETA(ctx.args["key"].term)
        r = ctx.result
        if r is None:
            got = z3.Not(st0.exists[u])
        elif isinstance(r, ObjVal) and r.cls == "jsonobj":
            got = z3.And(st0.exists[u], r.fields["src"].term == st0.content[u])
        else:
            got = False
        return [("metadata_iff_present", got), ("no_effect", z3.And(st1.exists == st0.exists, st1.content == st0.content))]

    def signals(self, ctx):
        return [("never_raises", False)]


class dbfs_has_blob(_Dbfs):
    """presence by metadata: has_blob(key) iff the metadata object of the key exists"""

    qualname = "DBFSStore.has_blob"

    def make_args(self, eng):
        return {"self": self.self_obj(), "key": KEY.const("key")}

    def requires(self, ctx):
        return self.common_requires(ctx)

    def ensures(self, ctx):
        st0, st1 = ctx.old_globals["__dbfs__"], ctx.globals["__dbfs__"]
        r = ctx.result
        rt = TBool.lift(r).term
        return [("present_iff_metadata_exists", rt == st0.exists[BLOBMETA(ctx.args["key"].term)]), ("no_effect", z3.And(st1.exists == st0.exists, st1.content == st0.content))]

    def signals(self, ctx):
        return [("never_raises", False)]


class dbfs_sync_paths(_Dbfs):
    """sync_paths(m) under the three commit types.
    none:        nothing under the data directory (nothing at all) is written
    links_only:  every path of m has a record naming m[path]; no copy is made
    full:        every path of m has a record naming m[path] and a byte-identical copy of that blob
    Everything else is untouched.  Hypotheses: LAYOUT-INJ, records well-formed, committed blobs present (COMMIT-PRESENT),
    no pyspark blob (that branch needs a Spark session: not modelled)."""

    qualname = "DBFSStore.sync_paths"

    def __init__(self):
        super().__init__()
        self.loops[0] = LoopSpec(invariant=self.inv)

    def make_args(self, eng):
        return {"self": self.self_obj(), "paths": MapVal.named("m", PATH, KEY, with_keys=True, ordered=True)}

    def requires(self, ctx):
        st = ctx.globals["__dbfs__"]
        m = ctx.args["paths"]
        q = z3.Const(sv.fresh_name("q"), PS_)
        k = z3.Const(sv.fresh_name("k"), K)
        return self.common_requires(ctx) + [
            ("records_well_formed", self.records_wf(st)),
            ("REP-FULL", self.copies_present(st)),
            ("committed_blobs_exist", z3.ForAll([q], z3.Implies(m.has(q), z3.And(st.exists[BLOB(m.get(q))], st.exists[BLOBMETA(m.get(q))], IS_META(st.content[BLOBMETA(m.get(q))]))))),
        ]

    def seen(self, m, k, q):
        j = z3.Int(sv.fresh_name("j"))
        return z3.Exists([j], z3.And(0 <= j, j < k, m.keys[j] == q))

    def state_rel(self, ctx, st1, k):
        st0 = ctx.old_globals["__dbfs__"]
        m = ctx.old["paths"]
        ct = ctx.args["self"].fields["_commit_type"].term
        q = z3.Const(sv.fresh_name("q"), PS_)
        kk = z3.Const(sv.fresh_name("kk"), K)
        u = z3.Const(sv.fresh_name("u"), U)
        none, links, full = ct == idx(CT.NO_COMMIT), ct == idx(CT.LINK_ONLY), ct == idx(CT.FULL)
        rec = st1.content[REDIR(q)]
        return [
            ("none_writes_nothing", z3.Implies(none, z3.And(st1.exists == st0.exists, st1.content == st0.content))),
            ("every_committed_path_has_a_record_naming_its_key", z3.Implies(z3.Not(none), z3.ForAll([q], z3.Implies(self.seen(m, k, q), z3.And(st1.exists[REDIR(q)], IS_REC(rec), REC_KEY(rec) == m.get(q)))))),
            ("full_leaves_a_byte_identical_copy", z3.Implies(full, z3.ForAll([q], z3.Implies(self.seen(m, k, q), z3.And(st1.exists[OBJ(q)], st1.content[OBJ(q)] == st0.content[BLOB(m.get(q))]))))),
            ("links_only_writes_no_copy", z3.Implies(links, z3.ForAll([q], st1.same_at(st0, OBJ(q))))),
            ("other_paths_untouched", z3.ForAll([q], z3.Implies(z3.Not(self.seen(m, k, q)), z3.And(st1.same_at(st0, REDIR(q)), st1.same_at(st0, OBJ(q)))))),
            ("blob_area_untouched", z3.ForAll([kk], z3.And(st1.same_at(st0, BLOB(kk)), st1.same_at(st0, BLOBMETA(kk))))),
            ("nothing_else_written", z3.ForAll([u], z3.Implies(z3.ForAll([q], z3.And(u != REDIR(q), u != OBJ(q))), st1.same_at(st0, u)))),
            ("records_stay_well_formed", self.records_wf(st1)),
            ("REP-FULL_preserved", self.copies_present(st1)),
        ]

    def inv(self, ctx, env, k):
        return self.state_rel(ctx, ctx.globals["__dbfs__"], k)

    def ensures(self, ctx):
        m = ctx.old["paths"]
        return self.state_rel(ctx, ctx.globals["__dbfs__"], z3.Length(m.keys))

    def signals(self, ctx):
        return [("commit_of_present_blobs_raises_nothing", False)]


class dbfs_fetch_paths(_Dbfs):
    """fetch_paths(ps): the key named by the record of each path; raises (whatever dbutils raised) when a record is missing;
    no effect"""

    qualname = "DBFSStore.fetch_paths"

    def __init__(self):
        super().__init__()
        self.loops[0] = LoopSpec(invariant=self.inv)
        self.globals["OrderedDict"] = Model(lambda eng, a, k, n: MapVal.empty(PATH, KEY, with_keys=True, ordered=True), "OrderedDict()")

    def make_args(self, eng):
        return {"self": self.self_obj(), "paths": TSeq(PATH).const("ps")}

    def requires(self, ctx):
        st = ctx.globals["__dbfs__"]
        return self.common_requires(ctx) + [("records_well_formed", self.records_wf(st))]

    def inv(self, ctx, env, k):
        st0, st1 = ctx.old_globals["__dbfs__"], ctx.globals["__dbfs__"]
        ps = ctx.args["paths"].term
        res = env["res"]
        q = z3.Const(sv.fresh_name("q"), PS_)
        j = z3.Int(sv.fresh_name("j"))
        return [
            ("no_effect", z3.And(st1.exists == st0.exists, st1.content == st0.content)),
            ("resolved_so_far", z3.ForAll([j], z3.Implies(z3.And(0 <= j, j < k), z3.And(res.has(ps[j]), st0.exists[REDIR(ps[j])], res.get(ps[j]) == REC_KEY(st0.content[REDIR(ps[j])]))))),
            ("only_requested", z3.ForAll([q], z3.Implies(res.has(q), z3.Exists([j], z3.And(0 <= j, j < k, ps[j] == q))))),
        ]

    def ensures(self, ctx):
        st0, st1 = ctx.old_globals["__dbfs__"], ctx.globals["__dbfs__"]
        ps = ctx.args["paths"].term
        res = ctx.result
        j = z3.Int(sv.fresh_name("j"))
        q = z3.Const(sv.fresh_name("q"), PS_)
        n = z3.Length(ps)
        return [
            ("every_path_resolves_to_its_record_key", z3.ForAll([j], z3.Implies(z3.And(0 <= j, j < n), z3.And(res.has(ps[j]), res.get(ps[j]) == REC_KEY(st0.content[REDIR(ps[j])]))))),
            ("only_requested", z3.ForAll([q], z3.Implies(res.has(q), z3.Exists([j], z3.And(0 <= j, j < n, ps[j] == q))))),
            ("no_effect", z3.And(st1.exists == st0.exists, st1.content == st0.content)),
        ]

    def signals(self, ctx):
        st0, st1 = ctx.old_globals["__dbfs__"], ctx.globals["__dbfs__"]
        ps = ctx.args["paths"].term
        j = z3.Int(sv.fresh_name("j"))
        return [
            ("raises_only_for_a_missing_record", z3.Exists([j], z3.And(0 <= j, j < z3.Length(ps), z3.Not(st0.exists[REDIR(ps[j])])))),
            ("no_effect", z3.And(st1.exists == st0.exists, st1.content == st0.content)),
        ]


class dbfs_store_blob(_Dbfs):
    """store_blob(key, v, codec): the blob object holds what the selected codec writes for v, the metadata object names
    that codec's reference (written last); nothing else changes; the only error is PROTOCOL_NOT_FOUND for an unregistered
    reference, before anything is written"""

    qualname = "DBFSStore.store_blob"

    def make_args(self, eng):
        return {"self": self.self_obj(), "key": KEY.const("key"), "blob": ANY.const("blob"), "codec": self.codec_arg()}

    def codec_arg(self):
        return None

    def requires(self, ctx):
        return self.common_requires(ctx)

    def chosen(self, ctx):
        c = ctx.args["codec"]
        return c.term if isinstance(c, Sym) else REF_FOR_TYPE(TYPEOF(ctx.args["blob"].term))

    def ensures(self, ctx):
        st0, st1 = ctx.old_globals["__dbfs__"], ctx.globals["__dbfs__"]
        k, v = ctx.args["key"].term, ctx.args["blob"].term
        r = self.chosen(ctx)
        u = z3.Const(sv.fresh_name("u"), U)
        meta = st1.content[BLOBMETA(k)]
        return [
            ("blob_object_is_the_codec_encoding", z3.And(st1.exists[BLOB(k)], st1.content[BLOB(k)] == ENCK(KIND_OF(r), v))),
            ("metadata_names_the_codec_that_wrote", z3.And(st1.exists[BLOBMETA(k)], IS_META(meta), PROTO(meta) == r)),
            ("a_later_fetch_decodes_the_stored_value", DECK(KIND_OF(PROTO(meta)), st1.content[BLOB(k)]) == v),
            ("nothing_else_written", z3.ForAll([u], z3.Implies(z3.And(u != BLOB(k), u != BLOBMETA(k)), st1.same_at(st0, u)))),
            ("metadata_is_written_after_the_blob", self.meta_last(ctx)),
        ]

    def meta_last(self, ctx):
        evs = [e for e in ctx.events if e.kind in ("dbfs:put", "dbfs:cp", "dbfs:codec_write")]
        return len(evs) == 2 and evs[-1].kind == "dbfs:put"

    def signals(self, ctx):
        st0, st1 = ctx.old_globals["__dbfs__"], ctx.globals["__dbfs__"]
        c = ctx.args["codec"]
        e = ctx.exc
        return [
            ("only_for_an_unregistered_reference", isinstance(c, Sym) and e.cls is DS.DDSException and z3.Not(REGISTERED(c.term))),
            ("nothing_written", z3.And(st1.exists == st0.exists, st1.content == st0.content)),
        ]


class dbfs_store_blob_with_ref(dbfs_store_blob):
    variant = "codec reference given"

    def codec_arg(self):
        return NAME.const("codec")


class dbfs_fetch_blob(_Dbfs):
    """fetch_blob(key): None when the key has no metadata; otherwise the blob object decoded by the codec that the
    metadata's reference denotes (legacy references included: KIND_OF); no effect"""

    qualname = "DBFSStore.fetch_blob"

    def make_args(self, eng):
        return {"self": self.self_obj(), "key": KEY.const("key")}

    def requires(self, ctx):
        st = ctx.globals["__dbfs__"]
        k = ctx.args["key"].term
        return self.common_requires(ctx) + [
            # REP-BLOB: metadata is written after its blob, and is a metadata record
            ("metadata_implies_blob", z3.Implies(st.exists[BLOBMETA(k)], z3.And(st.exists[BLOB(k)], IS_META(st.content[BLOBMETA(k)])))),
        ]

    def ensures(self, ctx):
        st0, st1 = ctx.old_globals["__dbfs__"], ctx.globals["__dbfs__"]
        k = ctx.args["key"].term
        r = ctx.result
        meta = st0.content[BLOBMETA(k)]
        if r is None:
            val = z3.Not(st0.exists[BLOBMETA(k)])
        elif isinstance(r, Sym) and r.ty == ANY:
            val = z3.And(st0.exists[BLOBMETA(k)], r.term == DECK(KIND_OF(PROTO(meta)), st0.content[BLOB(k)]))
        else:
            val = False
        return [("decoded_by_the_codec_the_metadata_names", val), ("no_effect", z3.And(st1.exists == st0.exists, st1.content == st0.content))]

    def signals(self, ctx):
        st0, st1 = ctx.old_globals["__dbfs__"], ctx.globals["__dbfs__"]
        k = ctx.args["key"].term
        e = ctx.exc
        return [
            ("only_for_an_unregistered_reference", e.cls is DS.DDSException and z3.And(st0.exists[BLOBMETA(k)], z3.Not(REGISTERED(PROTO(st0.content[BLOBMETA(k)]))))),
            ("no_effect", z3.And(st1.exists == st0.exists, st1.content == st0.content)),
        ]


SPECS = [dbfs_store_blob, dbfs_store_blob_with_ref, dbfs_fetch_blob, dbfs_head, dbfs_put, dbfs_fetch_meta, dbfs_has_blob, dbfs_sync_paths, dbfs_fetch_paths]
