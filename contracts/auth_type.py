"""Contract for dds/_retrieve_objects.py:_is_authorized_type -- which value types are tracked as module variables (C01, C14).

One variant per class of a fixed list (the class is a concrete Python object; the options and the registry of accepted
packages are symbolic), stating the documented table:

  None, int, float, str, bytes, bool, NoneType, PurePosixPath, FunctionType, ModuleType   tracked, whatever the options
  list, tuple                     tracked iff the option accept_list is on
  dict, OrderedDict               tracked iff the option accept_dict is on
  any other class                 not tracked when its module is not accepted (or it has none);
                                  a coded DDS error (AUTHORIZED_TYPE_NOT_UNDERSTOOD) when its module is accepted

so that e.g. a set, a frozenset or a concrete pathlib.Path never becomes a tracked value silently.
"""
import collections
import datetime
import decimal
import pathlib
import types

import z3

from .common import *
from pyvc.engine import _Raise, _PathEnd
import dds.structures as DS
import dds._config as CFG

ALWAYS = [None, int, float, str, bytes, bool, type(None), pathlib.PurePosixPath, types.FunctionType, types.ModuleType]
IF_LIST = [list, tuple]
IF_DICT = [dict, collections.OrderedDict]
OTHER = [set, frozenset, pathlib.PosixPath, pathlib.PurePath, complex, bytearray, range, datetime.date, decimal.Decimal, collections.defaultdict, collections.deque, object, type]


class _AuthType(FnSpec):
    file, qualname = "dds/_retrieve_objects.py", "_is_authorized_type"
    may_raise = True
    tpe = None

    def __init__(self):
        super().__init__()
        g = self.globals
        g["get_option"] = Model(self.m_get_option, "get_option")
        g["accept_list_option"] = "accept_list"
        g["accept_dict_option"] = "accept_dict"
        g["inspect"] = ObjVal("inspect")
        self.classes["inspect"] = {"getmodule": Model(self.m_getmodule, "inspect.getmodule")}
        g["_mod_path"] = Model(lambda eng, a, k, n: Opaque("module path"), "_mod_path")
        g["issubclass"] = Model(lambda eng, a, k, n: issubclass(a[0], a[1]), "issubclass")
        g["int"], g["float"], g["str"], g["bytes"], g["bool"] = int, float, str, bytes, bool
        g["type"] = Model(lambda eng, a, k, n: type(a[0]), "type")
        g["list"], g["tuple"], g["dict"], g["object"] = list, tuple, dict, object
        g["OrderedDict"] = collections.OrderedDict
        g["PurePosixPath"] = pathlib.PurePosixPath
        g["FunctionType"], g["ModuleType"] = types.FunctionType, types.ModuleType
        g["DDSException"], g["DDSErrorCode"] = DS.DDSException, DS.DDSErrorCode
        self.classes["gctx"] = {"is_authorized_path": Model(lambda eng, a, k, n: self.mod_accepted, "contract:is_authorized_path")}
        self.accept_list = TBool.const("option_accept_list")
        self.accept_dict = TBool.const("option_accept_dict")
        self.has_module = TBool.const("class_has_a_module")
        self.mod_accepted = TBool.const("module_of_the_class_is_accepted")

    def m_get_option(self, eng, args, kwargs, node):
        if args[0] == "accept_list":
            return self.accept_list
        if args[0] == "accept_dict":
            return self.accept_dict
        raise OutOfSubset("get_option(%r)" % (args[0],))

    def m_getmodule(self, eng, args, kwargs, node):
        if eng.choose(self.has_module.term):
            return ObjVal("module")
        return None

    def contains(self, eng, container, x, node):
        # membership of a concrete class in a tuple of concrete classes
        if isinstance(container, tuple) and all(isinstance(c, type) or c is None for c in container) and (isinstance(x, type) or x is None):
            return any(x is c for c in container)
        return super().contains(eng, container, x, node)

    def make_args(self, eng):
        return {"tpe": self.tpe, "gctx": ObjVal("gctx")}

    def expected(self):
        """True / False / z3 Bool: tracked?   None: must be a coded error when the module is accepted"""
        t = self.tpe
        if any(t is c for c in ALWAYS):
            return True
        if any(t is c for c in IF_LIST):
            return self.accept_list.term
        if any(t is c for c in IF_DICT):
            return self.accept_dict.term
        return None

    def ensures(self, ctx):
        r = ctx.result
        rt = r.term if isinstance(r, Sym) else z3.BoolVal(bool(r))
        exp = self.expected()
        if exp is None:
            return [("an_undocumented_type_is_not_tracked", z3.And(z3.Not(rt), z3.Or(z3.Not(self.has_module.term), z3.Not(self.mod_accepted.term))))]
        return [("tracked_exactly_as_documented", rt == (z3.BoolVal(exp) if isinstance(exp, bool) else exp))]

    def signals(self, ctx):
        e = ctx.exc
        exp = self.expected()
        return [
            ("only_the_coded_error", e.cls is DS.DDSException and e.code == DS.DDSErrorCode.AUTHORIZED_TYPE_NOT_UNDERSTOOD),
            # (a list / dict type whose option is off is treated like any undocumented type)
            ("only_for_an_undocumented_type_of_an_accepted_module", (exp is None or not isinstance(exp, bool)) and z3.And(z3.BoolVal(True) if exp is None else z3.Not(exp), self.has_module.term, self.mod_accepted.term)),
        ]


def _mk(t):
    name = "None" if t is None else t.__name__
    return type("auth_type_%s" % name, (_AuthType,), {"tpe": t, "variant": "tpe = %s" % name})


SPECS = [_mk(t) for t in ALWAYS + IF_LIST + IF_DICT + OTHER]
