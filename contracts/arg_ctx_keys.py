"""Contracts for dds/structures.py:FunctionArgContext.as_hashable / relevant_keys (C13, C01).

as_hashable is the key of the per-evaluation analysis cache (_introspect_fun): two argument contexts get the same key only if
they have the same call-site context and the same (name, hash) entries in the same order -- stated as: the result IS the
pair (inner_call_key, the entries as a tuple).
relevant_keys is what enters the signature: all entries when every argument hash is known, else the call-site context
alone (nothing when there is none).
"""
import z3

from .common import *
from pyvc.engine import _Raise, _PathEnd
from pyvc.spec import CompSpec, ItemsIter

NAMEK = TStr
OPT_KEY = TOpt(KEY)
ENTRY = TTup(NAMEK, OPT_KEY)
SEQ_ENTRY = TSeq(ENTRY)
PAIR = TTup(NAMEK, KEY)
ENTRIES = z3.Function("entries_of_named_args", z3.SeqSort(NAMEK.sort()), z3.ArraySort(NAMEK.sort(), OPT_KEY.sort()), SEQ_ENTRY.sort())
ISNONE = z3.Function("entry_hash_is_none_flags", SEQ_ENTRY.sort(), z3.SeqSort(z3.BoolSort()))


def entries_axioms():
    ks = z3.Const("ks_", z3.SeqSort(NAMEK.sort()))
    vs = z3.Const("vs_", z3.ArraySort(NAMEK.sort(), OPT_KEY.sort()))
    sq = z3.Const("sq_", SEQ_ENTRY.sort())
    i = z3.Int("i_")
    return [
        z3.ForAll([ks, vs], z3.Length(ENTRIES(ks, vs)) == z3.Length(ks)),
        z3.ForAll([ks, vs, i], z3.Implies(z3.And(0 <= i, i < z3.Length(ks)), ENTRIES(ks, vs)[i] == ENTRY.mk(ks[i], z3.Select(vs, ks[i])))),
        z3.ForAll([sq], z3.Length(ISNONE(sq)) == z3.Length(sq)),
        z3.ForAll([sq, i], z3.Implies(z3.And(0 <= i, i < z3.Length(sq)), ISNONE(sq)[i] == OPT_KEY.is_none(ENTRY.get(sq[i], 1)))),
        # any(flags): some flag is set (sequence membership restated over indices)
        z3.ForAll([sq], z3.Contains(ISNONE(sq), z3.Unit(z3.BoolVal(True))) == z3.Exists([i], z3.And(0 <= i, i < z3.Length(sq), OPT_KEY.is_none(ENTRY.get(sq[i], 1))))),
    ]


def fac_obj():
    return ObjVal("FunctionArgContext", named_args=MapVal.named("named_args", NAMEK, OPT_KEY, with_keys=True, ordered=True), inner_call_key=OPT_KEY.const("inner_call_key"))


class _Base(FnSpec):
    file = "dds/structures.py"

    def __init__(self):
        super().__init__()
        g = self.globals
        g["tuple"] = Model(self.m_tuple, "tuple")
        g["FunctionArgContextHash"] = Model(lambda eng, a, k, n: a[0], "FunctionArgContextHash")
        g["ArgName"] = Model(lambda eng, a, k, n: a[0], "ArgName")

    def m_tuple(self, eng, args, kwargs, node):
        it = args[0]
        if isinstance(it, ItemsIter):
            return Sym(ENTRIES(it.m.keys, it.m.val), SEQ_ENTRY)
        raise OutOfSubset("tuple(%r)" % (it,))

    def requires(self, ctx):
        return [("entries_%d" % i, a) for i, a in enumerate(entries_axioms())]

    def entries(self, ctx, which):
        m = ctx.args[which].fields["named_args"]
        return ENTRIES(m.keys, m.val)


class as_hashable(_Base):
    qualname = "FunctionArgContext.as_hashable"

    def make_args(self, eng):
        return {"cls": ObjVal("FunctionArgContextCls"), "arg_ctx": fac_obj()}

    def ensures(self, ctx):
        r = ctx.result
        ok = isinstance(r, tuple) and len(r) == 2 and isinstance(r[0], Sym) and isinstance(r[1], Sym)
        if not ok:
            return [("the_key_is_the_pair_of_context_and_entries", False)]
        return [
            ("the_key_holds_the_call_site_context", r[0].term == ctx.args["arg_ctx"].fields["inner_call_key"].term),
            ("the_key_holds_every_entry_in_order", r[1].term == self.entries(ctx, "arg_ctx")),
        ]


class relevant_keys(_Base):
    qualname = "FunctionArgContext.relevant_keys"

    def __init__(self):
        super().__init__()
        # 0: [(s, key) for (s, key) in fac.named_args.items()]   1: [key is None for (_, key) in keys]
        self.comps[0] = CompSpec(elem=lambda item: Sym(ENTRY.mk(item[0].term, item[1].term), ENTRY), result=lambda it: Sym(self.entries(self.ctx, "fac"), SEQ_ENTRY))
        self.comps[1] = CompSpec(elem=lambda item: Sym(OPT_KEY.is_none(ENTRY.get(item.term, 1)), TBool), result=lambda it: Sym(ISNONE(self.entries(self.ctx, "fac")), TSeq(TBool)))

    def make_args(self, eng):
        return {"fac": fac_obj()}

    def all_known(self, ctx):
        e = self.entries(ctx, "fac")
        i = z3.Int(sv.fresh_name("i"))
        return z3.ForAll([i], z3.Implies(z3.And(0 <= i, i < z3.Length(e)), z3.Not(OPT_KEY.is_none(ENTRY.get(e[i], 1)))))

    def ensures(self, ctx):
        r = ctx.result
        e = self.entries(ctx, "fac")
        ick = ctx.args["fac"].fields["inner_call_key"]
        known = self.all_known(ctx)
        if isinstance(r, Sym) and r.ty == SEQ_ENTRY:
            return [("every_entry_when_all_hashes_are_known", z3.And(known, r.term == e))]
        items = r.items if isinstance(r, ListVal) else None
        if items is not None and len(items) == 0:
            return [("nothing_only_without_context_and_with_an_unknown_hash", z3.And(z3.Not(known), OPT_KEY.is_none(ick.term)))]
        if items is not None and len(items) == 1:
            n, k = items[0]
            kt = k.term if k.ty == KEY else OPT_KEY.val(k.term)
            return [("the_context_alone_when_some_hash_is_unknown", z3.And(z3.Not(known), z3.Not(OPT_KEY.is_none(ick.term)), n == "__context__", kt == OPT_KEY.val(ick.term)))]
        return [("result_shape", False)]


SPECS = [as_hashable, relevant_keys]
