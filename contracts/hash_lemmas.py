"""Injectivity lemmas over the pre-image shapes of spec_hash (C05, INJ matrix).

spec_hash(v) = SHA(pre(v)); with A-H1 (sha256 injective) two values collide iff their pre-images are equal.
The lemmas below show pre-images of different constructor classes (and, per class, of different payloads) differ,
from the byte-length / alphabet facts of the encoders (A-PACK, A-UTF8, A-H2).  Pairs involving `str` are NOT
provable -- a string can spell any pre-image -- and are reported by the bounded check as known findings.
"""
import z3

from pyvc import sv
from pyvc.engine import Obligation
from .pyval import *

BLEN = z3.Function("byte_len", B, I)


def _enc_axioms():
    i = z3.Int("i")
    f = z3.Const("f", FB)
    s = z3.String("s")
    t = z3.String("t")
    return [
        z3.ForAll([i], BLEN(PACKL(i)) == 4),  # A-PACK
        z3.ForAll([f], BLEN(PACKD(f)) == 8),  # A-PACK
        z3.ForAll([s], BLEN(UTF8(s)) >= z3.Length(s)),  # A-UTF8: at least one byte per code point
        BLEN(UTF8(z3.StringVal(""))) == 0,
        z3.ForAll([s, t], z3.Implies(UTF8(s) == UTF8(t), s == t)),  # A-UTF8 injective
        z3.ForAll([i], z3.Length(INTSTR(i)) >= 1),
    ]


def _lemma(name, hyps, goal):
    return Obligation("C05.INJ#" + name, "lemma", 0, _enc_axioms() + hyps, goal, 0)


def lemmas():
    out = []
    i, j = z3.Int("i"), z3.Int("j")
    f, g = z3.Const("f", FB), z3.Const("g", FB)
    n = z3.Int("n")
    txt = z3.String("list_text")  # "|".join of n 64-character hex digests
    hexd = z3.Union(z3.Range("0", "9"), z3.Range("a", "f"))
    list_shape = [n >= 0, z3.If(n == 0, z3.Length(txt) == 0, z3.Length(txt) == 65 * n - 1), z3.Implies(n > 0, z3.InRe(z3.SubString(txt, 0, 1), hexd))]
    none_pre = UTF8(z3.StringVal(NONE_MARKER))
    big = lambda k: UTF8(z3.Concat(z3.StringVal(BIGINT_MARKER), INTSTR(k)))
    out.append(_lemma("int32_vs_float", [], PACKL(i) != PACKD(f)))
    out.append(_lemma("int32_vs_none", [], PACKL(i) != none_pre))
    out.append(_lemma("float_vs_none", [], PACKD(f) != none_pre))
    out.append(_lemma("int32_vs_list", list_shape, PACKL(i) != UTF8(txt)))
    out.append(_lemma("float_vs_list", list_shape, PACKD(f) != UTF8(txt)))
    out.append(_lemma("none_vs_list", list_shape, none_pre != UTF8(txt)))
    out.append(_lemma("bigint_vs_int32", [], big(i) != PACKL(j)))
    out.append(_lemma("bigint_vs_float", [], big(i) != PACKD(f)))
    out.append(_lemma("bigint_vs_none", [], big(i) != none_pre))
    out.append(_lemma("bigint_vs_list", list_shape, big(i) != UTF8(txt)))
    # same class, different payload
    out.append(_lemma("int32_vs_int32", [z3.ForAll([i, j], z3.Implies(z3.And(in32(i), in32(j), PACKL(i) == PACKL(j)), i == j)), in32(i), in32(j), i != j], PACKL(i) != PACKL(j)))
    out.append(_lemma("bigint_vs_bigint", [z3.ForAll([i, j], z3.Implies(INTSTR(i) == INTSTR(j), i == j)), i != j], big(i) != big(j)))
    # list vs list: positional decomposition of the join over fixed-width digests (inductive step and length base)
    a, b2, r1, r2 = z3.String("a"), z3.String("b"), z3.String("r1"), z3.String("r2")
    bar = z3.StringVal("|")
    out.append(
        Obligation(
            "C05.INJ#join_step_fixed_width",
            "lemma",
            0,
            [z3.Length(a) == 64, z3.Length(b2) == 64, z3.Concat(a, bar, r1) == z3.Concat(b2, bar, r2)],
            z3.And(a == b2, r1 == r2),
            0,
        )
    )
    m = z3.Int("m")
    out.append(Obligation("C05.INJ#join_length_determines_count", "lemma", 0, [n >= 1, m >= 1, 65 * n - 1 == 65 * m - 1], n == m, 0))
    return out
