"""Contracts for the signature combiner and composition (C03, C01, C02):
dds/fun_args.py:dds_hash_commut, dds/introspect.py:_fis_to_siglist, _build_return_sig."""
import z3

from .common import *
from .pyval import *
from .hashing import _HashSpec, code_term
from pyvc.engine import _Raise, _PathEnd
from pyvc.spec import CompSpec
import dds.structures as DS

PAIR = TTup(TStr, TStr)  # (HashKey, PyHash)
SeqPair = TSeq(PAIR)
OPT_S = TOpt(TStr)

# ---- combiner algebra (DESIGN 4.4) -----------------------------------------------------------------
CONCAT_B = _HashSpec.CONCAT_B
PARSE = z3.Function("int_base16", S, I)  # int(s, 16)
PARSABLE = z3.Function("is_hex", S, z3.BoolSort())
HEXFMT = z3.Function("hex_format", I, S)  # "{:x}".format(n)
from pyvc.spec import XOR

XF = z3.Function("xor_fold", SeqPair.sort(), I, I)  # xor of int(digest(i[j]),16) for j < n
DHC = z3.Function("spec_hash_commut", SeqPair.sort(), OPT_S.sort())


def DG(k, v):
    """digest(kv): sha256(utf8(key) + utf8(value)).hexdigest()  (no separator: A-H3)"""
    return SHA(CONCAT_B(UTF8(k), UTF8(v)))


def dg_of(t):
    return DG(PAIR.get(t, 0), PAIR.get(t, 1))


def combiner_axioms(i):
    n = z3.Int(sv.fresh_name("n"))
    a, b = z3.Int(sv.fresh_name("a")), z3.Int(sv.fresh_name("b"))
    k, v = z3.String(sv.fresh_name("k")), z3.String(sv.fresh_name("v"))
    return [
        ("A-H2 digest is hex", z3.ForAll([k, v], z3.And(PARSABLE(DG(k, v)), PARSE(DG(k, v)) >= 0))),
        ("hex_format / int(.,16) inverse on naturals", z3.ForAll([n], z3.Implies(n >= 0, z3.And(PARSABLE(HEXFMT(n)), PARSE(HEXFMT(n)) == n)))),
        ("xor closed on naturals", z3.ForAll([a, b], z3.Implies(z3.And(a >= 0, b >= 0), XOR(a, b) >= 0))),
        ("xor_fold base", XF(i, 1) == PARSE(dg_of(i[0]))),
        ("xor_fold step", z3.ForAll([n], z3.Implies(z3.And(n >= 1, n < z3.Length(i)), XF(i, n + 1) == XOR(XF(i, n), PARSE(dg_of(i[n])))))),
        ("xor_fold natural", z3.ForAll([n], z3.Implies(z3.And(n >= 1, n <= z3.Length(i)), XF(i, n) >= 0))),
    ]


def commut_value(i):
    """the exact string dds_hash_commut returns for a non-empty list (byte format pinned)"""
    n = z3.Length(i)
    return z3.If(n == 1, dg_of(i[0]), HEXFMT(XF(i, n)))


class dds_hash_commut(_HashSpec):
    qualname = "dds_hash_commut"

    def __init__(self):
        super().__init__()
        self.loops[0] = LoopSpec(invariant=self.inv)
        self.globals["int"] = Model(self.m_int, "int")
        self.globals["PyHash"] = Model(lambda eng, a, k, n: a[0], "PyHash")

    def m_int(self, eng, args, kwargs, node):
        s = TStr.lift(args[0]).term
        if len(args) == 2 and args[1] == 16:
            eng.oblige("int_base16_argument_is_hex", PARSABLE(s), kind="safety:ValueError", node=node)
            return Sym(PARSE(s), TInt)
        raise OutOfSubset("int() form at line %s" % node.lineno)

    def method_other(self, eng, recv, name, args, kwargs, node):
        if recv == "{:x}" and name == "format":
            return Sym(HEXFMT(TInt.lift(args[0]).term), TStr)
        return super().method_other(eng, recv, name, args, kwargs, node)

    def make_args(self, eng):
        return {"i": SeqPair.const("i")}

    def requires(self, ctx):
        return combiner_axioms(ctx.args["i"].term)

    def inv(self, ctx, env, k):
        i = ctx.args["i"].term
        res = TStr.lift(env["res"]).term
        return [
            ("res_is_fold_so_far", res == z3.If(k == 0, dg_of(i[0]), HEXFMT(XF(i, k + 1)))),
            ("res_is_hex", PARSABLE(res)),
            ("res_value", PARSE(res) == XF(i, k + 1)),
        ]

    def ensures(self, ctx):
        i = ctx.args["i"].term
        r = OPT_S.lift(ctx.result).term
        return [
            ("None_iff_empty", OPT_S.is_none(r) == (z3.Length(i) == 0)),
            ("pinned_value", z3.Implies(z3.Length(i) > 0, OPT_S.val(r) == commut_value(i))),
        ]


# ---------------------------------------------------------------------------------------------------
# _fis_to_siglist / _build_return_sig
# ---------------------------------------------------------------------------------------------------
FIS = TRec("FIS", fun_return_sig=TStr)  # the only field of FunctionInteractions the composition reads
SeqFIS = TSeq(FIS)
FUNDEPS = z3.Function("spec_fun_dep_pairs", SeqFIS.sort(), SeqPair.sort())  # [("fun_dep_<idx>", fis[idx].fun_return_sig)]
SeqS_ = z3.SeqSort(S)
ArrSS = z3.ArraySort(S, S)
DEPS = z3.Function("spec_dep_pairs", SeqS_, ArrSS, SeqPair.sort())  # [("dep_<p>", sig)] in insertion order
EXTDEPS = z3.Function("spec_ext_dep_pairs", SeqS_, ArrSS, SeqPair.sort())  # [("ext_dep_<lp>", hash(canonical path))]
EXTVARS = z3.Function("spec_ext_var_pairs", SeqS_, ArrSS, SeqPair.sort())  # [("ext_variable_<lp>", sig)]
NAMED = TSeq(TTup(TStr, OPT_S))
ARGS = z3.Function("spec_arg_pairs", NAMED.sort(), SeqPair.sort())  # [("arg_<name>", sig)]
ANYNONE = z3.Function("spec_some_arg_unknown", NAMED.sort(), z3.BoolSort())
SNDS = z3.Function("spec_named_values", NAMED.sort(), z3.SeqSort(OPT_S.sort()))
ISNONES = z3.Function("spec_is_none_flags", z3.SeqSort(OPT_S.sort()), z3.SeqSort(z3.BoolSort()))


def mkpair(k, v):
    return PAIR.mk(k, v)


class fis_to_siglist(FnSpec):
    file, qualname = "dds/introspect.py", "_fis_to_siglist"

    def __init__(self):
        super().__init__()
        self.globals["HK"] = Model(lambda eng, a, k, n: a[0], "HK")
        self.comps[0] = CompSpec(
            elem=lambda item: Sym(mkpair(z3.Concat(z3.StringVal("fun_dep_"), z3.IntToStr(item[0].term)), FIS.get(item[1].term, "fun_return_sig").term), PAIR),
            result=lambda it: Sym(FUNDEPS(self.ctx.args["fis"].term), SeqPair),
        )

    def make_args(self, eng):
        return {"fis": SeqFIS.const("fis")}

    def ensures(self, ctx):
        return [("indexed_fun_dep_pairs", SeqPair.lift(ctx.result).term == FUNDEPS(ctx.args["fis"].term))]


class NamedArgs:
    """arg_ctx.named_args: OrderedDict[name, Optional[hash]] as its item sequence"""

    def __init__(self, term):
        self.term = term


class build_return_sig(FnSpec):
    """result == spec_hash_commut(body ++ arg ++ deps ++ fun_deps ++ ext_deps ++ ext_vars); None iff that list is empty.
    Every comprehension's key format and value is checked on the real body (comprehension contracts)."""

    file, qualname = "dds/introspect.py", "_build_return_sig"

    def __init__(self):
        super().__init__()
        g = self.globals
        g["HK"] = Model(lambda eng, a, k, n: a[0], "HK")
        g["cast"] = Model(lambda eng, a, k, n: self.m_cast(eng, a, n), "cast")
        g["_fis_to_siglist"] = Model(lambda eng, a, k, n: Sym(FUNDEPS(a[0].term), SeqPair), "contract:_fis_to_siglist")
        g["dds_hash"] = Model(lambda eng, a, k, n: Sym(SH(C["VCanon"](TStr.lift(a[0]).term)), TStr), "contract:dds_hash(CanonicalPath)")
        g["dds_hash_commut"] = Model(self.m_commut, "contract:dds_hash_commut")
        self.classes["FunctionArgContext"] = {}
        self.classes["NamedArgsObj"] = {
            "values": Model(lambda eng, a, k, n: Sym(SNDS(a[0].fields["seq"].term), TSeq(OPT_S)), "values"),
            "items": Model(lambda eng, a, k, n: a[0].fields["seq"], "items"),
        }
        # 0: any(sig is None for sig in arg_ctx.named_args.values())
        self.comps[0] = CompSpec(elem=lambda item: Sym(OPT_S.is_none(item.term), TBool), result=lambda it: Sym(ISNONES(SNDS(self._named())), TSeq(TBool)))
        # 1: [(HK(f"arg_{name}"), cast(PyHash, sig)) for (name, sig) in arg_ctx.named_args.items()]
        self.comps[1] = CompSpec(
            elem=lambda item: Sym(mkpair(z3.Concat(z3.StringVal("arg_"), item.ty.get(item.term, 0)), OPT_S.val(item.ty.get(item.term, 1))), PAIR),
            result=lambda it: Sym(ARGS(self._named()), SeqPair),
        )
        self.comps[2] = self._map_comp("dep_", "indirect_deps", DEPS)
        # 3: ext_deps -> hash of the canonical path
        self.comps[3] = CompSpec(
            elem=lambda item: Sym(mkpair(z3.Concat(z3.StringVal("ext_dep_"), item[0].term), SH(C["VCanon"](item[1].term))), PAIR),
            result=lambda it: Sym(EXTDEPS(self.ctx.args["ext_deps"].keys, self.ctx.args["ext_deps"].val), SeqPair),
        )
        self.comps[4] = self._map_comp("ext_variable_", "ext_vars", EXTVARS)

    def _map_comp(self, prefix, argname, fn):
        return CompSpec(
            elem=lambda item: Sym(mkpair(z3.Concat(z3.StringVal(prefix), item[0].term), item[1].term), PAIR),
            result=lambda it: Sym(fn(self.ctx.args[argname].keys, self.ctx.args[argname].val), SeqPair),
        )

    def _named(self):
        return self.ctx.args["arg_ctx"].fields["named_args"].fields["seq"].term

    def m_cast(self, eng, a, node):
        v = a[1]
        if isinstance(v, Sym) and isinstance(v.ty, TOpt):
            eng.oblige("cast_of_known_hash", z3.Not(v.ty.is_none(v.term)), kind="safety", node=node)
            return Sym(v.ty.val(v.term), v.ty.inner)
        return v

    def m_commut(self, eng, args, kwargs, node):
        s = SeqPair.lift(args[0]).term
        eng.assume(OPT_S.is_none(DHC(s)) == (z3.Length(s) == 0))
        return Sym(DHC(s), OPT_S)

    def method_other(self, eng, recv, name, args, kwargs, node):
        return NotImplemented

    def make_args(self, eng):
        named = ObjVal("NamedArgsObj", seq=NAMED.const("named_args"))
        return {
            "body_sig": OPT_S.const("body_sig"),
            "arg_ctx": ObjVal("FunctionArgContext", named_args=named, inner_call_key=OPT_S.const("inner_call_key")),
            "indirect_deps": MapVal.named("indirect_deps", TStr, TStr, with_keys=True),
            "sub_fis": SeqFIS.const("sub_fis"),
            "ext_deps": MapVal.named("ext_deps", TStr, TStr, with_keys=True),
            "ext_vars": MapVal.named("ext_vars", TStr, TStr, with_keys=True),
        }

    def requires(self, ctx):
        named = self._named()
        flags = ISNONES(SNDS(named))
        i = z3.Int(sv.fresh_name("i"))
        return [
            # definition of the spec-level flags: some argument hash unknown <=> a True flag
            ("def_some_arg_unknown", ANYNONE(named) == z3.Contains(flags, z3.Unit(z3.BoolVal(True)))),
            # a call whose arguments are not all known statically always carries a call-site context key
            # (established by inspect_call; direct calls with **kwargs hit the assert -- outside the stated properties)
            ("context_key_present_when_needed", z3.Implies(ANYNONE(named), z3.Not(OPT_S.is_none(ctx.args["inner_call_key" if False else "arg_ctx"].fields["inner_call_key"].term)))),
            ("arg_pairs_need_known_hashes", z3.Implies(z3.Not(ANYNONE(named)), z3.ForAll([i], z3.Implies(z3.And(0 <= i, i < z3.Length(named)), z3.Not(OPT_S.is_none(NAMED.elt.get(named[i], 1))))))),
        ]

    def spec_pairs(self, ctx):
        a = ctx.args
        named = self._named()
        body = z3.If(OPT_S.is_none(a["body_sig"].term), z3.Empty(SeqPair.sort()), z3.Unit(mkpair(z3.StringVal("body_sig"), OPT_S.val(a["body_sig"].term))))
        ick = a["arg_ctx"].fields["inner_call_key"].term
        arg = z3.If(ANYNONE(named), z3.Unit(mkpair(z3.StringVal("arg_context"), OPT_S.val(ick))), ARGS(named))
        return z3.Concat(
            z3.Concat(z3.Concat(z3.Concat(z3.Concat(body, arg), DEPS(a["indirect_deps"].keys, a["indirect_deps"].val)), FUNDEPS(a["sub_fis"].term)), EXTDEPS(a["ext_deps"].keys, a["ext_deps"].val)),
            EXTVARS(a["ext_vars"].keys, a["ext_vars"].val),
        )

    def ensures(self, ctx):
        P = self.spec_pairs(ctx)
        r = OPT_S.lift(ctx.result).term
        return [("signature_is_commutative_hash_of_all_components", r == z3.If(z3.Length(P) == 0, OPT_S.none(), DHC(P)))]


SPECS = [dds_hash_commut, fis_to_siglist, build_return_sig]
