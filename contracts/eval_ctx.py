"""Contracts for dds/_eval_ctx.py and the accepted-package registry of dds/introspect.py (C14)."""
import z3

from .common import *

PARTS = TUn("Parts")  # the tuple cp._path.parts, opaque
PLEN = z3.Function("parts_len", PARTS.sort(), z3.IntSort())
# ".".join(parts[:k]) for 0 <= k <= len(parts); python slicing clamps k, so the string depends on (parts, min(k, len)) only
PREFIX = z3.Function("dot_prefix", PARTS.sort(), z3.IntSort(), z3.StringSort())


class PrefixVal:
    def __init__(self, parts, k):
        self.parts, self.k = parts, k


def clamp(k, n):
    return z3.If(k < 0, z3.If(n + k < 0, z3.IntVal(0), n + k), z3.If(k > n, n, k))


class _Spec(FnSpec):
    def method_other(self, eng, recv, name, args, kwargs, node):
        if recv == "." and name == "join" and isinstance(args[0], PrefixVal):
            return Sym(PREFIX(args[0].parts, args[0].k), TStr)
        return NotImplemented

    def getslice(self, eng, o, lo, hi, node):
        if isinstance(o, Sym) and o.ty == PARTS and lo is None and hi is not None:
            n = PLEN(o.term)
            return PrefixVal(o.term, clamp(TInt.lift(hi).term, n))
        return super().getslice(eng, o, lo, hi, node)


def m_len_parts(eng, args, kwargs, node):
    v = args[0]
    if isinstance(v, Sym) and v.ty == PARTS:
        return Sym(PLEN(v.term), TInt)
    from pyvc.spec import m_len

    return m_len(eng, args, kwargs, node)


class is_authorized_path(_Spec):
    """result <=> some prefix of the canonical path (0..len segments) is an accepted package.

    Abstraction (exact for this function): the parts tuple is opaque, `".".join(parts[:k])` is the
    uninterpreted dot_prefix(parts, min(k, len)).  The accepted set is (membership, cardinality)."""

    file, qualname = "dds/_eval_ctx.py", "EvalMainContext.is_authorized_path"

    def __init__(self):
        super().__init__()
        self.loops[0] = LoopSpec(invariant=self.inv)
        self.globals["len"] = Model(m_len_parts, "len")

    def make_args(self, eng):
        W = MapVal.named("W", TStr, None, with_card=True)
        parts = PARTS.const("parts")
        cp = ObjVal("CanonicalPath", _path=ObjVal("PurePosixPath", parts=parts))
        return {"self": ObjVal("EvalMainContext", whitelisted_packages=W), "cp": cp}

    def requires(self, ctx):
        return [("len_nonneg", PLEN(self._parts(ctx)) >= 0)]

    def _parts(self, ctx):
        return ctx.args["cp"]._path.fields["parts"].term

    def inv(self, ctx, env, k):
        W = ctx.args["self"].whitelisted_packages
        parts = self._parts(ctx)
        j = z3.Int(sv.fresh_name("j"))
        return [("no_prefix_so_far", z3.ForAll([j], z3.Implies(z3.And(0 <= j, j < k, j <= PLEN(parts)), z3.Not(W.has(PREFIX(parts, j))))))]

    def ensures(self, ctx):
        W = ctx.args["self"].whitelisted_packages
        parts = self._parts(ctx)
        r = ctx.result
        rt = r.term if isinstance(r, Sym) else z3.BoolVal(bool(r))
        k = z3.Int(sv.fresh_name("k"))
        some = z3.Exists([k], z3.And(0 <= k, k <= PLEN(parts), W.has(PREFIX(parts, k))))
        return [("authorized_iff_some_prefix_accepted", rt == some)]

    def finding_classes(self, ctx):
        return {}


class accept_module_str(_Spec):
    file, qualname = "dds/introspect.py", "accept_module"

    def make_globals(self, eng):
        return {"_accepted_packages": MapVal.named("accepted", TStr, None)}

    def make_args(self, eng):
        return {"module": TStr.const("module")}

    def ensures(self, ctx):
        o, n = ctx.old_globals["_accepted_packages"], ctx.globals["_accepted_packages"]
        return _accept_post(o, n, ctx.args["module"].term)


COVERED = z3.Function("some_dotted_prefix_accepted", z3.ArraySort(z3.StringSort(), z3.BoolSort()), z3.StringSort(), z3.BoolSort())


def _accept_post(o, n, name):
    """what the property needs of the registry: nothing is un-accepted, nothing else is accepted, and the new name is
    accepted (or was already covered by an accepted parent package)"""
    q = z3.String(sv.fresh_name("q"))
    return [
        ("nothing_is_unaccepted", z3.ForAll([q], z3.Implies(z3.Select(o.dom, q), z3.Select(n.dom, q)))),
        ("nothing_else_is_accepted", z3.ForAll([q], z3.Implies(z3.And(z3.Select(n.dom, q), z3.Not(z3.Select(o.dom, q))), q == name))),
        ("the_name_is_accepted", z3.Or(z3.Select(n.dom, name), COVERED(o.dom, name))),
    ]


class accept_module_mod(accept_module_str):
    """variant: a module object is passed; its __name__ is registered"""

    def make_args(self, eng):
        import types

        m = ObjVal("module", __name__=TStr.const("module_name"))
        m.pyclass = types.ModuleType
        return {"module": m}

    def ensures(self, ctx):
        o, n = ctx.old_globals["_accepted_packages"], ctx.globals["_accepted_packages"]
        return _accept_post(o, n, ctx.args["module"].fields["__name__"].term)


SPECS = [is_authorized_path, accept_module_str, accept_module_mod]
