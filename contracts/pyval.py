"""PyVal: the algebraic type of the values dds_hash is specified on (DESIGN 2.4), and the hash algebra (DESIGN 4.4).

The datatype is recursive under Seq; z3's Python Datatype builder cannot express that, so it is declared in
SMT-LIB text and the sort / constructors are read back from a parsed assertion.
"""
import z3

from pyvc import sv
from pyvc.sv import Sym, Ty, TStr, TInt, TBool, TSeq, TUn, TRec

_DECL = """
(declare-sort FloatBits 0)
(declare-sort DC 0)
(declare-datatypes ((PyVal 0) (PyPair 0)) (
  ((VNone) (VBool (vb Bool)) (VInt (vi Int)) (VFloat (vf FloatBits)) (VStr (vs String))
   (VList (items (Seq PyVal))) (VTuple (titems (Seq PyVal)))
   (VDict (pairs (Seq PyPair))) (VOrdDict (opairs (Seq PyPair)))
   (VDataCls (vdc DC)) (VDate (dtext String)) (VPath (ptext String)) (VCanon (ctext String)) (VOther (tag Int)))
  ((mkpair (pk PyVal) (pv PyVal)))
))
(declare-const x PyVal)
(declare-const p PyPair)
(assert (= x x))
(assert (= p p))
"""
_s = z3.Solver()
_s.from_string(_DECL)
_a = _s.assertions()
PV = _a[0].arg(0).sort()
PP = _a[1].arg(0).sort()
FB = z3.DeclareSort("FloatBits")
DCS = z3.DeclareSort("DC")
C = {PV.constructor(i).name(): PV.constructor(i) for i in range(PV.num_constructors())}
IS = {PV.constructor(i).name(): PV.recognizer(i) for i in range(PV.num_constructors())}
ACC = {PV.constructor(i).name(): [PV.accessor(i, j) for j in range(PV.constructor(i).arity())] for i in range(PV.num_constructors())}
MKPAIR = PP.constructor(0)
PK, PVv = PP.accessor(0, 0), PP.accessor(0, 1)

S = z3.StringSort()
I = z3.IntSort()
SeqPV = z3.SeqSort(PV)
SeqPP = z3.SeqSort(PP)
SeqS = z3.SeqSort(S)
SeqI = z3.SeqSort(I)
BYTES = TUn("Bytes")
B = BYTES.sort()

# ---- hash algebra (uninterpreted; assumptions A-H1..A-H4, A-UTF8, A-PACK in DESIGN 4.5) -----------------
SHA = z3.Function("sha256_hex", B, S)  # hashlib.sha256(b).hexdigest()
UTF8 = z3.Function("utf8", S, B)  # s.encode("utf-8")
PACKL = z3.Function("pack_l", I, B)  # struct.pack("!l", i), defined on -2^31 <= i < 2^31
PACKD = z3.Function("pack_d", FB, B)  # struct.pack("!d", f)
BARJOIN = z3.Function("bar_join", SeqS, S)  # "|".join(xs)
INTSTR = z3.Function("int_str", I, S)  # str(i)

# ---- spec functions ---------------------------------------------------------------------------------------
SH = z3.Function("spec_hash", PV, S)  # the signature of a value
ER = z3.Function("spec_err", PV, I)  # 0 = hashable, 7 = TYPE_NOT_SUPPORTED, 18 = SEQUENCE_TOO_LONG
MAXSEQ = z3.Int("max_sequence_size")
MAPH = z3.Function("map_spec_hash", SeqPV, SeqS)
MAPE = z3.Function("map_spec_err", SeqPV, SeqI)
FIRSTNZ = z3.Function("first_nonzero", SeqI, I)
MAPPH = z3.Function("map_pair_hash", SeqPP, SeqS)  # [SH(k) + "|" + SH(v) for (k, v) in pairs]
MAPPE = z3.Function("map_pair_err", SeqPP, SeqI)
MAPVSTR = z3.Function("map_VStr", SeqS, SeqPV)  # [VStr(s) for s in xs]
# dataclass instances are opaque: ordered field records, attribute lookup by name
FIELD = TRec("Field", name=TStr)
FIELDS = z3.Function("dc_fields", DCS, z3.SeqSort(FIELD.sort()))
MAPNAME = z3.Function("map_field_name", z3.SeqSort(FIELD.sort()), SeqS)
ATTR = z3.Function("dc_getattr", DCS, S, PV)
DC_VALH = z3.Function("dc_value_hashes", DCS, SeqS, SeqS)  # [SH(getattr(dc, n)) for n in names]
DC_VALE = z3.Function("dc_value_errs", DCS, SeqS, SeqI)
DC_PAIRH = z3.Function("dc_pair_hashes", SeqS, SeqS, SeqS)  # [SH(VStr(n)) + "|" + SH(VStr(h)) for (n, h) in zip(names, vals)]

T_NOT_SUPPORTED = 7
T_TOO_LONG = 18
NONE_MARKER = "__DDS_NONE__"
BIGINT_MARKER = "__DDS_BIGINT__"


def in32(i):
    return z3.And(i >= -(2**31), i < 2**31)


def int_preimage(i):
    """bytes hashed for an int: 4 packed bytes in the 32-bit range (pinned), a tagged decimal string outside"""
    return z3.If(in32(i), PACKL(i), UTF8(z3.Concat(z3.StringVal(BIGINT_MARKER), INTSTR(i))))


def pair_hash(k, v):
    return z3.Concat(z3.Concat(SH(k), z3.StringVal("|")), SH(v))


def dc_hash(dc):
    names = MAPNAME(FIELDS(dc))
    return SH(C["VList"](MAPVSTR(DC_PAIRH(names, DC_VALH(dc, names)))))


def dict_hash(ps):
    return SH(C["VList"](MAPVSTR(MAPPH(ps))))


def unfold(x):
    """Definition of spec_hash / spec_err instantiated at x (one equation per constructor)."""
    a = lambda c, j=0: ACC[c][j](x)
    long_ = lambda n: n > MAXSEQ
    eqs = [
        z3.Implies(IS["VNone"](x), z3.And(SH(x) == SHA(UTF8(z3.StringVal(NONE_MARKER))), ER(x) == 0)),
        z3.Implies(IS["VStr"](x), z3.And(SH(x) == SHA(UTF8(a("VStr"))), ER(x) == 0)),
        z3.Implies(IS["VFloat"](x), z3.And(SH(x) == SHA(PACKD(a("VFloat"))), ER(x) == 0)),
        z3.Implies(IS["VInt"](x), z3.And(SH(x) == SHA(int_preimage(a("VInt"))), ER(x) == 0)),
        z3.Implies(IS["VBool"](x), z3.And(SH(x) == SHA(PACKL(z3.If(a("VBool"), z3.IntVal(1), z3.IntVal(0)))), ER(x) == 0)),
        z3.Implies(IS["VCanon"](x), z3.And(SH(x) == SHA(UTF8(a("VCanon"))), ER(x) == 0)),
        z3.Implies(IS["VPath"](x), z3.And(SH(x) == SHA(UTF8(a("VPath"))), ER(x) == 0)),
        z3.Implies(IS["VDate"](x), z3.And(SH(x) == SH(C["VStr"](a("VDate"))), ER(x) == 0)),
        z3.Implies(IS["VOther"](x), ER(x) == T_NOT_SUPPORTED),
        z3.Implies(
            IS["VList"](x),
            z3.And(
                SH(x) == SHA(UTF8(BARJOIN(MAPH(a("VList"))))),
                ER(x) == z3.If(long_(z3.Length(a("VList"))), z3.IntVal(T_TOO_LONG), FIRSTNZ(MAPE(a("VList")))),
            ),
        ),
        z3.Implies(
            IS["VTuple"](x),
            z3.And(SH(x) == SH(C["VList"](a("VTuple"))), ER(x) == z3.If(long_(z3.Length(a("VTuple"))), z3.IntVal(T_TOO_LONG), ER(C["VList"](a("VTuple"))))),
        ),
    ]
    for c in ("VDict", "VOrdDict"):
        ps = a(c)
        eqs.append(
            z3.Implies(
                IS[c](x),
                z3.And(
                    SH(x) == dict_hash(ps),
                    ER(x)
                    == z3.If(long_(z3.Length(ps)), z3.IntVal(T_TOO_LONG), z3.If(FIRSTNZ(MAPPE(ps)) != 0, FIRSTNZ(MAPPE(ps)), ER(C["VList"](MAPVSTR(MAPPH(ps)))))),
                ),
            )
        )
    dc = a("VDataCls")
    names = MAPNAME(FIELDS(dc))
    eqs.append(
        z3.Implies(
            IS["VDataCls"](x),
            z3.And(
                SH(x) == dc_hash(dc),
                ER(x)
                == z3.If(
                    long_(z3.Length(names)),
                    z3.IntVal(T_TOO_LONG),
                    z3.If(FIRSTNZ(DC_VALE(dc, names)) != 0, FIRSTNZ(DC_VALE(dc, names)), ER(C["VList"](MAPVSTR(DC_PAIRH(names, DC_VALH(dc, names)))))),
                ),
            ),
        )
    )
    return eqs


def leaf_axioms():
    """the defining equations of the non-recursive constructors, for all arguments"""
    s = z3.String(sv.fresh_name("s"))
    return [z3.ForAll([s], z3.And(SH(C["VStr"](s)) == SHA(UTF8(s)), ER(C["VStr"](s)) == 0))]


def map_axioms():
    """length facts of the spec-level maps (nth facts are not needed by the function proofs)"""
    xs = z3.Const(sv.fresh_name("xs"), SeqPV)
    ps = z3.Const(sv.fresh_name("ps"), SeqPP)
    ss = z3.Const(sv.fresh_name("ss"), SeqS)
    ss2 = z3.Const(sv.fresh_name("ss2"), SeqS)
    d = z3.Const(sv.fresh_name("d"), DCS)
    fs = z3.Const(sv.fresh_name("fs"), z3.SeqSort(FIELD.sort()))
    return [
        z3.ForAll([xs], z3.Length(MAPH(xs)) == z3.Length(xs)),
        z3.ForAll([ps], z3.Length(MAPPH(ps)) == z3.Length(ps)),
        z3.ForAll([ss], z3.Length(MAPVSTR(ss)) == z3.Length(ss)),
        z3.ForAll([fs], z3.Length(MAPNAME(fs)) == z3.Length(fs)),
        z3.ForAll([d, ss], z3.Length(DC_VALH(d, ss)) == z3.Length(ss)),
        z3.ForAll([ss, ss2], z3.Implies(z3.Length(ss) == z3.Length(ss2), z3.Length(DC_PAIRH(ss, ss2)) == z3.Length(ss))),
    ]


class _TPyVal(Ty):
    name = "PyVal"

    def sort(self):
        return PV

    def _lift(self, v):
        if v is None:
            return Sym(C["VNone"](), self)
        if isinstance(v, bool):
            return Sym(C["VBool"](z3.BoolVal(v)), self)
        if isinstance(v, int):
            return Sym(C["VInt"](z3.IntVal(v)), self)
        if isinstance(v, str):
            return Sym(C["VStr"](z3.StringVal(v)), self)
        raise TypeError(v)

    def lift(self, v):
        if isinstance(v, Sym):
            if v.term.sort() == PV:
                return Sym(v.term, self)
            if v.ty == TStr:
                return Sym(C["VStr"](v.term), self)
            if v.ty == TInt:
                return Sym(C["VInt"](v.term), self)
            if isinstance(v.ty, TSeq) and v.ty.elt == TStr:
                return Sym(C["VList"](MAPVSTR(v.term)), self)
            raise TypeError("cannot lift %r to PyVal" % (v,))
        if isinstance(v, sv.SeqBox):
            return self.lift(v.sym())
        return self._lift(v)

    def is_none(self, term):
        return IS["VNone"](term)

    def none_value(self):
        return C["VNone"]()

    def isinstance_(self, term, classes):
        import collections
        import datetime
        import pathlib
        import dds.structures as DS

        table = {
            str: ["VStr"],
            float: ["VFloat"],
            int: ["VInt", "VBool"],
            bool: ["VBool"],
            list: ["VList"],
            tuple: ["VTuple"],
            dict: ["VDict", "VOrdDict"],
            collections.OrderedDict: ["VOrdDict"],
            pathlib.PurePosixPath: ["VPath"],
            DS.CanonicalPath: ["VCanon"],
            type(None): ["VNone"],
        }
        for d in (datetime.datetime, datetime.date, datetime.time, datetime.timedelta, datetime.timezone, datetime.tzinfo):
            table[d] = ["VDate"]
        hits = []
        for c in classes:
            if c in table:
                hits += [IS[n](term) for n in table[c]]
            elif isinstance(c, type) and c is object:
                return True
        if not hits:
            return False
        return hits[0] if len(hits) == 1 else z3.Or(*hits)

    def seq_payload(self, term):
        """(condition, items) pairs for the sequence-like constructors"""
        return [(IS["VList"](term), ACC["VList"][0](term)), (IS["VTuple"](term), ACC["VTuple"][0](term))]


TPV = _TPyVal()
TPAIR = None


class _TPair(Ty):
    name = "PyPair"

    def sort(self):
        return PP

    def unpack_(self, term, n):
        assert n == 2
        return [Sym(PK(term), TPV), Sym(PVv(term), TPV)]


TPAIR = _TPair()
