"""Contract for dds/introspect.py:_introspect_class -- the caching front of the class analysis, with the base-class loop
(C01: the analysis cached for a class is the analysis OF that class and of its tracked base classes; C03: history independence).

Same state and clauses as contracts/introspect_fun.py (hit / miss, own key, no error from the process-wide record), plus:
  every recursive call analyses a base class of c, in the same argument context and evaluation context
  a base class is analysed only when it is not `object`, has a module and its path is accepted
  with at least one analysed base the returned signature is dds_hash_commut of the class signature and the base signatures
  (the combiner is called exactly then), without one it is the signature of the class body itself
The recursive call is used by contract (it returns an analysis; partial correctness, termination by the finite MRO is assumed).
"""
import ast as _ast

import z3

from .common import *
from .introspect_fun import *
from .introspect_fun import introspect_fun, fis_obj, FIS, O, STR, SRC, AKEY, FDOM, FVAL, TFDOM, TFVAL
from .inspect_call import CPATH, CP, PYOBJ
from .retrieve_rec import FUNPATH, DEFMOD, DEFMOD_NONE
from pyvc.engine import _Raise
from pyvc.spec import LoopSpec, havoc

BASES = z3.Function("bases_of", O, z3.SeqSort(O))
AUTH = z3.Function("is_authorized_path", CP, z3.BoolSort())
OBJECT = z3.Const("the_class_object", O)
SEQ_O = TSeq(PYOBJ)
ANALYSIS_OF = z3.Function("analysis_of_the_base_class", O, FIS.sort())
SEQ_FIS = TSeq(FIS)
ELIGIBLE_ANALYSES = z3.Function("analyses_of_the_eligible_among_the_first_bases", O, z3.IntSort(), z3.SeqSort(FIS.sort()))


def eligible(b):
    """a base class that is analysed like the class itself: not `object`, defined in a module, its path accepted"""
    return z3.And(b != OBJECT, z3.Not(DEFMOD_NONE(b)), AUTH(FUNPATH(b)))


class introspect_class(introspect_fun):
    file, qualname = "dds/introspect.py", "_introspect_class"
    ARG = "c"

    def __init__(self):
        super().__init__()
        g = self.globals
        g["getsource_class"] = Model(lambda eng, a, k, n: Sym(SRC(a[0].term), TStr), "getsource_class")
        g["ast"] = ObjVal("astmod", ClassDef=_ast.ClassDef)
        self.classes["InspectFunction"] = {"inspect_class": Model(self.m_inspect_fun, "contract:InspectFunction.inspect_class")}
        g["_introspect_class"] = Model(self.m_rec, "contract:_introspect_class (recursive call)")
        g["object"] = Sym(OBJECT, PYOBJ)
        g["HK"] = Model(lambda eng, a, k, n: Opaque("hash key"), "HK")
        g["dds_hash_commut"] = Model(self.m_commut, "contract:dds_hash_commut")
        g["list"] = Model(lambda eng, a, k, n: a[0], "list (copy)")
        g["enumerate"] = Model(lambda eng, a, k, n: Opaque("enumerate(base analyses)"), "enumerate")
        self.classes["EvalMainContext"] = {"is_authorized_path": Model(lambda eng, a, k, n: Sym(AUTH(a[1].term), TBool), "contract:EvalMainContext.is_authorized_path")}
        self.classes["FunctionInteractions"] = {"_replace": Model(self.m_replace, "namedtuple._replace")}
        self.loops = {
            0: LoopSpec(invariant=self.base_inv, seqvars={"base_fis": SEQ_FIS}),
            1: LoopSpec(invariant=lambda ctx, env, k: [("true", z3.BoolVal(True))], seqvars={"obj_ids": TSeq(TTup(CPATH, TInt))}),
        }

    def on_entry(self, eng, ctx):
        # definition of the spec function ELIGIBLE_ANALYSES (primitive recursion over the number of base classes looked at)
        c = self._entry_args["c"].term
        bases = BASES(c)
        k = z3.Int("k_def")
        one = z3.If(eligible(bases[k]), z3.Unit(ANALYSIS_OF(bases[k])), z3.Empty(SEQ_FIS.sort()))
        eng.assume(ELIGIBLE_ANALYSES(c, 0) == z3.Empty(SEQ_FIS.sort()))
        eng.assume(z3.ForAll([k], z3.Implies(k >= 0, ELIGIBLE_ANALYSES(c, k + 1) == z3.Concat(ELIGIBLE_ANALYSES(c, k), one)), patterns=[ELIGIBLE_ANALYSES(c, k + 1)]), heavy=True)

    def base_inv(self, ctx, env, k):
        """after k of the base classes: base_fis holds, in order, the analyses of the eligible ones among them"""
        return [("the_analyses_of_the_eligible_bases_so_far", env["base_fis"].term == ELIGIBLE_ANALYSES(ctx.args["c"].term, k))]

    def m_parse(self, eng, args, kwargs, node):
        f = ObjVal("AstOfTheFunction", kind="class", of=args[1])
        f.pyclass = _ast.ClassDef
        return ObjVal("AstModule", body=ListVal([f]))

    def m_inspect_fun(self, eng, args, kwargs, node):
        r = super().m_inspect_fun(eng, args, kwargs, node)
        r.fields["parsed_body"] = SEQ_FIS.const("analyses_of_the_methods")
        r.fields["store_path"] = Sym(OPT_PATH.none(), OPT_PATH)  # inspect_class: no store path is associated to a class
        return r

    def m_rec(self, eng, args, kwargs, node):
        base, arg_ctx, gctx = args[0], args[1], args[2]
        eng.event("base_analysis", base=base, arg_ctx=arg_ctx, gctx=gctx)
        me = eng.st.args["c"].term if hasattr(eng.st, "args") else PYOBJ.const("c").term
        j = z3.Int(sv.fresh_name("j"))
        is_base = isinstance(base, Sym) and base.ty == PYOBJ
        eng.oblige("call:_introspect_class:only_an_eligible_base_class_is_analysed", z3.And(z3.Exists([j], z3.And(0 <= j, j < z3.Length(BASES(me)), BASES(me)[j] == base.term)), eligible(base.term)) if is_base else False, kind="pre", node=node)
        eng.oblige("call:_introspect_class:in_the_same_argument_and_evaluation_context", arg_ctx is eng.spec._entry_args["arg_ctx"] and gctx is eng.spec._entry_args["gctx"], kind="pre", node=node)
        if eng.choose(z3.Bool(sv.fresh_name("analysis_fails"))):
            raise _Raise(DDSExc(code="from the analysis"))
        c = gctx.fields["cached_fun_interactions"]
        c.fields["dom"] = Sym(z3.Const(sv.fresh_name("fis_dom"), FDOM), TFDOM)
        c.fields["val"] = Sym(z3.Const(sv.fresh_name("fis_val"), FVAL), TFVAL)
        havoc(eng, gctx.fields["resolved_references"])
        return Sym(ANALYSIS_OF(base.term), FIS)

    def m_commut(self, eng, args, kwargs, node):
        r = TStr.fresh("combined_signature")
        eng.event("combine", sig=r.term)
        return r

    def m_replace(self, eng, args, kwargs, node):
        o = args[0]
        n = ObjVal("FunctionInteractions", **dict(o.fields))
        n.pyclass = o.pyclass
        for k, v in kwargs.items():
            n.fields[k] = v
        eng.event("replace", keys=sorted(kwargs))
        return n

    def sym_getattr(self, eng, o, attr, node):
        if isinstance(o, Sym) and o.ty == PYOBJ and attr == "__bases__":
            return Sym(BASES(o.term), SEQ_O)
        return super().sym_getattr(eng, o, attr, node)

    def key_path(self, ctx):
        return FUNPATH(ctx.args["c"].term)

    def make_args(self, eng):
        a = super().make_args(eng)
        a["c"] = PYOBJ.const("c")
        del a["f"]
        a["debug"] = False
        self._entry_args = a
        return a

    def ensures(self, ctx):
        out = [x for x in super().ensures(ctx) if x[0] != "a_lambda_is_named_by_the_hash_of_its_source"]
        c = ctx.args["c"].term
        recs = [e for e in ctx.events if e.kind == "base_analysis"]
        combos = [e for e in ctx.events if e.kind == "combine"]
        reps = [e for e in ctx.events if e.kind == "replace"]
        r = ctx.result
        if [e for e in ctx.events if e.kind == "inspect_fun"] and isinstance(r, ObjVal):
            out.append(("the_signatures_are_combined_at_most_once_and_the_result_carries_the_combination",
                        len(combos) <= 1 and len(reps) == len(combos) and all(e.data["keys"] == ["fun_return_sig", "parsed_body"] for e in reps)
                        and (not combos or r.fields["fun_return_sig"].term.eq(combos[0].data["sig"]))))
            out.append(("without_combination_the_signature_is_that_of_the_class_body", bool(combos) or r.fields["fun_return_sig"].term.eq(TStr.const("return_sig_of_the_analysis_0").term)))
            pb = r.fields["parsed_body"]
            bases = BASES(c)
            j, i = z3.Int(sv.fresh_name("j")), z3.Int(sv.fresh_name("i"))
            body = SEQ_FIS.const("analyses_of_the_methods").term
            ok_pb = isinstance(pb, Sym) and pb.ty == SEQ_FIS
            want = ELIGIBLE_ANALYSES(c, z3.Length(bases))
            out.append(("the_signatures_are_combined_iff_some_base_class_is_eligible", (z3.Length(want) > 0) if combos else (z3.Length(want) == 0)))
            out.append(("the_result_holds_the_method_analyses_then_the_analyses_of_the_eligible_base_classes_in_order", ok_pb and (pb.term == (z3.Concat(body, want) if combos else body))))
            out.append(("a_class_has_no_store_path", OPT_PATH.is_none(r.fields["store_path"].term)))
        out.append(("a_base_is_analysed_in_the_same_argument_and_evaluation_context", all(e.data["arg_ctx"] is ctx.args["arg_ctx"] and e.data["gctx"] is ctx.args["gctx"] for e in recs)))
        return out


SPECS = [introspect_class]
