"""Contracts for dds/store.py:LocalFileStore over the file-system model (C08, C16, C17, C04; crash clauses for C06)."""
import z3

from .common import *
from .fsmodel import *
from pyvc.engine import _Raise, _PathEnd
import dds.structures as DS

FILE_ = "dds/store.py"
REFT = TUn("ProtocolRefStr")
R = REFT.sort()
PYTYPE = TUn("PyType")
ENC = z3.Function("codec_encode", R, ANY.sort(), BT)  # bytes a codec writes for a value
DEC = z3.Function("codec_decode", R, BT, ANY.sort())  # value a codec reads back from bytes
REF_FOR_TYPE = z3.Function("ref_of_codec_for_type", PYTYPE.sort(), R)  # registry: type -> codec chosen on write
TYPEOF = z3.Function("type_of", ANY.sort(), PYTYPE.sort())
REGISTERED = z3.Function("ref_is_registered", R, z3.BoolSort())
METAB = z3.Function("meta_json_bytes", R, BT)  # json.dumps({"protocol": ref, "timestamp_millis": ...}).encode()
PROTO_OF = z3.Function("protocol_in_meta_json", BT, R)  # json.load(f)["protocol"]
HEADSEG = z3.Function("split_head", PATH.sort(), SG)  # os.path.split(path)[0]
TAILSEG = z3.Function("split_tail", PATH.sort(), SG)  # os.path.split(path)[1]
FLATSEG = z3.Function("without_slashes", SG, SG)  # s.replace("/", "")
LASTSEG = z3.Function("basename", P, SG)
KEYOFSEG = z3.Function("key_of_seg", SG, KEY.sort())


def codec_axioms():
    r = z3.Const("r_", R)
    v = z3.Const("v_", ANY.sort())
    ts = z3.Const("ts_", BT)
    a = z3.Const("a_", P)
    s = z3.Const("s_", SG)
    k = z3.Const("k_", KEY.sort())
    return [
        z3.ForAll([r, v], DEC(r, ENC(r, v)) == v),  # A-LIB: every codec round-trips (str/bytes verbatim: contracts/codecs.py)
        z3.ForAll([r], PROTO_OF(BCAT(EMPTYB, METAB(r))) == r),  # json round trip of the metadata record
        z3.ForAll([a, s], LASTSEG(CHILD(a, s)) == s),
        z3.ForAll([k], KEYOFSEG(KEYSEG(k)) == k),
    ]


def blob_p(root, k):
    return CHILD(CHILD(root, SEG_BLOBS), KEYSEG(k))


def meta_p(root, k):
    return CHILD(CHILD(root, SEG_BLOBS), METASEG(k))


def tmp_blob_p(root, k):
    return CHILD(CHILD(root, SEG_BLOBS), TMPSEG(k))


def tmp_meta_p(root, k):
    return CHILD(CHILD(root, SEG_BLOBS), METATMPSEG(k))


def tmp_loc_p(data, p):
    return CHILD(locdir_p(data, p), LINKTMPSEG(FLATSEG(TAILSEG(p))))


def locdir_p(data, p):
    return CHILD(data, FLATSEG(HEADSEG(p)))


def loc_p(data, p):
    return CHILD(locdir_p(data, p), FLATSEG(TAILSEG(p)))


class _Local(FnSpec):
    file = FILE_

    def __init__(self):
        super().__init__()
        self.fsm = FsModels(self, lambda eng: eng.st.globals["__fs__"])
        g = self.globals
        g["codec_registry"] = Model(lambda eng, a, k, n: ObjVal("CodecRegistry"), "codec_registry")
        self.classes["CodecRegistry"] = {"get_codec": Model(self.m_get_codec, "contract:CodecRegistry.get_codec")}
        self.classes["Codec"] = {
            "ref": Model(lambda eng, a, k, n: a[0].fields["_ref"], "ref"),
            "serialize_into": Model(self.m_serialize, "codec.serialize_into"),
            "deserialize_from": Model(self.m_deserialize, "codec.deserialize_from"),
        }
        g["STU"] = ObjVal("STU")
        self.classes["STU"] = {"from_type": Model(lambda eng, a, k, n: a[1], "from_type")}
        g["type"] = Model(lambda eng, a, k, n: Sym(TYPEOF(ANY.lift(a[0]).term), PYTYPE), "type")
        g["GenericLocation"] = Model(lambda eng, a, k, n: a[0], "GenericLocation")
        g["PurePath"] = Model(lambda eng, a, k, n: a[0], "PurePath")
        g["ProtocolRef"] = Model(lambda eng, a, k, n: a[0], "ProtocolRef")
        g["PyHash"] = Model(lambda eng, a, k, n: Sym(KEYOFSEG(a[0].term), KEY), "PyHash")
        g["current_timestamp"] = Model(lambda eng, a, k, n: Opaque("timestamp"), "current_timestamp")
        g["json"] = ObjVal("json")
        self.classes["json"] = {"dumps": Model(self.m_dumps, "json.dumps"), "load": Model(self.m_load, "json.load")}
        self.classes["jsonstr"] = {"encode": Model(lambda eng, a, k, n: Sym(METAB(a[0].fields["ref"].term), BYTES), "encode")}
        self.classes["os.path"]["split"] = Model(self.m_split, "os.path.split")
        # a sibling method called on self is checked against its contract (modular), not its body; the real code has no
        # such call today -- a change that introduces one (has_blob as a guard in another operation) stays in the subset
        self.classes["LocalFileStore"] = {"has_blob": Model(lambda eng, a, k, n: Local_has_blob().call_site(eng, a, k, n), "contract:LocalFileStore.has_blob")}

    # ---- models ------------------------------------------------------------------------------------
    def m_get_codec(self, eng, args, kwargs, node):
        """contract of CodecRegistry.get_codec (contracts/codecs.py): by reference if given, else by type; coded error if none"""
        obj_type, ref = args[1], args[2]
        import dds.structures as S

        if isinstance(ref, Sym) and ref.ty == REFT:
            if not eng.choose(REGISTERED(ref.term)):
                raise _Raise(ExcVal(S.DDSException, code=S.DDSErrorCode.PROTOCOL_NOT_FOUND))
            rt = ref.term
        elif isinstance(ref, Sym) and isinstance(ref.ty, TOpt):
            raise OutOfSubset("optional codec reference")
        else:
            if obj_type is None:
                raise _Raise(ExcVal(S.DDSException, code=S.DDSErrorCode.PROTOCOL_NOT_FOUND))
            rt = REF_FOR_TYPE(obj_type.term)
            eng.assume(REGISTERED(rt))  # the registry always has the `object` (pickle) codec as fall-back
        c = ObjVal("Codec", _ref=Sym(rt, REFT))
        c.pyclass = S.FileCodecProtocol if eng.choose(z3.Bool(sv.fresh_name("codec_is_file_codec"))) else S.CodecProtocol
        return c

    def m_serialize(self, eng, args, kwargs, node):
        """codec.serialize_into(blob, loc): open(loc, 'wb'); write(encode(blob)); close  -- three file-system effects"""
        c, blob, loc = args[0], args[1], args[2]
        f = self.fsm.open_(eng, [loc, "wb"], {}, node)
        self.fsm.write(eng, [f, Sym(ENC(c.fields["_ref"].term, ANY.lift(blob).term), BYTES)], {}, node)
        self.fsm.close(eng, [f], {}, node)
        return None

    def m_deserialize(self, eng, args, kwargs, node):
        c, loc = args[0], args[1]
        fs = eng.st.globals["__fs__"]
        p = fs_path(eng, loc)
        eng.oblige("deserialize_file_exists", fs.isfile(p), kind="safety:FileNotFoundError", node=node)
        return Sym(DEC(c.fields["_ref"].term, fs.content[fs.resolve(p)]), ANY)

    def m_dumps(self, eng, args, kwargs, node):
        d = args[1]
        return ObjVal("jsonstr", ref=d.fields["protocol"])

    def m_load(self, eng, args, kwargs, node):
        f = args[1]
        fs = eng.st.globals["__fs__"]
        return ObjVal("jsonobj", bytes=Sym(fs.content[f.fields["path"].term], BYTES))

    def m_split(self, eng, args, kwargs, node):
        v = args[1]
        if isinstance(v, Sym) and v.ty == PATH:
            return (Sym(HEADSEG(v.term), SEG), Sym(TAILSEG(v.term), SEG))
        if isinstance(v, Sym) and v.ty == FSP:
            return (Sym(DIRNAME(v.term), FSP), Sym(LASTSEG(v.term), SEG))
        raise OutOfSubset("os.path.split(%r)" % (v,))

    def make_dict(self, eng, pairs, node):
        d = {k: v for k, v in pairs}
        if set(d) == {"protocol", "timestamp_millis"}:
            return ObjVal("MetaDict", protocol=d["protocol"])
        return super().make_dict(eng, pairs, node)

    def getitem(self, eng, o, k, node):
        if isinstance(o, ObjVal) and o.cls == "jsonobj" and k == "protocol":
            return Sym(PROTO_OF(o.fields["bytes"].term), REFT)
        return super().getitem(eng, o, k, node)

    def binop_other(self, eng, op, a, b, node):
        import ast

        if isinstance(op, ast.Add) and isinstance(a, Sym) and a.ty == KEY and b == ".meta":
            return Sym(METASEG(a.term), SEG)
        if isinstance(op, ast.Add) and isinstance(a, Sym) and a.ty == KEY and b == ".tmp":
            return Sym(TMPSEG(a.term), SEG)
        if isinstance(op, ast.Add) and isinstance(a, Sym) and a.ty == KEY and b == ".meta.tmp":
            return Sym(METATMPSEG(a.term), SEG)
        if isinstance(op, ast.Add) and isinstance(a, Sym) and a.ty == SEG and b == ".tmp_link":
            return Sym(LINKTMPSEG(a.term), SEG)
        return NotImplemented

    def method_other(self, eng, recv, name, args, kwargs, node):
        if isinstance(recv, Sym) and recv.ty == SEG and name == "replace" and args == ["/", ""]:
            return Sym(FLATSEG(recv.term), SEG)
        return NotImplemented

    # ---- state -------------------------------------------------------------------------------------------
    def make_globals(self, eng):
        return {"__fs__": FS("fs")}

    def self_obj(self):
        return ObjVal("LocalFileStore", _root=FSP.const("internal_dir"), _data_root=FSP.const("data_dir"))

    def common_requires(self, ctx):
        fs = ctx.globals["__fs__"]
        out = [("path_algebra_%d" % i, a) for i, a in enumerate(path_axioms())]
        out += [("codec_%d" % i, a) for i, a in enumerate(codec_axioms())]
        out += [("bytes_%d" % i, a) for i, a in enumerate(bcat_axioms())]
        out += [("fs_wf", fs.wf()[0])]
        return out

    def REP(self, fs, so):
        """representation invariant of a local store directory (what a completed operation leaves behind)"""
        root, data = so.fields["_root"].term, so.fields["_data_root"].term
        k = z3.Const(sv.fresh_name("k"), KEY.sort())
        q = z3.Const(sv.fresh_name("q"), PATH.sort())
        a = z3.Const(sv.fresh_name("a"), P)
        sg = z3.Const(sv.fresh_name("sg"), SG)
        q2 = z3.Const(sv.fresh_name("q2"), PATH.sort())
        bd = CHILD(root, SEG_BLOBS)
        return [
            ("blobs_dir", z3.And(fs.kind[bd] == DIR, fs.kind[root] == DIR)),
            ("data_dir", fs.kind[data] == DIR),
            ("ancestors_of_data_dir_are_dirs", z3.ForAll([a], z3.Implies(z3.And(IS_ANC(a, data), fs.lexists(a)), fs.kind[a] == DIR))),
            # a visible blob is a complete regular file with its metadata record next to it
            (
                "blob_complete_with_meta",
                z3.ForAll(
                    [k],
                    z3.Implies(
                        fs.lexists(blob_p(root, k)),
                        z3.And(
                            fs.kind[blob_p(root, k)] == FILE,
                            fs.complete[blob_p(root, k)],
                            fs.kind[meta_p(root, k)] == FILE,
                            fs.complete[meta_p(root, k)],
                            REGISTERED(PROTO_OF(fs.content[meta_p(root, k)])),
                        ),
                    ),
                ),
            ),
            ("meta_entries_are_files", z3.ForAll([k], z3.Implies(fs.lexists(meta_p(root, k)), fs.kind[meta_p(root, k)] == FILE))),
            # leftovers of interrupted writes are plain files (possibly incomplete) under their temporary names
            ("temporary_entries_are_files", z3.ForAll([k], z3.And(z3.Implies(fs.lexists(tmp_blob_p(root, k)), fs.kind[tmp_blob_p(root, k)] == FILE), z3.Implies(fs.lexists(tmp_meta_p(root, k)), fs.kind[tmp_meta_p(root, k)] == FILE)))),
            # the data area and the blob area do not overlap (configuration: data_dir is not inside internal_dir/blobs)
            ("areas_disjoint", z3.ForAll([q, sg], z3.And(loc_p(data, q) != CHILD(bd, sg), locdir_p(data, q) != CHILD(bd, sg), tmp_loc_p(data, q) != CHILD(bd, sg)))),
            ("data_ancestors_are_not_blob_files", z3.ForAll([a, sg], z3.Implies(IS_ANC(a, data), a != CHILD(bd, sg)))),
            # temporary link names are not path locations (configuration: no committed path ends in ".tmp_link")
            ("temp_links_are_not_path_locations", z3.ForAll([q, q2], z3.And(tmp_loc_p(data, q) != loc_p(data, q2), tmp_loc_p(data, q) != locdir_p(data, q2)))),
            ("temp_link_leftovers_are_links", z3.ForAll([q], z3.Implies(fs.lexists(tmp_loc_p(data, q)), fs.kind[tmp_loc_p(data, q)] == LINK))),
            # every entry at a path location is a link to a blob file of this store that exists (no dangling links,
            # no directory where a path is committed)
            (
                "path_entries_are_live_links",
                z3.ForAll(
                    [q],
                    z3.Implies(
                        fs.lexists(loc_p(data, q)),
                        z3.And(fs.kind[loc_p(data, q)] == LINK, z3.Exists([k], z3.And(fs.resolve(loc_p(data, q)) == blob_p(root, k), fs.lexists(blob_p(root, k))))),
                    ),
                ),
            ),
            ("path_dirs_are_dirs", z3.ForAll([q], z3.Implies(fs.lexists(locdir_p(data, q)), fs.kind[locdir_p(data, q)] == DIR))),
        ]

    def untouched_except(self, fs0, fs1, keep):
        """frame: every file-system entry outside `keep` (list of path terms) is as before"""
        a = z3.Const(sv.fresh_name("a"), P)
        cond = z3.And(*[a != p for p in keep]) if keep else z3.BoolVal(True)
        return z3.ForAll(
            [a], z3.Implies(cond, z3.And(fs1.kind[a] == fs0.kind[a], fs1.content[a] == fs0.content[a], fs1.complete[a] == fs0.complete[a], fs1.target[a] == fs0.target[a]))
        )

    def fs_same(self, fs0, fs1):
        return z3.And(fs1.kind == fs0.kind, fs1.content == fs0.content, fs1.complete == fs0.complete, fs1.target == fs0.target)

    # abstraction function (DESIGN 4.3)
    def has(self, fs, so, k):
        return fs.exists(blob_p(so.fields["_root"].term, k))

    def val(self, fs, so, k):
        root = so.fields["_root"].term
        return DEC(PROTO_OF(fs.content[meta_p(root, k)]), fs.content[blob_p(root, k)])


class Local_has_blob(_Local):
    qualname = "LocalFileStore.has_blob"
    result_ty = TBool

    def param_names(self):
        return ["self", "key"]

    def modifies(self, ctx):
        return []  # read only: the callee's `read_only` clause then says the file system is the caller's, unchanged

    def make_args(self, eng):
        return {"self": self.self_obj(), "key": KEY.const("key")}

    def requires(self, ctx):
        return self.common_requires(ctx) + self.REP(ctx.globals["__fs__"], ctx.args["self"])

    def ensures(self, ctx):
        fs0, fs1 = ctx.old_globals["__fs__"], ctx.globals["__fs__"]
        r = ctx.result
        return [("answer_is_presence_of_the_blob_file", r.term == self.has(fs0, ctx.args["self"], ctx.args["key"].term)), ("read_only", self.fs_same(fs0, fs1))]


class Local_fetch_blob(_Local):
    qualname = "LocalFileStore.fetch_blob"
    may_raise = True

    def make_args(self, eng):
        return {"self": self.self_obj(), "key": KEY.const("key")}

    def requires(self, ctx):
        return self.common_requires(ctx) + self.REP(ctx.globals["__fs__"], ctx.args["self"])

    def ensures(self, ctx):
        fs0, fs1 = ctx.old_globals["__fs__"], ctx.globals["__fs__"]
        so, k = ctx.args["self"], ctx.args["key"].term
        res = ANY.lift(ctx.result).term
        return [
            # read back with the codec whose reference was persisted next to the blob (C17)
            ("present_blob_decoded_with_the_persisted_codec", z3.Implies(self.has(fs0, so, k), res == self.val(fs0, so, k))),
            ("absent_blob_is_None", z3.Implies(z3.Not(self.has(fs0, so, k)), res == ANY.none_term())),
            ("read_only", self.fs_same(fs0, fs1)),
        ]

    def signals(self, ctx):
        return [("a_present_blob_never_fails_to_load", False)]


class Local_store_blob(_Local):
    qualname = "LocalFileStore.store_blob"
    may_raise = True

    def make_args(self, eng):
        return {"self": self.self_obj(), "key": KEY.const("key"), "blob": ANY.const("blob"), "codec": None}

    def requires(self, ctx):
        return self.common_requires(ctx) + self.REP(ctx.globals["__fs__"], ctx.args["self"])

    def ensures(self, ctx):
        fs0, fs1 = ctx.old_globals["__fs__"], ctx.globals["__fs__"]
        so, k, b = ctx.args["self"], ctx.args["key"].term, ctx.args["blob"].term
        root = so.fields["_root"].term
        chosen = REF_FOR_TYPE(TYPEOF(b))
        out = [
            ("blob_present_afterwards", self.has(fs1, so, k)),
            ("fetch_returns_the_stored_value", self.val(fs1, so, k) == b),
            ("meta_names_the_codec_that_wrote", PROTO_OF(fs1.content[meta_p(root, k)]) == chosen),
            ("blob_bytes_are_the_codec_encoding", fs1.content[blob_p(root, k)] == ENC(chosen, b)),
            ("only_this_blob_and_its_meta_written", self.untouched_except(fs0, fs1, [blob_p(root, k), meta_p(root, k), tmp_blob_p(root, k), tmp_meta_p(root, k)])),
        ]
        out += [("REP_preserved:" + n, c) for n, c in self.REP(fs1, so)]
        return out

    def signals(self, ctx):
        return [("store_blob_raises_nothing_for_a_storable_value", False)]


SPECS = [Local_has_blob, Local_fetch_blob, Local_store_blob]


# =================================================================================================
# paths
# =================================================================================================


class Local_sync_paths(_Local):
    """after sync_paths(m): every p in m resolves (through the link under the data directory) to the blob of m[p];
    locations of other paths and the whole blob area are untouched.  Needs the location function to be injective in the
    path (hypothesis LOC-INJ, studied -- and refuted for the current code -- in contracts/locations.py)."""

    qualname = "LocalFileStore.sync_paths"
    may_raise = True

    def __init__(self):
        super().__init__()
        self.loops[0] = LoopSpec(invariant=self.inv, modifies=lambda ctx, env: [])

    def make_args(self, eng):
        return {"self": self.self_obj(), "paths": MapVal.named("m", PATH, KEY, with_keys=True, ordered=True)}

    def loc_inj(self, so):
        data = so.fields["_data_root"].term
        p, q = z3.Const("p_", PATH.sort()), z3.Const("q2_", PATH.sort())
        return z3.ForAll([p, q], z3.Implies(p != q, z3.And(loc_p(data, p) != loc_p(data, q), loc_p(data, p) != locdir_p(data, q))))

    def requires(self, ctx):
        fs, so = ctx.globals["__fs__"], ctx.args["self"]
        m = ctx.args["paths"]
        root = so.fields["_root"].term
        q = z3.Const(sv.fresh_name("q"), PATH.sort())
        return (
            self.common_requires(ctx)
            + self.REP(fs, so)
            + [
                ("LOC-INJ (hypothesis)", self.loc_inj(so)),
                ("a_path_is_not_its_own_directory", z3.ForAll([q], loc_p(so.fields["_data_root"].term, q) != locdir_p(so.fields["_data_root"].term, q))),
                # COMMIT-PRESENT (C04): only keys whose blob exists are committed
                ("committed_blobs_exist", z3.ForAll([q], z3.Implies(m.has(q), fs.lexists(blob_p(root, m.get(q)))))),
                ("internal_dir_is_absolute (hypothesis of LINK-RESOLVES)", ISABS(root)),
            ]
        )

    def seen(self, m, k, q):
        j = z3.Int(sv.fresh_name("j"))
        return z3.Exists([j], z3.And(0 <= j, j < k, m.keys[j] == q))

    def state_rel(self, ctx, fs1, k):
        fs0 = ctx.old_globals["__fs__"]
        so, m = ctx.args["self"], ctx.old["paths"]
        root, data = so.fields["_root"].term, so.fields["_data_root"].term
        q = z3.Const(sv.fresh_name("q"), PATH.sort())
        kk = z3.Const(sv.fresh_name("kk"), KEY.sort())
        a = z3.Const(sv.fresh_name("a"), P)
        return [
            ("synced_paths_resolve_to_their_blob", z3.ForAll([q], z3.Implies(self.seen(m, k, q), z3.And(fs1.kind[loc_p(data, q)] == LINK, fs1.resolve(loc_p(data, q)) == blob_p(root, m.get(q)))))),
            ("other_path_entries_untouched", z3.ForAll([q], z3.Implies(z3.Not(self.seen(m, k, q)), z3.And(fs1.kind[loc_p(data, q)] == fs0.kind[loc_p(data, q)], fs1.target[loc_p(data, q)] == fs0.target[loc_p(data, q)])))),
            ("blob_area_untouched", z3.ForAll([kk], z3.And(*[z3.And(fs1.kind[p] == fs0.kind[p], fs1.content[p] == fs0.content[p], fs1.complete[p] == fs0.complete[p]) for p in (blob_p(root, kk), meta_p(root, kk))]))),
            ("store_dirs_kept", z3.And(fs1.kind[root] == DIR, fs1.kind[CHILD(root, SEG_BLOBS)] == DIR, fs1.kind[data] == DIR)),
            ("only_directories_are_created_elsewhere", z3.ForAll([a], z3.Implies(z3.And(fs0.lexists(a), z3.ForAll([q], z3.And(a != loc_p(data, q), a != tmp_loc_p(data, q)))), z3.And(fs1.kind[a] == fs0.kind[a], fs1.target[a] == fs0.target[a])))),
        ]

    def inv(self, ctx, env, k):
        fs1 = ctx.globals["__fs__"]
        # the state after k iterations is a well-formed file system (the loop havocs the ghost state: nothing about it is
        # known but what the invariant says)
        return [("fs_wf", fs1.wf()[0])] + self.state_rel(ctx, fs1, k) + [("REP:" + n, c) for n, c in self.REP(fs1, ctx.args["self"])]

    def ensures(self, ctx):
        fs1 = ctx.globals["__fs__"]
        m = ctx.old["paths"]
        n = z3.Length(m.keys)
        return self.state_rel(ctx, fs1, n) + [("REP_preserved:" + nm, c) for nm, c in self.REP(fs1, ctx.args["self"])]

    def signals(self, ctx):
        return [("commit_of_present_blobs_raises_nothing", False)]


class Local_fetch_paths(_Local):
    qualname = "LocalFileStore.fetch_paths"
    may_raise = True

    def __init__(self):
        super().__init__()
        self.loops[0] = LoopSpec(invariant=self.inv)
        self.globals["OrderedDict"] = Model(lambda eng, a, k, n: MapVal.empty(PATH, KEY, ordered=True), "OrderedDict")

    def make_args(self, eng):
        return {"self": self.self_obj(), "paths": TSeq(PATH).const("paths")}

    def requires(self, ctx):
        return self.common_requires(ctx) + self.REP(ctx.globals["__fs__"], ctx.args["self"])

    def key_at(self, fs, so, q):
        """the key a committed path serves: the name of the blob file its link resolves to"""
        return KEYOFSEG(LASTSEG(fs.resolve(loc_p(so.fields["_data_root"].term, q))))

    def inv(self, ctx, env, k):
        fs0, fs1 = ctx.old_globals["__fs__"], ctx.globals["__fs__"]
        so, l = ctx.args["self"], ctx.args["paths"].term
        res = env["res"]
        j = z3.Int(sv.fresh_name("j"))
        return [
            ("read_only", self.fs_same(fs0, fs1)),
            ("answers_so_far", z3.ForAll([j], z3.Implies(z3.And(0 <= j, j < k), z3.And(res.has(l[j]), res.get(l[j]) == self.key_at(fs0, so, l[j]), fs0.exists(loc_p(so.fields["_data_root"].term, l[j])))))),
            ("nothing_else", forall(PATH, lambda q: z3.Implies(res.has(q), z3.Exists([j], z3.And(0 <= j, j < k, l[j] == q))))),
        ]

    def ensures(self, ctx):
        l = ctx.args["paths"].term
        return self.inv(ctx, {"res": ctx.result}, z3.Length(l))

    def signals(self, ctx):
        fs0 = ctx.old_globals["__fs__"]
        so, l = ctx.args["self"], ctx.args["paths"].term
        j = z3.Int(sv.fresh_name("j"))
        e = ctx.exc
        return [
            ("only_coded_dds_errors", e.cls is DS.DDSException),
            ("only_when_some_path_is_not_committed", z3.Exists([j], z3.And(0 <= j, j < z3.Length(l), z3.Not(fs0.exists(loc_p(so.fields["_data_root"].term, l[j])))))),
        ]


SPECS = [Local_has_blob, Local_fetch_blob, Local_store_blob, Local_sync_paths, Local_fetch_paths]


# =================================================================================================
# constructor (C16)
# =================================================================================================
ABSP = z3.Function("abspath", P, P)


class Local_init(_Local):
    """LocalFileStore(internal_dir, data_dir): for any usable directories (absolute or relative, existing or not) the
    three directories exist afterwards and the store works with absolute locations, so that link targets resolve from the
    link's directory and from any later working directory (LINK-RESOLVES)."""

    qualname = "LocalFileStore.__init__"
    may_raise = True

    def __init__(self):
        super().__init__()
        self.classes["os.path"]["abspath"] = Model(lambda eng, a, k, n: Sym(ABSP(fs_path(eng, a[1])), FSP), "os.path.abspath")

    def make_args(self, eng):
        return {"self": ObjVal("LocalFileStore"), "internal_dir": FSP.const("internal_dir"), "data_dir": FSP.const("data_dir"), "create_dirs": True}

    def usable(self, fs, p):
        a = z3.Const(sv.fresh_name("a"), P)
        return z3.ForAll([a], z3.Implies(z3.And(IS_ANC(a, p), fs.lexists(a)), fs.isdir(a)))

    def requires(self, ctx):
        fs = ctx.globals["__fs__"]
        i, d = ctx.args["internal_dir"].term, ctx.args["data_dir"].term
        a = z3.Const("a_", P)
        s = z3.Const("s_", SG)
        return self.common_requires(ctx) + [
            ("abspath_is_absolute", z3.ForAll([a], z3.And(ISABS(ABSP(a)), z3.Implies(ISABS(a), ABSP(a) == a)))),
            # usable configuration: whatever exists along the two directories (under either name) is a directory
            ("internal_dir_usable", z3.And(self.usable(fs, i), self.usable(fs, ABSP(i)), self.usable(fs, CHILD(i, SEG_BLOBS)), self.usable(fs, CHILD(ABSP(i), SEG_BLOBS)))),
            ("data_dir_usable", z3.And(self.usable(fs, d), self.usable(fs, ABSP(d)))),
        ]

    def ensures(self, ctx):
        fs1 = ctx.globals["__fs__"]
        so = ctx.args["self"]
        root, data = so.fields.get("_root"), so.fields.get("_data_root")
        ok = isinstance(root, Sym) and isinstance(data, Sym)
        if not ok:
            return [("fields_set", False)]
        return [
            ("internal_dir_exists", fs1.isdir(root.term)),
            ("blobs_dir_exists", fs1.isdir(CHILD(root.term, SEG_BLOBS))),
            ("data_dir_exists", fs1.isdir(data.term)),
            # LINK-RESOLVES: link targets are built from _root, links live under _data_root
            ("link_targets_are_absolute", ISABS(root.term)),
            ("path_locations_survive_a_change_of_working_directory", ISABS(data.term)),
        ]

    def signals(self, ctx):
        return [("usable_configuration_is_accepted", False)]


SPECS = [Local_has_blob, Local_fetch_blob, Local_store_blob, Local_sync_paths, Local_fetch_paths, Local_init]


# =================================================================================================
# crash safety (C06): a crash condition after every file-system effect, CHL style
# =================================================================================================


class _Crash:
    """mix-in: after every effect, the state a kill -9 would leave must be Recoverable"""

    crash_mode = True

    def visible_ok(self, fs, so, k):
        root = so.fields["_root"].term
        return z3.Implies(
            fs.exists(blob_p(root, k)),  # what has_blob answers in the recovery process
            z3.And(fs.kind[blob_p(root, k)] == FILE, fs.complete[blob_p(root, k)], fs.kind[meta_p(root, k)] == FILE, fs.complete[meta_p(root, k)], REGISTERED(PROTO_OF(fs.content[meta_p(root, k)]))),
        )

    def path_ok(self, fs, fs0, so, q, new_key=None):
        """a path committed before the crash still resolves to a complete blob: its old one or the new one"""
        root, data = so.fields["_root"].term, so.fields["_data_root"].term
        loc = loc_p(data, q)
        tgt = fs.resolve(loc)
        ok_old = z3.And(fs.kind[loc] == LINK, tgt == fs0.resolve(loc))
        ok = ok_old if new_key is None else z3.Or(ok_old, z3.And(fs.kind[loc] == LINK, tgt == blob_p(root, new_key)))
        return z3.Implies(fs0.lexists(loc), z3.And(ok, fs.lexists(tgt)))

    def on_fs_effect(self, eng, what, p, n):
        ctx = self.ctx
        fs, fs0, so = eng.st.globals["__fs__"], ctx.old_globals["__fs__"], ctx.args["self"]
        tag = "crash_after:%s" % what
        k = z3.Const(sv.fresh_name("k"), KEY.sort())
        q = z3.Const(sv.fresh_name("q"), PATH.sort())
        cur_key, cur_path, new_key = self.crash_focus(eng)
        self._classes = {}
        # R1: every blob the recovery process would see as present is complete and has its metadata
        g1 = z3.ForAll([k], self.visible_ok(fs, so, k))
        if cur_key is not None:
            self._classes[tag + ":visible_blobs_are_complete"] = {"blob_visible_before_commit": z3.Not(self.visible_ok(fs, so, cur_key))}
        eng.oblige(tag + ":visible_blobs_are_complete", g1, kind="crash", cut=False)
        # R3: paths committed before still serve a complete value (old or new)
        g3 = z3.ForAll([q], self.path_ok(fs, fs0, so, q, None if cur_path is None else None))
        if cur_path is not None:
            g3 = z3.ForAll([q], z3.If(q == cur_path, self.path_ok(fs, fs0, so, q, new_key), self.path_ok_loop(fs, so, q)))
            # recorded class: the path being RE-POINTED to a new key is briefly without link; a path whose key is unchanged
            # must never be touched
            data = so.fields["_data_root"].term
            root = so.fields["_root"].term
            repointed = fs0.resolve(loc_p(data, cur_path)) != blob_p(root, new_key)
            self._classes[tag + ":committed_paths_still_resolve"] = {"unlink_before_relink": z3.And(z3.Not(self.path_ok(fs, fs0, so, cur_path, new_key)), repointed)}
        eng.oblige(tag + ":committed_paths_still_resolve", g3, kind="crash", cut=False)

    def path_ok_loop(self, fs, so, q):
        root, data = so.fields["_root"].term, so.fields["_data_root"].term
        loc = loc_p(data, q)
        kk = z3.Const(sv.fresh_name("kk"), KEY.sort())
        return z3.Implies(fs.lexists(loc), z3.And(fs.kind[loc] == LINK, z3.Exists([kk], z3.And(fs.resolve(loc) == blob_p(root, kk), fs.lexists(blob_p(root, kk))))))

    def crash_focus(self, eng):
        return None, None, None

    def finding_classes(self, ctx):
        return getattr(self, "_classes", {})


class Local_store_blob_crash(_Crash, Local_store_blob):
    variant = "crash points"

    def crash_focus(self, eng):
        return self.ctx.args["key"].term, None, None

    def ensures(self, ctx):
        return [("completed", True)]

    def signals(self, ctx):
        return [("completed", True)]


class Local_sync_paths_crash(_Crash, Local_sync_paths):
    variant = "crash points"

    def crash_focus(self, eng):
        env = eng.frames[-1].env if eng.frames else {}
        p, k = env.get("path"), env.get("key")
        if isinstance(p, Sym) and isinstance(k, Sym):
            return None, p.term, k.term
        return None, None, None

    def ensures(self, ctx):
        return [("completed", True)]

    def signals(self, ctx):
        return [("completed", True)]


CRASH_SPECS = [Local_store_blob_crash, Local_sync_paths_crash]
