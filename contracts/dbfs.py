"""Contracts for dds/codecs/databricks.py:DBFSStore.__init__ -- the legacy codec aliases (C19 ALIAS)."""
import z3

from .common import *
from pyvc.engine import _Raise, _PathEnd
import dds.structures as DS


def codec(kind):
    def model(eng, args, kwargs, node):
        return ObjVal("codec:" + kind, kind=kind)

    return Model(model, kind)


class dbfs_init(FnSpec):
    """blobs whose metadata names a legacy reference dbfs.<kind> are decoded by the codec of the same kind"""

    file, qualname = "dds/codecs/databricks.py", "DBFSStore.__init__"

    def __init__(self):
        super().__init__()
        g = self.globals
        g["StringLocalFileCodec"] = codec("string")
        g["PickleLocalFileCodec"] = codec("pickle")
        g["BytesFileCodec"] = codec("bytes")
        g["PandasFileCodec"] = codec("pandas")
        g["PySparkDatabricksCodec"] = codec("pyspark")
        g["CodecRegistry"] = Model(self.m_registry, "CodecRegistry")
        g["ProtocolRef"] = Model(lambda eng, a, k, n: a[0], "ProtocolRef")

    def m_registry(self, eng, args, kwargs, node):
        eng.event("registry", codecs=args[0], file_codecs=args[1])
        return ObjVal("CodecRegistry", _protocols={})

    def setitem(self, eng, o, k, v, node):
        if isinstance(o, dict) and isinstance(k, str):
            o[k] = v
            return
        return super().setitem(eng, o, k, v, node)

    def make_args(self, eng):
        return {"self": ObjVal("DBFSStore"), "internal_dir": Opaque("internal_dir"), "data_dir": Opaque("data_dir"), "dbutils": Opaque("dbutils"), "commit_type": Opaque("commit_type")}

    def ensures(self, ctx):
        reg = ctx.args["self"].fields.get("_registry")
        if not isinstance(reg, ObjVal):
            return [("registry_built", False)]
        p = reg.fields["_protocols"]
        out = []
        for kind in ("pickle", "string", "bytes"):
            c = p.get("dbfs." + kind)
            out.append(("legacy_alias_dbfs_%s_denotes_the_%s_codec" % (kind, kind), isinstance(c, ObjVal) and c.fields.get("kind") == kind))
        ev = [e for e in ctx.events if e.kind == "registry"]
        kinds = lambda l: sorted(x.fields["kind"] for x in (l.items if isinstance(l, ListVal) else l))
        out.append(("registry_has_all_builtin_file_codecs", len(ev) == 1 and kinds(ev[0].data["file_codecs"]) == ["bytes", "pandas", "pickle", "string"] and kinds(ev[0].data["codecs"]) == ["pyspark"]))
        out.append(("fields_set", all(f in ctx.args["self"].fields for f in ("_internal_dir", "_data_dir", "_dbutils", "_commit_type"))))
        return out


SPECS = [dbfs_init]
