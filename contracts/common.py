"""Shared sorts, the abstract store view (DESIGN 4.2) and helper predicates for contracts."""
import z3

from pyvc import sv
from pyvc.sv import Opaque, Sym, MapVal, ObjVal, ListVal, SeqBox, ExcVal, TInt, TBool, TStr, TOpt, TSeq, TTup, TUn, TRec, TEnum
from pyvc.engine import Model, _Raise, _PathEnd, OutOfSubset
from pyvc.spec import FnSpec, LoopSpec, Ctx

KEY = TUn("Key")  # PyHash when only identity matters
PATH = TUn("Path")  # DDSPath when only identity matters
ANY = TUn("Any", none=True)  # arbitrary Python object; py_none_Any models None
REF = TOpt(TStr)  # Optional[ProtocolRef]


def forall(sort_or_ty, body, base="q"):
    s = sort_or_ty.sort() if hasattr(sort_or_ty, "sort") and not isinstance(sort_or_ty, z3.SortRef) else sort_or_ty
    v = z3.Const(sv.fresh_name(base), s)
    return z3.ForAll([v], body(v))


def exists(sort_or_ty, body, base="e"):
    s = sort_or_ty.sort() if hasattr(sort_or_ty, "sort") and not isinstance(sort_or_ty, z3.SortRef) else sort_or_ty
    v = z3.Const(sv.fresh_name(base), s)
    return z3.Exists([v], body(v))


def map_eq(a, b):
    """extensional equality of two maps as partial functions"""
    return z3.And(a.dom == b.dom, forall(a.kty, lambda k: z3.Implies(z3.Select(a.dom, k), z3.Select(a.val, k) == z3.Select(b.val, k))))


def map_is_update(new, old, k, v):
    """new == old[k |-> v] as partial functions"""
    return z3.And(
        new.dom == z3.Store(old.dom, k, z3.BoolVal(True)),
        z3.Select(new.val, k) == v,
        forall(new.kty, lambda q: z3.Implies(z3.And(q != k, z3.Select(old.dom, q)), z3.Select(new.val, q) == z3.Select(old.val, q))),
    )


def map_is_override(new, old, m):
    """new == old (+) m  (right-biased union) as partial functions"""
    return z3.And(
        forall(new.kty, lambda q: z3.Select(new.dom, q) == z3.Or(z3.Select(old.dom, q), z3.Select(m.dom, q))),
        forall(new.kty, lambda q: z3.Implies(z3.Select(m.dom, q), z3.Select(new.val, q) == z3.Select(m.val, q))),
        forall(new.kty, lambda q: z3.Implies(z3.And(z3.Not(z3.Select(m.dom, q)), z3.Select(old.dom, q)), z3.Select(new.val, q) == z3.Select(old.val, q))),
    )


def DDSExc(code=None):
    import dds.structures as S

    return ExcVal(S.DDSException, code=code)


# ---------------------------------------------------------------------------------------------
# abstract Store (interface contract, FaithfulStore level; DESIGN 4.2)
# ---------------------------------------------------------------------------------------------


def abstract_store(name="store"):
    return ObjVal("Store", blobs=MapVal.named(name + ".blobs", KEY, ANY), paths=MapVal.named(name + ".paths", PATH, KEY))


def _st_has_blob(eng, args, kwargs, node):
    st, key = args[0], args[1]
    eng.event("has_blob", store=st, key=key)
    if isinstance(key, sv.Opaque):
        return TBool.fresh("has_blob_of_opaque_key")
    return Sym(st.blobs.has(KEY.lift(key).term), TBool)


def _st_fetch_blob(eng, args, kwargs, node):
    st, key = args[0], args[1]
    k = KEY.lift(key).term
    eng.event("fetch_blob", store=st, key=key)
    return Sym(z3.If(st.blobs.has(k), st.blobs.get(k), ANY.none_term()), ANY)


def _st_store_blob(eng, args, kwargs, node):
    st, key, blob = args[0], args[1], args[2]
    k = KEY.lift(key).term
    b = ANY.lift(blob).term
    eng.event("store_blob", store=st, key=key, blob=blob)
    st.blobs.dom = z3.Store(st.blobs.dom, k, z3.BoolVal(True))
    st.blobs.val = z3.Store(st.blobs.val, k, b)
    return None


def _st_sync_paths(eng, args, kwargs, node):
    st, m = args[0], args[1]
    eng.event("sync_paths", store=st, paths=m.snapshot())
    old = st.paths.snapshot()
    new = MapVal.fresh("paths", PATH, KEY)
    st.paths.dom, st.paths.val = new.dom, new.val
    eng.assume(map_is_override(st.paths, old, m), heavy=True)
    return None


ABSTRACT_STORE_CLASS = {
    "has_blob": Model(_st_has_blob, "Store.has_blob"),
    "fetch_blob": Model(_st_fetch_blob, "Store.fetch_blob"),
    "store_blob": Model(_st_store_blob, "Store.store_blob"),
    "sync_paths": Model(_st_sync_paths, "Store.sync_paths"),
}
