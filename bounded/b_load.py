"""Bounded stand-in for C09 (labelled bounded): placements of a load x producers x histories, end to end.

placement of dds.load: top level of the evaluated function / nested helper / inside a kept function
producer of the path:  dds.keep call / @data_function; in the same evaluation BEFORE the load, in the same evaluation AFTER
                       the load, in an EARLIER evaluation, NEVER
history:               fresh store; populated store after changing a variable the producer depends on
Expected: the load returns the value most recently kept at the path in program order; a kept reader is re-executed exactly when
the path serves another result; reading before producing (same evaluation) or a path never produced is a DDS error."""
import importlib
import itertools
import json
import os
import shutil
import sys
import tempfile

TEMPLATE = '''
import dds
V = 1
CALLS = []
def prod_body():
    CALLS.append("prod")
    return "P%d" % V
{producer_def}
def read_value():
    {read_import}
{read_body}
def kept_reader():
    CALLS.append("reader")
    return read_value()
def helper():
    {helper_body}
def root():
    {root_body}
def only_producer():
    return {produce_call}
'''


def main():
    payload = json.loads(sys.stdin.read())
    open_classes = {k["class"] for k in payload["known"]}
    import dds
    from dds.structures import DDSException

    violations, known, evals = [], {}, 0
    samples = []

    def note(cls, what):
        if cls in open_classes:
            known.setdefault(cls, []).append(what)
        elif len(violations) < 10:
            violations.append({"what": what})

    d = tempfile.mkdtemp(prefix="dds_b_load_")
    sys.path.insert(0, d)
    n = 0
    try:
        STYLES = {"module": ("pass", "dds.load"), "local_import": ("import dds", "dds.load"), "local_import_as": ("import dds as d2", "d2.load"), "local_from_import": ("from dds import load as ld", "ld"),
                  "keyword_argument_value": ("pass", "dds.load"), "argument_of_a_method_of_a_local_object": ("pass", "dds.load"), "inside_a_comprehension": ("pass", "dds.load"), "default_of_a_conditional_expression": ("pass", "dds.load")}
        BODIES = {"keyword_argument_value": '    return "read:" + "{x}".format(x=%s("/c09/p"))', "argument_of_a_method_of_a_local_object": '    acc = []\n    acc.append(%s("/c09/p"))\n    return "read:" + acc[0]',
                  "inside_a_comprehension": '    return "read:" + [%s(p_) for p_ in ["/c09/p"]][0]', "default_of_a_conditional_expression": '    return "read:" + (%s("/c09/p") if V > 0 else "")'}
        cases = [(pk, pl, wh, "module") for pk, pl, wh in itertools.product(("keep", "data_function"), ("inline", "top", "helper", "kept"), ("before", "after", "after_populated", "earlier", "never"))]
        # how the reading function gets hold of dds: module-level import (above) or an import inside the function body
        cases += [("keep", pl, wh, st) for pl, wh, st in itertools.product(("top", "kept"), ("before", "earlier", "after"), ("local_import", "local_import_as", "local_from_import"))]
        # the producing function kept under two paths in the same evaluation (the loaded path is the second keep site)
        # where in the reader's body the load is written
        cases += [("keep", pl, wh, st) for pl, wh, st in itertools.product(("top", "kept"), ("before", "earlier"), ("keyword_argument_value", "argument_of_a_method_of_a_local_object", "default_of_a_conditional_expression"))]
        cases += [("keep_twice", pl, wh, "module") for pl, wh in itertools.product(("top", "kept"), ("before", "after", "after_populated", "earlier"))]
        for prod_kind, placement, when, style in cases:
            n += 1
            read_import, load_name = STYLES[style]
            if prod_kind == "keep_twice":
                producer_def = ""
                produce_call = '(dds.keep("/c09/p0", prod_body), dds.keep("/c09/p", prod_body))[1]'
            elif prod_kind == "keep":
                producer_def = ""
                produce_call = 'dds.keep("/c09/p", prod_body)'
            else:
                producer_def = '@dds.data_function("/c09/p")\ndef prod_df():\n    return prod_body()\n'
                produce_call = "prod_df()"
            read = {"inline": '"read:" + dds.load("/c09/p")', "top": "read_value()", "helper": "helper()", "kept": 'dds.keep("/c09/r", kept_reader)'}[placement]
            helper_body = "return read_value()"
            if when == "before":
                root_body = "x = %s\n    return %s" % (produce_call, read)
            elif when in ("after", "after_populated"):
                root_body = "y = %s\n    x = %s\n    return y" % (read, produce_call)
            else:
                root_body = "return %s" % read
            name = "c09_mod_%d" % n
            with open(os.path.join(d, name + ".py"), "w") as f:
                read_body = BODIES.get(style, '    return "read:" + %s("/c09/p")') % load_name
                f.write(TEMPLATE.format(producer_def=producer_def, helper_body=helper_body, root_body=root_body, produce_call=produce_call, read_import=read_import, read_body=read_body))
            m = importlib.import_module(name)
            dds.accept_module(m)
            kinds_ = ["memory"]
            if style == "module" and prod_kind in ("keep", "data_function") and placement in ("top", "kept") and when in ("before", "earlier"):
                kinds_ += ["memory+cache", "local+cache"]  # the object cache in front of a store, same object through the whole history
            for sk in kinds_:
                if sk == "memory":
                    dds.set_store("memory")
                elif sk == "memory+cache":
                    dds.set_store("memory", cache_objects=2)
                else:
                    sd = os.path.join(d, "store_%d" % n)
                    dds.set_store("local", internal_dir=os.path.join(sd, "int"), data_dir=os.path.join(sd, "data"), cache_objects=2)
                tag = "producer=%s placement=%s producer-%s%s%s" % (prod_kind, placement, when, "" if style == "module" else (" (the reader does `%s` inside its body)" % read_import if read_import != "pass" else " (the load is written as %s)" % style.replace("_", " ")), "" if sk == "memory" else " [store: %s]" % sk)
                results = []
                if when == "after_populated":
                    # the path was committed by an earlier evaluation; then a dependency of the producer is edited
                    m.V = 0
                    dds.eval(m.only_producer)
                for v in (1, 2, 1):  # the last step goes back to an earlier state: the path must follow
                    m.V = v
                    evals += 1
                    if when == "earlier":
                        dds.eval(m.only_producer)
                    m.CALLS.clear()
                    try:
                        r = dds.eval(m.root)
                    except DDSException as e:
                        r = "DDSError"
                    except BaseException as e:
                        r = "<%s: %s>" % (type(e).__name__, str(e)[:60])
                    results.append((r, list(m.CALLS)))
                if when in ("before", "earlier"):
                    want = ["read:P1", "read:P2", "read:P1"]
                else:
                    want = ["DDSError", "DDSError", "DDSError"]
                got = [r for r, _ in results]
                if len(samples) < 3:
                    samples.append({"case": tag, "results": got})
                if got != want:
                    cls = None
                    if when == "after" and all(isinstance(g, str) and (g.startswith("read:") or g.startswith("<")) for g in got):
                        cls = "read_before_produce_not_rejected"
                    if style in ("local_import_as", "local_from_import"):
                        # a name bound by an import statement inside the function body (other than the module's own name) is
                        # not resolvable by the analysis: the load is invisible to it
                        cls = "load_through_function_local_import_alias"
                    note(cls, "%s: results for V=1, V=2, V=1 are %r, expected %r" % (tag, got, want))
                elif placement == "kept" and when in ("before", "earlier"):
                    # the kept reader must re-run when the path serves another result, and be served from the store otherwise
                    m.CALLS.clear()
                    dds.eval(m.root)
                    if "reader" in m.CALLS:
                        note(None, "%s: unchanged pipeline re-executed the kept reader" % tag)
    finally:
        sys.path.remove(d)
        shutil.rmtree(d, ignore_errors=True)
    print(json.dumps({"scope": "2 producer kinds x 4 load placements x 5 producer positions x history (V=1 fresh, V=2 populated, V=1 again) on the memory store; the 16 module-level before / earlier cases also behind the object cache (memory, local) + 8 cases where the producing function is kept under two paths + 18 cases where the reader imports dds inside its body (import / import as / from import) + 12 cases where the load is written inside a keyword-argument value / an argument of a method of a local object / a conditional expression", "evaluations": evals, "distinct_nontrivial": n, "exhaustive": True,
                      "rule": "one case per (producer kind, placement, position); each evaluated twice with a changed dependency", "samples": samples, "violations": violations,
                      "known_hits": ["bounded:%s (%d cases, e.g. %s)" % (c, len(w), w[0][:170]) for c, w in sorted(known.items())]}))


if __name__ == "__main__":
    main()
