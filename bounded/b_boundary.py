"""Bounded stand-in for C14 (labelled bounded): the accepted / non-accepted boundary, end to end.

A package chain q0.q1....q5 (one module `m` with a function `f` and a variable `V` at every depth) and a caller module
`bmain` (always accepted) that reaches every level through several import forms.  For every accepted prefix depth k
(accept q0...q(k-1): levels >= k-1 are inside an accepted package, the others are not; k = 0 accepts nothing of the chain)
and every level L: edit f / V of level L and recompute, in a fresh process, the signature of every caller.
Spec: the signature of a caller of level L changes iff level L lies in an accepted package -- whatever the import form,
including a function of an accepted module reached through a non-accepted module that re-exports it.  Plus: a data function
defined in a non-accepted module is refused with a DDS error naming the module.
"""
import json
import os
import shutil
import subprocess
import sys
import tempfile
from concurrent.futures import ThreadPoolExecutor

DEPTH = 6
FORMS = ["from_import", "import_as", "from_pkg_import_module", "dotted", "reexport_through_non_accepted", "variable_from_import"]

RUNNER = r'''
import sys, os, json
base, k = sys.argv[1], int(sys.argv[2])
sys.path.insert(0, base)
import dds
import dds._api as api
dds.accept_module("bmain")
late = len(sys.argv) > 3 and sys.argv[3] == "late"
if k > 0 and not late:
    dds.accept_module(".".join("q%d" % i for i in range(k)))
dds.set_store("memory")
import bmain
if late:
    # the package is accepted only AFTER a first evaluation of every caller in this process (a notebook where
    # dds.accept_module comes late): from then on everything is as if it had been accepted from the start
    for name in sorted(n for n in dir(bmain) if n.startswith("c_")):
        try:
            dds.keep("/b/" + name, getattr(bmain, name))
        except BaseException:
            pass
    dds.accept_module(".".join("q%d" % i for i in range(k)))
    dds.set_store("memory")
out = {}
for name in sorted(n for n in dir(bmain) if n.startswith("c_")):
    try:
        dds.keep("/b/" + name, getattr(bmain, name))
        out[name] = api._store().fetch_paths(["/b/" + name])["/b/" + name]
    except BaseException as e:
        out[name] = "ERROR %s: %s" % (type(e).__name__, str(e)[:120])
# a data function defined in a module that is not accepted: refused every time, however it is entered
import outside
ref = []
for attempt, how in enumerate(["call", "call", "eval", "call", "eval_plain", "eval_plain", "keep_plain"]):
    try:
        if how == "call":
            outside.g()
        elif how == "eval":
            dds.eval(outside.g)
        elif how == "eval_plain":
            dds.eval(outside.plain)
        else:
            dds.keep("/b/outside_plain", outside.plain)
        ref.append("attempt %d (%s): evaluated" % (attempt + 1, how))
    except BaseException as e:
        ref.append("%s: %s" % (type(e).__name__, str(e)[:300]))
out["__refusal__"] = ref
out["__outside_calls__"] = list(outside.CALLS)
print(json.dumps(out))
'''


def mod_name(level):
    return ".".join("q%d" % i for i in range(level + 1)) + ".m"


def materialise(d):
    p = d
    for i in range(DEPTH):
        p = os.path.join(p, "q%d" % i)
        os.makedirs(p)
        open(os.path.join(p, "__init__.py"), "w").write("")
        open(os.path.join(p, "m.py"), "w").write("V = %d\n\ndef f():\n    return %d\n" % (100 + i, i))
    shim = []
    main = ["import dds", "import shim"]
    body = []
    for L in range(DEPTH):
        m = mod_name(L)
        pkg = m.rsplit(".", 1)[0]
        shim.append("from %s import f as shipped_%d" % (m, L))
        main.append("from %s import f as f_%d, V as V_%d" % (m, L, L))
        main.append("import %s as mm_%d" % (m, L))
        main.append("from %s import m as mod_%d" % (pkg, L))
        main.append("import %s" % m)
        body.append("def c_%d_from_import():\n    return f_%d()\n" % (L, L))
        body.append("def c_%d_import_as():\n    return mm_%d.f()\n" % (L, L))
        body.append("def c_%d_from_pkg_import_module():\n    return mod_%d.f()\n" % (L, L))
        body.append("def c_%d_dotted():\n    return %s.f()\n" % (L, m))
        body.append("def c_%d_reexport_through_non_accepted():\n    return shim.shipped_%d()\n" % (L, L))
        body.append("def c_%d_variable_from_import():\n    return V_%d + 1\n" % (L, L))
    open(os.path.join(d, "shim.py"), "w").write("\n".join(shim) + "\n")
    open(os.path.join(d, "bmain.py"), "w").write("\n".join(main) + "\n\n" + "\n".join(body))
    open(os.path.join(d, "outside.py"), "w").write("import dds\nCALLS = []\n\n@dds.data_function('/b/outside_g')\ndef g():\n    CALLS.append('g')\n    return 1\n\ndef plain():\n    CALLS.append('plain')\n    return 2\n")
    open(os.path.join(d, "runner.py"), "w").write(RUNNER)


def run(d, k, repo, late=False):
    env = dict(os.environ)
    env["PYTHONPATH"] = repo
    env.pop("PYTHONHASHSEED", None)
    p = subprocess.run([sys.executable, os.path.join(d, "runner.py"), d, str(k)] + (["late"] if late else []), capture_output=True, text=True, env=env, cwd=d, timeout=300)
    lines = [l for l in p.stdout.strip().split("\n") if l.startswith("{")]
    if lines:
        return json.loads(lines[-1])
    if "Traceback" not in p.stderr:
        raise RuntimeError("the runner process died without a Python error: " + p.stderr[-300:])
    return {"__crash__": p.stderr[-400:]}


def main():
    payload = json.loads(sys.stdin.read())
    tier = payload["tier"]
    repo = payload.get("repo", "/repo")
    open_classes = {k["class"] for k in payload["known"]}
    tmp = tempfile.mkdtemp(prefix="dds_b_boundary_")
    violations, known, evals, distinct = [], {}, 0, 0

    def note(cls, what):
        if cls in open_classes:
            known.setdefault(cls, []).append(what)
        elif len(violations) < 12:
            violations.append({"what": what})

    ks = list(range(0, DEPTH + 1))
    levels = list(range(DEPTH)) if tier != "quick" else [0, 1, 2, 4, 5]
    jobs = []
    try:
        for k in ks:
            d0 = os.path.join(tmp, "k%d_base" % k)
            materialise(d0)
            jobs.append((k, None, None, d0))
            for L in levels:
                for kind in ("function", "variable"):
                    d = os.path.join(tmp, "k%d_L%d_%s" % (k, L, kind))
                    materialise(d)
                    mp = os.path.join(d, *mod_name(L).split(".")) + ".py"
                    s = open(mp).read()
                    s = s.replace("return %d" % L, "return %d" % (L + 50)) if kind == "function" else s.replace("V = %d" % (100 + L), "V = %d" % (200 + L))
                    open(mp, "w").write(s)
                    jobs.append((k, L, kind, d))
        with ThreadPoolExecutor(max_workers=12) as ex:
            results = list(ex.map(lambda j: run(j[3], j[0], repo), jobs))
        base = {}
        for (k, L, kind, d), r in zip(jobs, results):
            if L is None:
                base[k] = r
        for k in (1, 3, DEPTH):
            evals += 1
            r = run(os.path.join(tmp, "k%d_base" % k), k, repo, late=True)
            diff = sorted(n for n in base[k] if n.startswith("c_") and base[k][n] != r.get(n))
            if "__crash__" in r or diff:
                note(None, "accepted prefix depth %d accepted only after a first evaluation of every caller in the same process: %s" % (k, r.get("__crash__", "")[-160:] or "the signatures of %s differ from those of a process that accepted it from the start (the late acceptance is not honoured)" % diff[:6]))
        for (k, L, kind, d), r in zip(jobs, results):
            evals += 1
            if "__crash__" in r:
                note(None, "accepted depth %d, edit of level %s: the runner crashed: %s" % (k, L, r["__crash__"][-200:]))
                continue
            if L is None:
                errs = {n: v for n, v in r.items() if n.startswith("c_") and str(v).startswith("ERROR")}
                for n, v in sorted(errs.items())[:3]:
                    note("dotted_import_form_not_resolved" if n.endswith("_dotted") else None, "accepted depth %d: evaluating %s fails: %s" % (k, n, v))
                for i_, ref in enumerate(r.get("__refusal__", ["missing"])):
                    if not ("DDSException" in ref and "outside" in ref):
                        note(None, "accepted depth %d: entering a function of the non-accepted module 'outside' (attempt %d of call, call, eval, call, eval, eval, keep) is not refused with a DDS error naming the module: %s" % (k, i_ + 1, ref[:160]))
                        break
                if r.get("__outside_calls__"):
                    note(None, "accepted depth %d: functions of the non-accepted module were executed: %s" % (k, r["__outside_calls__"]))
                continue
            b = base[k]
            # level L is inside an accepted package iff the accepted prefix q0..q(k-1) is a prefix of q0..qL
            tracked = 0 < k <= L + 1
            for form in FORMS:
                if (kind == "variable") != (form == "variable_from_import"):
                    continue
                name = "c_%d_%s" % (L, form)
                if str(b.get(name, "")).startswith("ERROR") or str(r.get(name, "")).startswith("ERROR"):
                    continue  # reported once on the base run
                changed = b.get(name) != r.get(name)
                if form == "variable_from_import" and not tracked:
                    # `from q.m import V` binds V in the accepted caller module: it is a variable of THAT module, and its
                    # value is rightly tracked whatever module computed it -- nothing to demand here
                    continue
                distinct += 1
                if changed != tracked:
                    cls = None
                    note(cls, "accepted prefix depth %d, %s of %s edited, caller form %s: signature %s although the module is %s" % (k, kind, mod_name(L), form, "changed" if changed else "did not change (stale result served)", "accepted" if tracked else "not accepted"))
            # nothing else moves: callers of other levels keep their signature
            for name, v in r.items():
                if name.startswith("c_") and not name.startswith("c_%d_" % L) and b.get(name) != v:
                    note(None, "accepted prefix depth %d, %s of %s edited: the signature of %s (another level) changed" % (k, kind, mod_name(L), name))
                    break
    finally:
        shutil.rmtree(tmp, ignore_errors=True)
    print(json.dumps({
        "scope": "accepted prefix depth 0..%d x edited level %s x {function, variable} x %d import forms (fresh process each), + refusal of a data function in a non-accepted module" % (DEPTH, levels, len(FORMS)),
        "evaluations": evals, "distinct_nontrivial": distinct, "rule": "one case per (accepted depth, edited level, kind); distinct = (case, caller form) pairs compared with 'changes iff accepted'",
        "samples": [{"accepted": "q0.q1", "edited": mod_name(3), "form": "reexport_through_non_accepted"}], "violations": violations,
        "known_hits": ["bounded:%s (%d cases, e.g. %s)" % (c, len(w), w[0][:200]) for c, w in sorted(known.items())]}))


if __name__ == "__main__":
    main()
