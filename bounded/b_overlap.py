"""Bounded stand-in for C11 (labelled bounded): non_terminal_leaves against the prefix-overlap spec.
Scope: every list of 1..4 distinct paths (1..3 segments over {f, g, h}) in every order (quick: lists of <= 3, plus 4-lists
sampled); spec: the result is non-empty iff some path is a strict segment-prefix of another; every reported path is such a prefix."""
import itertools
import json
import random
import sys


def main():
    payload = json.loads(sys.stdin.read())
    tier, seed = payload["tier"], payload["seed"]
    from dds.structures_utils import FunctionInteractionsUtils as U

    segs = ["f", "g", "h"]
    paths = ["/" + "/".join(c) for n in (1, 2, 3) for c in itertools.product(segs, repeat=n)]
    violations, evals, nontriv = [], 0, 0
    rnd = random.Random(seed)

    def segs(p):
        return [x for x in p.split("/") if x != ""]  # "/" is the empty segment list

    def spec(lst):
        out = set()
        for p in lst:
            for q in lst:
                a, b = segs(p), segs(q)
                if p != q and len(a) < len(b) and b[: len(a)] == a:
                    out.add(p)
        return out

    def check(lst):
        nonlocal evals, nontriv
        evals += 1
        want = spec(lst)
        if want:
            nontriv += 1
        try:
            got = set(U.non_terminal_leaves(list(lst), None))
        except BaseException as e:
            violations.append({"what": "non_terminal_leaves(%s) raised %s" % (list(lst), type(e).__name__)})
            return
        if bool(got) != bool(want) or not got <= want:
            if len(violations) < 10:
                violations.append({"what": "kept paths %s: reported %s, paths that are a strict prefix of another: %s" % (list(lst), sorted(got), sorted(want))})

    for n in (1, 2, 3):
        for combo in itertools.permutations(paths, n) if n < 3 else (rnd.sample(paths, 3) for _ in range(4000)):
            check(combo)
    for _ in range(3000 if tier == "quick" else 30000):
        check(rnd.sample(paths, 4))
    # segment names whose characters sort around '/': 'f.meta', 'f-x', 'f+', 'f 1' sort between 'f' and 'f/...' as plain
    # strings, 'f0', 'fg', 'f_' after it, and a name may be a string prefix of another without being a path prefix
    odd = ["f", "f.meta", "f-x", "f+", "f 1", "f0", "fg", "f_", "F", "é"]
    opaths = ["/" + a for a in odd] + ["/%s/%s" % (a, b) for a in odd for b in ("x", "f", "f.meta")] + ["/f/x/y", "/f.meta/x/y", "/g/f/x", "/g/f.meta", "/g/f"]
    for a, b in itertools.permutations(opaths, 2):
        check((a, b))
    for _ in range(6000 if tier == "quick" else 60000):
        check(rnd.sample(opaths, rnd.choice((3, 3, 4, 5))))
    for base in (["/model", "/model.meta", "/model/weights"], ["/a/model", "/a/model-v2", "/a/model/w", "/b"], ["/m", "/m+", "/m/x", "/m 1"]):
        for perm in itertools.permutations(base):
            check(perm)
    # the root path "/" is a prefix of every other path
    for n in (1, 2, 3):
        for _ in range(300):
            base = ["/"] + rnd.sample(paths, n)
            rnd.shuffle(base)
            check(tuple(base))
    check(("/",))
    # the classic cases in every order
    for base in (["/f", "/h", "/f/g"], ["/f/g", "/h", "/f"], ["/f/g/h", "/g", "/h", "/f/g"]):
        for perm in itertools.permutations(base):
            check(perm)
    print(json.dumps({"scope": "all ordered lists of <= 2 of 39 paths over {f,g,h}, sampled lists of 3 and 4, all ordered pairs and sampled lists of 3..5 of 45 paths whose segment names contain characters sorting around '/', classic cases in every order (seed %d)" % seed, "evaluations": evals, "distinct_nontrivial": nontriv,
                      "rule": "one case per ordered list of kept paths; non-trivial = the list contains a prefix overlap", "samples": [["/f", "/h", "/f/g"]], "violations": violations, "known_hits": []}))


if __name__ == "__main__":
    main()
