"""Bounded stand-in for C13 (labelled bounded): argument binding vs spelling, natively.

Scope: def f(a, b=2, c=3) x bindings {1} x {2, 5, None} x {3, 7, 0} x every spelling (positional prefix of length 0..3,
remaining parameters by keyword in every order, parameters bound to their default omitted or not), at run time
(get_arg_ctx) and as literals seen in source (get_arg_ctx_ast); falsy defaults; 32 literal argument expressions
(signed numbers, unary operators, containers, names): a static hash is either absent or the hash of the denoted value;
54 argument contexts: as_hashable is injective on them, relevant_keys as documented."""
import json
import sys


def main():
    payload = json.loads(sys.stdin.read())
    sys.path.insert(0, "/verif")
    from replay import h_args

    violations = []
    n = 0
    for name, fn in (("falsy_default", lambda: h_args.falsy_default({}, {})), ("static_vs_runtime", lambda: h_args.static_vs_runtime({}, {})), ("call_site_histories", lambda: h_args.call_site_histories({}, {})), ("unreadable_signature", lambda: h_args.unreadable_signature({}, {})), ("binding_signatures_end_to_end", lambda: h_args.binding_signatures_end_to_end({}, {}))):
        r = fn()
        n += 1
        if r.get("reproduced"):
            violations.append({"what": "%s: %s" % (name, r["detail"]), "inputs": r.get("inputs")})
    print(json.dumps({"scope": "27 bindings of f(a, b=2, c=3) x all spellings x {run time, literals in source}; 7 falsy defaults; 32 literal argument expressions; 7 keep call sites of f(a, b=0, c=\"z\") analysed in every order of 3 in one process vs fresh processes; 2 classes whose signature cannot be read (derived from dict / ValueError), also end to end; 54 bindings of f(a, b, c=0, d=0) with repeated values kept end to end (run-time values and literals): one signature per binding", "evaluations": 27 * 2 + 7 + 32 * 2 + 630,
                      "distinct_nontrivial": 27 * 2 + 7 + 32 * 2, "rule": "one case per (binding, mode) / default / (expression, position)", "samples": [{"call": "f(1, c=7)"}, {"expression": "~1"}],
                      "violations": violations, "known_hits": []}))


if __name__ == "__main__":
    main()
