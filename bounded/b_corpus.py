"""Bounded relational check of the discovery layer (labelled bounded; serves C01, C02, C03): a template corpus of small
pipelines is materialised in a scratch directory, evaluated in fresh processes against a local store, edited, and
re-evaluated.

  C01  after every edit the values returned by dds equal a dds-free run of the same code (dds.keep replaced by a plain call)
  C02  an edit re-executes a kept function only if the edit is in its dependency cone (DESIGN 4.1); reverting the edit or
       restarting re-executes nothing; signatures of kept paths outside the cone are unchanged
  C03  the signature map is identical under PYTHONHASHSEED 0/1/random, another cwd, the package copied elsewhere,
       extra_debug on/off, after earlier evaluations in the same process, and byte-identical to the pinned map
Mode (payload args.mode): "c01" | "c02" | "c03".  Scope: the templates and edits listed in TEMPLATE / EDITS below.
"""
import json
import re
import os
import shutil
import subprocess
import sys
import tempfile

PKG = {
    "__init__.py": "",
    "consts.py": '''
SCALE = 3
NAME = "n"
ITEMS = [1, 2]
CONF = {"k": 1}
FLAG = True
PAIR = (1, 2)
NOTHING = None
UNUSED = 10
BATCH = 1
RATE = 1
UNITF = 1.0
STAGES = {"clean": 1, "enrich": 2, "publish": 3}
ZEROF = -0.0
TAGS = {"alpha", "beta", "gamma", "delta"}
FROZEN = frozenset(["x-ray", "yankee", "zulu"])
''',
    "cmt.py": '''
import dds

def inner():
    # first wording
    return 1

def top():
    return dds.keep("/cmt/inner", inner) + 1
''',
    "hist.py": '''
def g():
    return 1

def f():
    return g() + 1
''',
    "helpers.py": '''
import functools
from . import consts
from .consts import SCALE

def base():
    return 10

def scaled():
    return base() * SCALE

def named(x, suffix="s"):
    return "%s-%s%s" % (consts.NAME, x, suffix)

def untouched():
    return "constant"

def weight():
    return 7

def sort_key(x):
    return -x

def neg(x):
    return 0 - x

def shipped(x):
    return x + 1000

def local_only():
    return 400

def hash(x):
    return x + 5000

format = "fmt-1"

if SCALE > 0:
    def defined_under_if():
        return 9500
else:
    def defined_under_if():
        return -1

try:
    def defined_under_try():
        return 9600
except ImportError:
    defined_under_try = None

@functools.lru_cache(maxsize=None)
def memo_rate(x):
    return x + 3000

def plus_some(fn):
    @functools.wraps(fn)
    def wrapper(*a, **k):
        return fn(*a, **k) + 4000
    return wrapper

@plus_some
def wrapped_value():
    return 1

class RootConf:
    def deep(self):
        return 900

class BaseConf(RootConf):
    def inherited(self):
        return 800 + self.deep()

class Conf(BaseConf):
    LIMIT = 5

    def __init__(self, base):
        self.base = base

    def compute(self):
        return self.base * 2 + self.extra()

    def extra(self):
        return 600

    @staticmethod
    def stat():
        return 55

def combine(a, w=1):
    return a * w
''',
    "pipe.py": '''
import dds
from . import helpers
from .helpers import scaled as sc, sort_key as skey, Conf
from .helpers import hash, format
from .helpers import memo_rate, wrapped_value, defined_under_if, defined_under_try
from . import consts
from .consts import UNITF as UNITF_D, ZEROF as ZEROF_D, STAGES as STAGES_D
from .consts import BATCH as BATCH_D, RATE as RATE_D, TAGS as TAGS_D, FROZEN as FROZEN_D
from .consts import FLAG as FLAG_D, PAIR as PAIR_D, NOTHING as NOTHING_D, ITEMS as ITEMS_D, CONF as CONF_D, NAME as NAME_D
import extmod
import reexp

CALLS = []

def leaf_plain():
    CALLS.append("leaf_plain")
    return helpers.untouched()

def leaf_scaled():
    CALLS.append("leaf_scaled")
    return sc()

def leaf_items():
    CALLS.append("leaf_items")
    return sum(consts.ITEMS) + consts.CONF["k"]

def leaf_flag():
    CALLS.append("leaf_flag")
    return "on" if consts.FLAG else "off"

def leaf_pair():
    CALLS.append("leaf_pair")
    return consts.PAIR[1], consts.NOTHING

def leaf_direct():
    CALLS.append("leaf_direct")
    return (FLAG_D, PAIR_D, NOTHING_D, ITEMS_D, CONF_D, NAME_D)

def leaf_kw():
    CALLS.append("leaf_kw")
    return helpers.combine(2, w=helpers.weight()), sorted([1, 3, 2], key=skey)

def leaf_href():
    CALLS.append("leaf_href")
    return list(map(helpers.neg, [1, 2]))

def leaf_batch():
    CALLS.append("leaf_batch")
    return "batch=%r" % (BATCH_D,)

def leaf_rate():
    CALLS.append("leaf_rate")
    return "rate=%r" % (RATE_D,)

def reader():
    # evaluated on its own, after the pipeline: the path it loads was committed by an earlier evaluation
    CALLS.append("reader")
    return "read:%s" % (dds.load("/c/plain"),)

def leaf_wrapped():
    CALLS.append("leaf_wrapped")
    return memo_rate(1), wrapped_value(), defined_under_if(), defined_under_try()

def leaf_order():
    CALLS.append("leaf_order")
    return " > ".join(STAGES_D), next(iter(STAGES_D.items()))

def leaf_unit():
    CALLS.append("leaf_unit")
    return "unit=%r %r" % (UNITF_D, ZEROF_D)

def leaf_tags():
    CALLS.append("leaf_tags")
    return sorted(TAGS_D) + sorted(FROZEN_D)

def leaf_li():
    CALLS.append("leaf_li")
    from .helpers import local_only as lo
    return lo()

def leaf_method():
    CALLS.append("leaf_method")
    return Conf(4).compute() + Conf.stat() + Conf(1).inherited()

def leaf_clsattr():
    CALLS.append("leaf_clsattr")
    return Conf.LIMIT

def leaf_crlf():
    CALLS.append("leaf_crlf")
    return "a,b\\r\\n1,2\\rend"

def leaf_shadow():
    CALLS.append("leaf_shadow")
    return (hash(1), format)

def leaf_reexp():
    CALLS.append("leaf_reexp")
    return reexp.shipped(1)

def leaf_ext():
    CALLS.append("leaf_ext")
    return extmod.ext_fun(2)

def with_args(a, b=2, c="z"):
    CALLS.append("with_args:%s" % (a,))
    return "%s/%s/%s" % (a, b, c)

def with_values(a, b=None, c=None):
    CALLS.append("with_values")
    return "v=%s;%s;%s" % (a, b, c)

def dup_leaf(x):
    CALLS.append("dup_leaf")
    return "dup:%r" % (x,)

def ml_leaf(x):
    CALLS.append("ml_leaf")
    return "ml:%r" % (x,)

def with_runtime(x):
    CALLS.append("with_runtime")
    return x + 1

@dds.data_function("/c/optional")
def optional(x=None, y=0):
    CALLS.append("optional")
    return "opt:%r:%r" % (x, y)

@dds.data_function("/c/annotated")
def annotated():
    CALLS.append("annotated")
    return helpers.named("a")

def leaf_twice():
    # the same kept node used twice in one body (min(prices()) ... max(prices()))
    CALLS.append("leaf_twice")
    return annotated() + "|" + annotated()

def root():
    CALLS.append("root")
    out = {}
    out["plain"] = dds.keep("/c/plain", leaf_plain)
    out["scaled"] = dds.keep("/c/scaled", leaf_scaled)
    out["items"] = dds.keep("/c/items", leaf_items)
    out["flag"] = dds.keep("/c/flag", leaf_flag)
    out["pair"] = dds.keep("/c/pair", leaf_pair)
    out["direct"] = dds.keep("/c/direct", leaf_direct)
    out["kw"] = dds.keep("/c/kw", leaf_kw)
    out["href"] = dds.keep("/c/href", leaf_href)
    out["batch"] = dds.keep("/c/batch", leaf_batch)
    out["rate"] = dds.keep("/c/rate", leaf_rate)
    out["tags"] = dds.keep("/c/tags", leaf_tags)
    out["unit"] = dds.keep("/c/unit", leaf_unit)
    out["order"] = dds.keep("/c/order", leaf_order)
    out["wrapped"] = dds.keep("/c/wrapped", leaf_wrapped)
    out["li"] = dds.keep("/c/li", leaf_li)
    out["shadow"] = dds.keep("/c/shadow", leaf_shadow)
    out["crlf"] = dds.keep("/c/crlf", leaf_crlf)
    out["method"] = dds.keep("/c/method", leaf_method)
    out["clsattr"] = dds.keep("/c/clsattr", leaf_clsattr)
    out["reexp"] = dds.keep("/c/reexp", leaf_reexp)
    out["ext"] = dds.keep("/c/ext", leaf_ext)
    out["args"] = dds.keep("/c/args", with_args, 1, c="y")
    out["args2"] = dds.keep("/c/args2", with_args, 2)
    out["args3"] = dds.keep("/c/args3", with_args, 3, 2, "y")
    out["rt"] = dds.keep("/c/rt", with_runtime, out["scaled"])
    # one path kept at two call sites (only one of them runs): the signature registered for the path must not depend on
    # anything but the code
    if len("ab") == 2:
        out["dup"] = dds.keep("/c/dup", dup_leaf, out["scaled"])
    else:
        out["dup"] = dds.keep("/c/dup", dup_leaf, out["plain"])
    out["ann"] = annotated()
    out["opt"] = optional()
    out["ml"] = dds.keep(
        "/c/ml",
        ml_leaf,
        out["scaled"] + 1,
    )
    out["twice"] = dds.keep("/c/twice", leaf_twice)  # (last: nothing after it depends on its position)
    return out
''',
}
EXT = '''
def ext_fun(x):
    return x * 100
'''
# a module that is NOT accepted and re-exports a function defined in the accepted package
REEXP = '''
import os, importlib
shipped = importlib.import_module(os.environ.get("CORPUS_PKG", "corp") + ".helpers").shipped
'''

ALL = ["/c/plain", "/c/scaled", "/c/items", "/c/flag", "/c/pair", "/c/direct", "/c/kw", "/c/href", "/c/batch", "/c/rate", "/c/tags", "/c/unit", "/c/order", "/c/wrapped", "/c/twice", "/c/li", "/c/shadow", "/c/crlf", "/c/method", "/c/clsattr", "/c/reexp", "/c/ext", "/c/args", "/c/args2", "/c/args3", "/c/rt", "/c/dup", "/c/ml", "/c/ann_root", "/c/annotated", "/c/optional", "/c/top_args"]
# edits: (name, file, old, new, kept paths whose cone contains the edit [besides the root], value must change for these)
EDITS = [
    ("callee body (transitive)", "corp/helpers.py", "return 10", "return 11", ["/c/scaled", "/c/rt"]),
    ("imported int variable", "corp/consts.py", "SCALE = 3", "SCALE = 4", ["/c/scaled", "/c/rt"]),
    ("str variable", "corp/consts.py", 'NAME = "n"', 'NAME = "m"', ["/c/annotated", "/c/direct", "/c/rt"]),
    ("list variable", "corp/consts.py", "ITEMS = [1, 2]", "ITEMS = [1, 5]", ["/c/items", "/c/direct", "/c/rt"]),
    ("dict variable", "corp/consts.py", 'CONF = {"k": 1}', 'CONF = {"k": 7}', ["/c/items", "/c/direct", "/c/rt"]),
    ("items of a dict variable reordered (iteration order is observable)", "corp/consts.py", 'STAGES = {"clean": 1, "enrich": 2, "publish": 3}', 'STAGES = {"publish": 3, "clean": 1, "enrich": 2}', ["/c/order", "/c/rt"]),
    ("bool variable", "corp/consts.py", "FLAG = True", "FLAG = False", ["/c/flag", "/c/direct", "/c/rt"]),
    ("tuple variable", "corp/consts.py", "PAIR = (1, 2)", "PAIR = (1, 9)", ["/c/pair", "/c/direct", "/c/rt"]),
    ("None variable", "corp/consts.py", "NOTHING = None", "NOTHING = 5", ["/c/pair", "/c/direct", "/c/rt"]),
    ("own body", "corp/pipe.py", 'return "%s/%s/%s" % (a, b, c)', 'return "%s|%s|%s" % (a, b, c)', ["/c/args", "/c/args2", "/c/args3", "/c/rt"]),
    ("literal keyword argument", "corp/pipe.py", 'with_args, 1, c="y")', 'with_args, 1, c="w")', ["/c/args", "/c/rt"]),
    ("default of a helper parameter", "corp/helpers.py", 'suffix="s"', 'suffix="t"', ["/c/annotated"]),
    ("callee called only inside a keyword-argument value", "corp/helpers.py", "return 7", "return 9", ["/c/kw", "/c/rt"]),
    ("function referenced only as a keyword-argument value", "corp/helpers.py", "return -x", "return x", ["/c/kw", "/c/rt"]),
    ("function referenced through a module attribute", "corp/helpers.py", "return 0 - x", "return 1 - x", ["/c/href", "/c/rt"]),
    ("accepted function reached through a non-accepted re-exporting module", "corp/helpers.py", "return x + 1000", "return x + 2000", ["/c/reexp", "/c/rt"]),
    ("int variable becomes the equal float (another variable holds the same int)", "corp/consts.py", "RATE = 1", "RATE = 1.0", ["/c/rate", "/c/rt"]),
    # (BATCH = 1 -> True is not an edit dds has to see: bool = int is a documented identification of the value hash)
    ("callee imported inside the function body", "corp/helpers.py", "return 400", "return 401", ["/c/li", "/c/rt"]),
    ("method body reached through an instance", "corp/helpers.py", "return 600", "return 601", ["/c/method", "/c/rt"]),
    ("static method body", "corp/helpers.py", "return 55", "return 56", ["/c/method", "/c/rt"]),
    ("body of a helper behind functools.lru_cache", "corp/helpers.py", "return x + 3000", "return x + 3001", ["/c/wrapped", "/c/rt"]),
    ("body of the wrapper that a decorator installs around a helper", "corp/helpers.py", "return fn(*a, **k) + 4000", "return fn(*a, **k) + 4001", ["/c/wrapped", "/c/rt"]),
    ("body of a helper defined under an if at module level", "corp/helpers.py", "return 9500", "return 9501", ["/c/wrapped", "/c/rt"]),
    ("body of a helper defined under a try at module level", "corp/helpers.py", "return 9600", "return 9601", ["/c/wrapped", "/c/rt"]),
    ("body of a helper under a functools.wraps decorator", "corp/helpers.py", "def wrapped_value():\n    return 1", "def wrapped_value():\n    return 2", ["/c/wrapped", "/c/rt"]),
    ("method inherited from a base class of the package", "corp/helpers.py", "return 800 + self.deep()", "return 801 + self.deep()", ["/c/method", "/c/rt"]),
    ("method inherited from the base class of the base class", "corp/helpers.py", "return 900", "return 901", ["/c/method", "/c/rt"]),
    # (a class is a dependency as a whole: every user of Conf is in the cone of an edit anywhere in the class body)
    ("class attribute read without a call", "corp/helpers.py", "LIMIT = 5", "LIMIT = 6", ["/c/clsattr", "/c/method", "/c/rt"]),
    ("run-time argument on a continuation line of a multi-line keep call", "corp/pipe.py", 'out["scaled"] + 1,', 'out["scaled"] + 2,', ["/c/ml"]),
    ("function of the package named like a builtin", "corp/helpers.py", "return x + 5000", "return x + 5001", ["/c/shadow", "/c/rt"]),
    ("variable of the package named like a builtin", "corp/helpers.py", 'format = "fmt-1"', 'format = "fmt-2"', ["/c/shadow", "/c/rt"]),
    ("unused variable", "corp/consts.py", "UNUSED = 10", "UNUSED = 11", []),
    ("two function definitions reordered", "corp/helpers.py", 'def untouched():\n    return "constant"\n\ndef weight():\n    return 7\n', 'def weight():\n    return 7\n\ndef untouched():\n    return "constant"\n', []),
    ("comment and blank lines added between definitions", "corp/helpers.py", "def weight():", "# a remark about weights\n\n\ndef weight():", []),
    ("unrelated definition added", "corp/helpers.py", "def untouched():", "def brand_new():\n    return 0\n\ndef untouched():", []),
    ("non-accepted module body", "extmod.py", "return x * 100", "return x * 200", []),
]
EDITS = [(n_, f_, o_, w_, (c_ + ["/c/dup", "/c/ml"]) if "/c/rt" in c_ else ((c_ + ["/c/twice", "/c/ml"]) if "/c/annotated" in c_ else c_)) for (n_, f_, o_, w_, c_) in EDITS]
EDITS = [(n_, f_, o_, w_, (c_ + ["/c/twice"]) if ("/c/annotated" in c_ and "/c/twice" not in c_) else c_) for (n_, f_, o_, w_, c_) in EDITS]  # /c/ml comes last: everything before it is its context
# which kept paths read the edited variable only through a module attribute (consts.X) / with an untracked value type
ATTR_READERS = {"str variable": ["/c/annotated", "/c/twice"], "list variable": ["/c/items"], "dict variable": ["/c/items"], "bool variable": ["/c/flag"], "tuple variable": ["/c/pair"], "None variable": ["/c/pair"]}
UNTRACKED_TYPES = {"bool variable", "tuple variable", "None variable"}
# a function that is referenced (not called) through a module attribute (helpers.neg) is not discovered: nothing tracks the
# edit, so the later sibling /c/rt (whose call-site context would carry it) is stale for the same reason
FUN_ATTR_READERS = {"function referenced through a module attribute": ["/c/href", "/c/rt", "/c/dup", "/c/ml"]}
# a name bound by an import statement inside the function body is not resolved by the analysis: the callee is invisible
LOCAL_IMPORT_READERS = {"callee imported inside the function body": ["/c/li", "/c/rt", "/c/dup", "/c/ml"]}
# a class that is referenced but not called (Conf.LIMIT) is not inspected at all
CLASS_ATTR_READERS = {"class attribute read without a call": ["/c/clsattr", "/c/rt", "/c/dup", "/c/ml"]}
# a helper wrapped by an object that is not a function (functools.lru_cache) is an opaque external object for the analysis
WRAPPER_READERS = {"body of a helper behind functools.lru_cache": ["/c/wrapped", "/c/rt", "/c/dup", "/c/ml"]}
# the decorators of a function are not among its dependencies: the source of a decorated helper is its own `def`
DECORATOR_READERS = {"body of the wrapper that a decorator installs around a helper": ["/c/wrapped", "/c/rt", "/c/dup", "/c/ml"]}
KNOWN_EDIT_CLASSES = {}

MAIN_SCRIPT = '''
import os
import dds
if os.environ.get("DDS_PLAIN") == "1":
    dds.keep = lambda path, f, *a, **k: f(*a, **k)
    dds.eval = lambda f, *a, **k: f(*a, **k)
else:
    dds.set_store("local", internal_dir="__STORE__/int", data_dir="__STORE__/data")
K = 3
CONF = {"a": 1}
TUP = (1, 2)
def helper():
    return 10
def leaf():
    return helper() * K + CONF["a"] + TUP[1]
def other(x, y=5):
    return "%s-%s" % (x, y)
def root():
    return (dds.keep("/ms/leaf", leaf) + 1, dds.keep("/ms/other", other, 2))
if __name__ == "__main__":
    print("RESULT", dds.keep("/ms/root", root), dds.eval(root))
'''

RUNNER = r'''
import sys, os, json
base, mode = sys.argv[1], sys.argv[2]
sys.path.insert(0, base)
import dds
if mode == "plain":
    dds.keep = lambda path, f, *a, **k: f(*a, **k)
    import dds._annotations as A
    import dds._api as api
    api.keep = dds.keep
    A._keep = dds.keep
pkg = os.environ.get("CORPUS_PKG", "corp")
import importlib
pipe = importlib.import_module(pkg + ".pipe")
import pathlib
# a top-level keep whose arguments are run-time values (hashed by value): relative / absolute / pure paths, text with
# CR LF and LF, nested containers
TOP_ARGS = (pathlib.Path("rel/file.txt"),)
TOP_KW = {"b": {"k": [1, "x\r\ny", "x\ny"], "p": pathlib.Path("/abs/f")}, "c": pathlib.PurePosixPath("u/v")}
if mode == "plain":
    print(json.dumps({"value": repr((pipe.root(), pipe.with_values(*TOP_ARGS, **TOP_KW)))})); sys.exit(0)
if mode == "entry":
    # entry-style switches on a populated store: the data function called directly, through dds.eval, through dds.keep
    dds.accept_module(pkg)
    opts = json.loads(sys.argv[3]) if len(sys.argv) > 3 else {}
    dds.set_store("local", internal_dir=os.path.join(opts.get("store_dir", base), "_int"), data_dir=os.path.join(opts.get("store_dir", base), "_data"))
    out = {}
    for style in opts.get("styles", ["direct", "eval", "keep", "eval", "direct"]):
        pipe.CALLS.clear()
        try:
            if style == "direct":
                v = (pipe.annotated(), pipe.optional())
            elif style == "eval":
                v = (dds.eval(pipe.annotated), dds.eval(pipe.optional))
            else:
                v = (dds.keep("/c/annotated", pipe.annotated), dds.keep("/c/optional", pipe.optional))
            out.setdefault("steps", []).append([style, repr(v), list(pipe.CALLS)])
        except BaseException as e:
            out.setdefault("steps", []).append([style, "%s: %s" % (type(e).__name__, str(e)[:120]), list(pipe.CALLS)])
    print(json.dumps(out)); sys.exit(0)
if mode == "history":
    # evaluate f (which calls g); remove g and the call from the module in this same process; evaluate f again
    import importlib, linecache
    dds.accept_module("corp")
    dds.set_store("memory")
    import corp.hist as hist
    r1 = dds.eval(hist.f)
    src = open(hist.__file__).read().replace("def g():\n    return 1\n", "").replace("return g() + 1", "return 5")
    open(hist.__file__, "w").write(src)
    linecache.checkcache()
    importlib.reload(hist)
    if hasattr(hist, "g"):
        delattr(hist, "g")
    try:
        r2 = dds.eval(hist.f)
        err = None
    except BaseException as e:
        r2, err = None, "%s: %s" % (type(e).__name__, str(e)[:160])
    # a comment-only edit followed by a reload: the signatures must be those a fresh process computes for the new text
    import dds._api as api
    import corp.cmt as cmt
    dds.eval(cmt.top)
    s_before = dict(api._store()._paths)
    src = open(cmt.__file__).read().replace("# first wording", "# second wording")
    open(cmt.__file__, "w").write(src)
    linecache.checkcache()
    importlib.reload(cmt)
    dds.eval(cmt.top)
    s_after = dict(api._store()._paths)
    print(json.dumps({"value": repr((r1, r2)), "error": err, "calls": [], "sigs": {}, "cmt_before": s_before, "cmt_after": s_after})); sys.exit(0)
if mode in ("history2", "history2_fresh"):
    # evaluate f (which calls g); rewrite the module so that g is something else and f no longer uses it; evaluate f
    # again in this process -- or (history2_fresh) evaluate the rewritten module only, in a process without history
    import importlib, linecache
    opts = json.loads(sys.argv[3])
    dds.accept_module("corp")
    dds.set_store("memory")
    hp = os.path.join(base, "corp", "hist.py")
    new_src = opts["g_becomes"] + "\n\ndef f():\n    return 5\n"
    if mode == "history2_fresh":
        open(hp, "w").write(new_src)
    import corp.hist as hist
    out = []
    if mode == "history2":
        out.append(repr(dds.eval(hist.f)))
        open(hp, "w").write(new_src)
        os.utime(hp, (2000000000, 2000000000))
        linecache.checkcache(); importlib.invalidate_caches()
        for k_ in [k_ for k_ in list(hist.__dict__) if not k_.startswith("__")]:
            delattr(hist, k_)
        importlib.reload(hist)
    try:
        out.append(repr(dds.eval(hist.f)))
    except BaseException as e:
        out.append("%s" % type(e).__name__)
    print(json.dumps({"value": out[-1], "all": out, "error": None, "calls": [], "sigs": {}})); sys.exit(0)
if mode == "cmt_fresh":
    dds.accept_module("corp")
    dds.set_store("memory")
    import dds._api as api
    import corp.cmt as cmt
    dds.eval(cmt.top)
    print(json.dumps({"value": "", "error": None, "calls": [], "sigs": dict(api._store()._paths)})); sys.exit(0)
dds.accept_module(pkg)
opts = json.loads(sys.argv[3]) if len(sys.argv) > 3 else {}
if "extra_debug" in opts:
    dds.set_option("extra_debug", opts["extra_debug"])
if opts.get("store") == "memory":
    dds.set_store("memory")
elif opts.get("store") == "noop":
    dds.set_store("noop")
elif opts.get("store") == "local_cache":
    dds.set_store("local", internal_dir=os.path.join(opts.get("store_dir", base), "_int"), data_dir=os.path.join(opts.get("store_dir", base), "_data"), cache_objects=3)
elif opts.get("store") == "dbfs":
    pass
else:
    dds.set_store("local", internal_dir=os.path.join(opts.get("store_dir", base), "_int"), data_dir=os.path.join(opts.get("store_dir", base), "_data"))
if opts.get("store") == "dbfs":
    sys.path.insert(0, "/verif")
    from replay.h_dbfs import FakeDbutils
    dds.set_store("dbfs", internal_dir="dbfs:/int", data_dir="dbfs:/data", dbutils=FakeDbutils(), commit_type=opts.get("commit_type", "full"))
if opts.get("reload"):
    # a notebook cell run again: every function object of the module is replaced by a new one with the same source
    import importlib
    for _ in range(opts["reload"]):
        importlib.reload(pipe)
if opts.get("warm_clash"):
    warm_mod = importlib.import_module(pkg + ".warm")
    dds.eval(warm_mod.warm)
    pipe.CALLS.clear()
if opts.get("graph_warmup"):
    dds.eval(pipe.root, dds_export_graph=os.path.join(opts.get("store_dir", base), "g.svg"), dds_extra_debug=True)
    pipe.CALLS.clear()
for i in range(opts.get("warmup", 0)):
    dds.eval(pipe.leaf_unit)
    dds.eval(pipe.leaf_plain)
    dds.eval(pipe.root)
pipe.CALLS.clear()
err = None
calls1 = []
try:
    v1 = dds.keep("/c/ann_root", pipe.root)
    # CALLS is itself a tracked module variable of every corpus function: it must hold the same value (empty) whenever a
    # signature is computed
    calls1 = list(pipe.CALLS); pipe.CALLS.clear()
    v = (v1, dds.keep("/c/top_args", pipe.with_values, *TOP_ARGS, **TOP_KW))
    pipe.CALLS[:0] = calls1
except BaseException as e:
    v = None; err = "%s: %s" % (type(e).__name__, str(e)[:200])
import dds._api as api
st = api._store()
sigs = {}
for p in __ALL__:
    try:
        sigs[p] = st.fetch_paths([p])[p]
    except BaseException as e:
        sigs[p] = None
if opts.get("reader"):
    saved_calls = list(pipe.CALLS); pipe.CALLS.clear()
    try:
        rv = dds.keep("/c/reader", pipe.reader)
        sigs["/c/reader"] = api._store().fetch_paths(["/c/reader"])["/c/reader"]
        if rv != "read:constant":
            sigs["/c/reader"] = "WRONG VALUE %r" % (rv,)
    except BaseException as e:
        sigs["/c/reader"] = "ERROR %s: %s" % (type(e).__name__, str(e)[:160])
    pipe.CALLS[:] = saved_calls
print(json.dumps({"value": repr(v), "calls": list(pipe.CALLS), "sigs": sigs, "error": err}))
'''.replace("__ALL__", repr(ALL))


def materialise(d):
    os.makedirs(os.path.join(d, "corp"))
    for n, src in PKG.items():
        with open(os.path.join(d, "corp", n), "w") as f:
            f.write(src.lstrip("\n"))
    # a function whose parameters and local variables are named like every module-level name of the package (analysing it
    # first must not change what those names mean to the functions analysed afterwards)
    import ast as _ast, keyword as _kw
    names = set()
    for n_, src_ in PKG.items():
        for node in _ast.walk(_ast.parse(src_)):
            if isinstance(node, (_ast.FunctionDef, _ast.ClassDef)):
                names.add(node.name)
            elif isinstance(node, _ast.alias):
                names.add((node.asname or node.name).split(".")[0])
            elif isinstance(node, _ast.Name) and isinstance(node.ctx, _ast.Store):
                names.add(node.id)
    names = sorted(n_ for n_ in names if n_.isidentifier() and not _kw.iskeyword(n_) and not n_.startswith("__") and n_ != "dds")
    half = len(names) // 2
    with open(os.path.join(d, "corp", "warm.py"), "w") as f:
        f.write("def warm(%s):\n%s    return 0\n" % (", ".join("%s=0" % n_ for n_ in names[:half]), "".join("    %s = 1\n" % n_ for n_ in names[half:])))
    with open(os.path.join(d, "extmod.py"), "w") as f:
        f.write(EXT.lstrip("\n"))
    with open(os.path.join(d, "reexp.py"), "w") as f:
        f.write(REEXP.lstrip("\n"))
    with open(os.path.join(d, "runner.py"), "w") as f:
        f.write(RUNNER)


def run(d, mode, opts=None, env_extra=None, cwd=None):
    env = dict(os.environ)
    env.pop("PYTHONHASHSEED", None)
    env.update(env_extra or {})
    p = subprocess.run([sys.executable, os.path.join(d, "runner.py"), d, mode, json.dumps(opts or {})], capture_output=True, text=True, env=env, cwd=cwd or d, timeout=300)
    lines = [l for l in p.stdout.strip().split("\n") if l.startswith("{")]
    if lines:  # the result is what the runner printed (a native library aborting at interpreter shutdown does not change it)
        return json.loads(lines[-1])
    if "Traceback" not in p.stderr:
        raise RuntimeError("the runner process died without a Python error: " + p.stderr[-300:])
    return {"error": "runner crashed: " + p.stderr[-400:], "value": None, "calls": [], "sigs": {}}


def edit(d, rel, old, new):
    p = os.path.join(d, rel)
    s = open(p).read()
    if old is None:  # revert: `new` is the saved original text of the file
        open(p, "w").write(new)
    else:
        assert s.count(old) == 1, (rel, old, s.count(old))  # an edit touches exactly one place
        open(p, "w").write(s.replace(old, new))
    # make sure the interpreter does not reuse a stale byte-code cache within the same second
    shutil.rmtree(os.path.join(os.path.dirname(p), "__pycache__"), ignore_errors=True)


FUN_OF = {"/c/optional": "optional", "/c/shadow": "leaf_shadow", "/c/ml": "ml_leaf", "/c/crlf": "leaf_crlf", "/c/method": "leaf_method", "/c/clsattr": "leaf_clsattr", "/c/li": "leaf_li", "/c/dup": "dup_leaf", "/c/unit": "leaf_unit", "/c/order": "leaf_order", "/c/wrapped": "leaf_wrapped", "/c/twice": "leaf_twice", "/c/batch": "leaf_batch", "/c/rate": "leaf_rate", "/c/tags": "leaf_tags", "/c/reexp": "leaf_reexp", "/c/top_args": "with_values", "/c/kw": "leaf_kw", "/c/href": "leaf_href", "/c/direct": "leaf_direct", "/c/plain": "leaf_plain", "/c/scaled": "leaf_scaled", "/c/items": "leaf_items", "/c/flag": "leaf_flag", "/c/pair": "leaf_pair", "/c/ext": "leaf_ext", "/c/args": "with_args:1", "/c/args2": "with_args:2", "/c/args3": "with_args:3", "/c/rt": "with_runtime", "/c/annotated": "annotated", "/c/ann_root": "root"}


def main():
    payload = json.loads(sys.stdin.read())
    mode = payload["args"].get("mode", "c01")
    open_classes = {k["class"] for k in payload["known"]}
    violations, known, evals = [], {}, 0
    samples = []

    def note(cls, what):
        if cls in open_classes:
            known.setdefault(cls, []).append(what)
        elif len(violations) < 12:
            violations.append({"what": what})

    tmp = tempfile.mkdtemp(prefix="dds_b_corpus_")
    try:
        if mode == "c01":
            # where the code lives: a __main__ script (functions and variables of the script itself), run as a program,
            # edited between runs; every run prints what plain execution of the edited script prints
            sd = os.path.join(tmp, "main_script")
            os.makedirs(sd)
            script = os.path.join(sd, "script.py")
            open(script, "w").write(MAIN_SCRIPT.replace("__STORE__", sd))
            for (old_, new_) in [(None, None), ("return 10", "return 20"), ("K = 3", "K = 4"), ('"a": 1', '"a": 5'), ("return 20", "return 10"), ("TUP = (1, 2)", "TUP = (1, 7)")]:
                evals += 1
                if old_ is not None:
                    s_ = open(script).read()
                    assert s_.count(old_) == 1, old_
                    open(script, "w").write(s_.replace(old_, new_))
                outs = {}
                for plain in ("0", "1"):
                    env = dict(os.environ, DDS_PLAIN=plain, PYTHONPATH=payload.get("repo", "/repo"))
                    p_ = subprocess.run([sys.executable, script], capture_output=True, text=True, env=env, cwd=sd, timeout=120)
                    outs[plain] = [l for l in p_.stdout.split("\n") if l.startswith("RESULT")] or ["<no result: %s>" % p_.stderr.strip().split("\n")[-1][:160]]
                if outs["0"] != outs["1"]:
                    note(None, "[__main__ script, after edit %r -> %r] dds prints %s, plain execution prints %s" % (old_, new_, outs["0"], outs["1"]))
        if mode == "c01":
            # every store kind: the value is that of plain execution, before and after an edit (in the same directories)
            for kind in ("memory", "noop", "local_cache"):
                d = os.path.join(tmp, "kind_%s" % kind)
                materialise(d)
                for (rel_, old_, new_) in [(None, None, None), ("corp/helpers.py", "return 10", "return 11"), ("corp/consts.py", "SCALE = 3", "SCALE = 4")]:
                    evals += 1
                    if rel_:
                        edit(d, rel_, old_, new_)
                    for rep in (0, 1):
                        got, plain = run(d, "dds", opts={"store": kind}), run(d, "plain")
                        if got.get("error") or got["value"] != plain["value"]:
                            note(None, "[store kind %s, after edit %r, run %d] dds returns %s %s, plain execution gives %s" % (kind, new_, rep, str(got.get("value"))[:200], got.get("error") or "", plain["value"][:200]))
                            break
        if mode in ("c01", "c02"):
            for (name, rel, old, new, cone) in EDITS:
                d = os.path.join(tmp, "case_%d" % evals)
                materialise(d)
                base = run(d, "dds")
                evals += 1
                if base.get("error"):
                    note(None, "base evaluation failed: %s" % base["error"])
                    continue
                again = run(d, "dds")  # fresh process, nothing changed
                if mode == "c02" and again["calls"]:
                    note(None, "restart without any change re-executed %s" % again["calls"])
                if mode == "c02" and evals == 1:
                    # entry-style switches: a data function whose result is stored is not executed again, however it is entered
                    for styles in (["direct", "eval", "keep"], ["eval", "direct"], ["keep", "direct", "eval"]):
                        en = run(d, "entry", opts={"styles": styles})
                        for style, val, calls_ in en.get("steps", []):
                            if calls_:
                                note(None, "entry styles %s on a populated store: entering the data function by '%s' executed %s" % (styles, style, calls_))
                            if val != "('n-as', 'opt:None:0')":
                                note(None, "entry styles %s: '%s' returned %s" % (styles, style, val))
                if mode == "c02" and evals == 1:
                    # the same code copied to another accepted package, same store: nothing is recomputed
                    shutil.copytree(os.path.join(d, "corp"), os.path.join(d, "corp_copy"), ignore=shutil.ignore_patterns("__pycache__"))
                    cp = run(d, "dds", env_extra={"CORPUS_PKG": "corp_copy"})
                    # a module variable of an unsupported type (set / frozenset) is outside the supported subset: it is
                    # identified by where it lives, so its reader (and what depends on the reader's position: the
                    # root, the later sibling with a run-time argument) legitimately differs in the copy
                    # (the same holds for a helper wrapped by a non-function object such as functools.lru_cache: an opaque
                    #  external object named by its location -- open finding callee_behind_a_non_function_wrapper of C01)
                    by_location = {"/c/tags", "/c/wrapped", "/c/rt", "/c/dup", "/c/ml", "/c/ann_root"}
                    moved = [c_ for c_ in cp["calls"] if c_ not in ("root", "leaf_tags", "leaf_wrapped", "with_runtime", "dup_leaf", "ml_leaf")]
                    if cp.get("error") or moved:
                        note(None, "code copied unchanged to another accepted module re-executed %s %s" % (moved, cp.get("error") or ""))
                    diff = [p for p in ALL if cp["sigs"].get(p) != base["sigs"].get(p) and p not in by_location]
                    if diff:
                        note(None, "code copied unchanged to another accepted module gets other signatures for %s" % diff)
                original_text = open(os.path.join(d, rel)).read()
                edit(d, rel, old, new)
                after = run(d, "dds")
                plain = run(d, "plain")
                cls = KNOWN_EDIT_CLASSES.get(name)
                if len(samples) < 3:
                    samples.append({"edit": name, "executed_after_edit": after["calls"]})
                if after.get("error"):
                    note(cls, "[%s] evaluation after the edit failed: %s" % (name, after["error"]))
                    continue
                if mode == "c01":
                    stale = [p for p in cone if after["sigs"].get(p) == base["sigs"].get(p)]
                    for p in stale:
                        if p in ATTR_READERS.get(name, []):
                            c = "variable_read_through_module_attribute"
                        elif p == "/c/direct" and name in UNTRACKED_TYPES:
                            c = "untracked_variable_type"
                        elif p in FUN_ATTR_READERS.get(name, []):
                            c = "function_referenced_through_module_attribute"
                        elif p in LOCAL_IMPORT_READERS.get(name, []):
                            c = "callee_imported_inside_function_body"
                        elif p in CLASS_ATTR_READERS.get(name, []):
                            c = "class_attribute_read_without_call"
                        elif p in WRAPPER_READERS.get(name, []):
                            c = "callee_behind_a_non_function_wrapper"
                        elif p in DECORATOR_READERS.get(name, []):
                            c = "decorator_body_not_tracked"
                        else:
                            c = None
                        note(c, "[%s] the signature of %s did not change although the edit is in its dependency cone (stale result served)" % (name, p))
                    if after["value"] != plain["value"] and name != "non-accepted module body":  # untracked by design (C14)
                        cs = {("variable_read_through_module_attribute" if p in ATTR_READERS.get(name, []) else "untracked_variable_type" if (p == "/c/direct" and name in UNTRACKED_TYPES) else "function_referenced_through_module_attribute" if p in FUN_ATTR_READERS.get(name, []) else "callee_imported_inside_function_body" if p in LOCAL_IMPORT_READERS.get(name, []) else "class_attribute_read_without_call" if p in CLASS_ATTR_READERS.get(name, []) else "callee_behind_a_non_function_wrapper" if p in WRAPPER_READERS.get(name, []) else "decorator_body_not_tracked" if p in DECORATOR_READERS.get(name, []) else None) for p in stale}
                        c = None if (None in cs or not cs) else sorted(cs)[0]
                        note(c, "[%s] dds returns %s, plain execution of the edited code gives %s" % (name, after["value"][:160], plain["value"][:160]))
                else:
                    outside = [p for p in ALL if p not in cone and p != "/c/ann_root"]
                    for p in outside:
                        if after["sigs"].get(p) != base["sigs"].get(p):
                            note(cls, "[%s] the signature of %s changed although the edit is outside its dependency cone" % (name, p))
                        if FUN_OF[p] in after["calls"]:
                            note(cls, "[%s] %s (kept at %s) was re-executed although the edit is outside its dependency cone" % (name, FUN_OF[p], p))
                    edit(d, rel, None, original_text)  # revert
                    rev = run(d, "dds")
                    if rev["calls"]:
                        note(None, "[%s] after reverting the edit %s were re-executed" % (name, rev["calls"]))
                    if rev["sigs"] != base["sigs"]:
                        note(None, "[%s] signatures after the revert differ from the original ones" % name)
                shutil.rmtree(d, ignore_errors=True)
        else:  # c03
            d = os.path.join(tmp, "base")
            materialise(d)
            base = run(d, "dds", {"store": "memory", "reader": True})
            evals += 1
            if base.get("error"):
                note(None, "base evaluation failed: %s" % base["error"])
            if not re.fullmatch(r"[0-9a-f]{64}", str(base["sigs"].get("/c/reader"))):
                note(None, "reader of a path committed by an earlier evaluation: %s" % base["sigs"].get("/c/reader"))
            variants = [
                ("PYTHONHASHSEED=0", {}, {"PYTHONHASHSEED": "0"}, None, d),
                ("PYTHONHASHSEED=1", {}, {"PYTHONHASHSEED": "1"}, None, d),
                ("PYTHONHASHSEED=4242", {}, {"PYTHONHASHSEED": "4242"}, None, d),
                ("other working directory", {}, {}, tmp, d),
                ("local store", {"store": "local"}, {}, None, d),
                ("extra_debug off", {"store": "memory", "extra_debug": False}, {}, None, d),
                ("extra_debug on", {"store": "memory", "extra_debug": True}, {}, None, d),
                ("after 2 earlier evaluations in the same process", {"store": "memory", "warmup": 2}, {}, None, d),
                ("after analysing a function whose parameters and locals are named like the module-level names of the package", {"store": "memory", "warm_clash": True}, {}, None, d),
                ("local store behind the object cache", {"store": "local_cache"}, {}, None, d),
                ("DBFS store, full commits", {"store": "dbfs", "commit_type": "full"}, {}, None, d),
                ("DBFS store, links only", {"store": "dbfs", "commit_type": "links_only"}, {}, None, d),
                ("module reloaded twice before the evaluation (cell run again)", {"store": "memory", "reload": 2}, {}, None, d),
                ("after an evaluation with graph export and extra_debug", {"store": "local", "graph_warmup": True}, {}, None, d),
            ]
            ln = os.path.join(tmp, "through_symlink")
            os.symlink(d, ln)
            variants.append(("package reached through a symbolic link", {"store": "memory"}, {}, None, ln))
            real_store = os.path.join(tmp, "volume", "real_store")
            os.makedirs(real_store)
            os.symlink(os.path.join(tmp, "volume"), os.path.join(tmp, "mnt"))
            variants.append(("local store whose directories are reached through a symbolic link", {"store": "local", "store_dir": os.path.join(tmp, "mnt", "real_store")}, {}, None, d))
            d2 = os.path.join(tmp, "elsewhere", "deep", "copy")
            os.makedirs(os.path.dirname(d2))
            shutil.copytree(d, d2, ignore=shutil.ignore_patterns("_int", "_data", "__pycache__"))
            variants.append(("package copied to another directory", {"store": "memory"}, {}, None, d2))
            for (vname, opts, env, cwd, where) in variants:
                o = dict(opts)
                o.setdefault("store", "memory")
                o["reader"] = True
                if o["store"] in ("local", "local_cache") and "store_dir" not in o:
                    o["store_dir"] = os.path.join(tmp, "st_%d" % evals)
                r = run(where, "dds", o, env, cwd)
                evals += 1
                if len(samples) < 3:
                    samples.append({"variant": vname})
                if r.get("error"):
                    note(None, "[%s] evaluation failed: %s" % (vname, r["error"]))
                elif r["sigs"] != base["sigs"]:
                    diff = [p for p in ALL if r["sigs"].get(p) != base["sigs"].get(p)]
                    note(None, "[%s] signatures differ from the reference run for %s" % (vname, diff))
            # history in one process: an earlier evaluation must not make a later one fail or change its signatures
            dh = os.path.join(tmp, "hist")
            materialise(dh)
            r = run(dh, "history")
            evals += 1
            if r.get("error") or r.get("value") != "(2, 5)":
                note("stale_global_call_cache", "evaluate f (calls g); remove g and the call in the same process; evaluate f again -> %s (a fresh process evaluates the edited module fine)" % (r.get("error") or r.get("value")))
            # the recorded dependency g is still there but has become something else; whatever a fresh process does with
            # the rewritten module (a value or an error) is what the process with history must do
            for label, g_src in (("a set", "g = {1, 2}"), ("an instance of a class of the module", "class C: pass\ng = C()"), ("an int", "g = 3"), ("a class", "class g: pass"), ("a module", "import os as g"), ("a lambda", "g = lambda: 1"), ("a function with another body", "def g():\n    return 100")):
                dv = os.path.join(tmp, "hist2_%d" % evals)
                materialise(dv)
                with_history = run(dv, "history2", {"g_becomes": g_src})
                dv2 = os.path.join(tmp, "hist2f_%d" % evals)
                materialise(dv2)
                without = run(dv2, "history2_fresh", {"g_becomes": g_src})
                evals += 2
                if with_history.get("value") != without.get("value"):
                    note(None, "evaluate f (calls g); rewrite the module so that g is %s and f no longer uses it; evaluate f again in the same process -> %s, a fresh process gives %s" % (label, with_history.get("value") or with_history.get("error"), without.get("value") or without.get("error")))
                shutil.rmtree(dv, ignore_errors=True); shutil.rmtree(dv2, ignore_errors=True)
            fresh = run(dh, "cmt_fresh")  # the file now holds the second wording
            evals += 1
            if r.get("cmt_after") is not None and r.get("cmt_after") != fresh.get("sigs"):
                note(None, "comment-only edit + reload in the same process: signatures %s differ from those of a fresh process %s" % (r.get("cmt_after"), fresh.get("sigs")))
            if r.get("cmt_after") is not None and r.get("cmt_after") == r.get("cmt_before"):
                note(None, "comment-only edit + reload in the same process: the signatures did not follow the new source text")
            pinned_file = os.path.join(os.path.dirname(os.path.abspath(__file__)), "pinned_signatures.json")
            if payload["args"].get("write_pinned"):
                json.dump(base["sigs"], open(pinned_file, "w"), indent=1, sort_keys=True)
            pinned = json.load(open(pinned_file))
            evals += 1
            if pinned != base["sigs"]:
                diff = [p for p in ALL if pinned.get(p) != base["sigs"].get(p)]
                note(None, "signatures of the pinned corpus are no longer byte-identical for %s (persisted results would no longer be addressable)" % diff)
    finally:
        shutil.rmtree(tmp, ignore_errors=True)
    print(json.dumps({
        "scope": {"c01": "a __main__ script through 5 edits; the pipeline on the memory / noop / cache-wrapped local store through 2 edits; %d single edits of a pipeline with 32 kept paths (each dependency kind), value vs plain execution and signature sensitivity" % len(EDITS), "c02": "%d single edits + restart + revert: re-execution only inside the dependency cone" % len(EDITS), "c03": "17 environment variants (hash seeds, cwd, location, symlinked package, symlinked store, 5 store kinds, debug, graph export, reload, history), each with a second evaluation that loads a path committed by the first, + pinned signatures of the corpus"}[mode],
        "evaluations": evals, "distinct_nontrivial": evals, "rule": "one case per edit (c01/c02) or per environment variant (c03), each in fresh interpreter processes",
        "samples": samples, "violations": violations,
        "known_hits": ["bounded:%s (%d cases, e.g. %s)" % (c, len(w), w[0][:170]) for c, w in sorted(known.items())],
    }))


if __name__ == "__main__":
    main()
