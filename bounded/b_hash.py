"""Bounded stand-in for C05 (labelled bounded): ties the abstract PyVal spec to real CPython objects.

  1. executable twin of spec_hash / spec_err (same equations as contracts/pyval.py) == real dds_hash on every
     enumerated value: total (only coded DDS errors), deterministic, equal to the twin;
  2. pairwise collision check among the enumerated values; a collision is classified by the kinds of the two
     values -- pairs in an open known-finding class are reported as known, any other colliding pair is a violation.
Scope: atoms (boundary ints, signed zeros, nan/inf, empty and separator-like strings, None, bools, dates, paths) and
containers of nesting <= 2, width <= 2 over a sub-alphabet; plus `random_n` random deeper values (seeded).
"""
import dataclasses
import datetime
import hashlib
import itertools
import json
import math
import random
import struct
import sys
from collections import OrderedDict
from pathlib import PurePosixPath
import pathlib


def sha(b):
    return hashlib.sha256(b).hexdigest()


class Unsupported(Exception):
    pass


class TooLong(Exception):
    pass


def twin(v, maxseq):
    """spec_hash: mirrors contracts/pyval.unfold"""
    from dds.structures import CanonicalPath

    if v is None:
        return sha("__DDS_NONE__".encode())
    if isinstance(v, str):
        return sha(v.encode("utf-8"))
    if isinstance(v, float):
        return sha(struct.pack("!d", v))
    if isinstance(v, int):  # bool included
        i = int(v)
        if -(2**31) <= i < 2**31:
            return sha(struct.pack("!l", i))
        return sha(("__DDS_BIGINT__" + str(i)).encode())
    if isinstance(v, CanonicalPath):
        return sha(repr(v).encode())
    if isinstance(v, (list, tuple)):
        if len(v) > maxseq:
            raise TooLong()
        return sha("|".join(twin(x, maxseq) for x in v).encode())
    if isinstance(v, PurePosixPath):
        return sha(str(v).encode())
    if isinstance(v, dict):
        if len(v) > maxseq:
            raise TooLong()
        return twin([twin(k, maxseq) + "|" + twin(x, maxseq) for k, x in v.items()], maxseq)
    if dataclasses.is_dataclass(v):
        names = [f.name for f in dataclasses.fields(v)]
        if len(names) > maxseq:
            raise TooLong()
        vals = [twin(getattr(v, n), maxseq) for n in names]
        return twin([twin(n, maxseq) + "|" + twin(h, maxseq) for n, h in zip(names, vals)], maxseq)
    if isinstance(v, (datetime.datetime, datetime.date, datetime.time, datetime.timedelta, datetime.timezone, datetime.tzinfo)):
        return twin(repr(v), maxseq)
    raise Unsupported()


def kind(v):
    from dds.structures import CanonicalPath

    if v is None:
        return "none"
    if isinstance(v, str):
        return "str"
    if isinstance(v, float):
        return "float"
    if isinstance(v, int):
        return "int"
    if isinstance(v, (list, tuple)):
        return "list"
    if isinstance(v, dict):
        return "dict"
    if dataclasses.is_dataclass(v):
        return "dataclass"
    if isinstance(v, (PurePosixPath, CanonicalPath)) or isinstance(v, (datetime.date, datetime.time, datetime.timedelta, datetime.tzinfo)):
        return "text"
    return "other"


def norm(v):
    """values up to the documented identifications: list=tuple, bool=int, path/date = its text form"""
    from dds.structures import CanonicalPath

    if v is None:
        return ("N",)
    if isinstance(v, str):
        return ("S", v)
    if isinstance(v, float):
        return ("F", struct.pack("!d", v))
    if isinstance(v, int):
        return ("I", int(v))
    if isinstance(v, (list, tuple)):
        return ("L", tuple(norm(x) for x in v))
    if isinstance(v, dict):
        return ("D", tuple((norm(k), norm(x)) for k, x in v.items()))
    if dataclasses.is_dataclass(v):
        return ("C", type(v).__name__, tuple((f.name, norm(getattr(v, f.name))) for f in dataclasses.fields(v)))
    if isinstance(v, CanonicalPath):
        return ("S", repr(v))
    if isinstance(v, PurePosixPath):
        return ("S", str(v))
    return ("S", repr(v))


@dataclasses.dataclass
class P1:
    a: object


@dataclasses.dataclass
class P2:
    a: object
    b: object


@dataclasses.dataclass
class Q1:
    a: object


class Opaque:
    pass


# pairs of value kinds for which a collision is a recorded finding (known_findings.json, property C05)
KNOWN_PAIR_CLASSES = {
    "str_spells_preimage": lambda ka, kb: "str" in (ka, kb) or "text" in (ka, kb),
    "dict_or_dataclass_is_list_of_pair_strings": lambda ka, kb: {ka, kb} in ({"dict", "list"}, {"dataclass", "list"}, {"dataclass", "dict"}),
    "dataclass_type_not_hashed": lambda ka, kb: ka == kb == "dataclass",
}


def explain(a, b, h):
    """set of known collision classes that account for h(a) == h(b), or None if some part is unexplained.
    Collisions propagate through containers, so container pairs are explained component-wise."""
    if repr(norm(a)) == repr(norm(b)):
        return set()
    ka, kb = kind(a), kind(b)
    if ka == kb == "list" and len(a) == len(b):
        out = set()
        for x, y in zip(a, b):
            if h(x) != h(y):
                return None
            e = explain(x, y, h)
            if e is None:
                return None
            out |= e
        return out
    if ka == kb == "dict" and len(a) == len(b):
        out = set()
        for (k1, v1), (k2, v2) in zip(a.items(), b.items()):
            if h(k1) != h(k2) or h(v1) != h(v2):
                return None
            for x, y in ((k1, k2), (v1, v2)):
                e = explain(x, y, h)
                if e is None:
                    return None
                out |= e
        return out
    if ka == kb == "dataclass":
        fa, fb = dataclasses.fields(a), dataclasses.fields(b)
        if [f.name for f in fa] == [f.name for f in fb]:
            out = set() if type(a) is type(b) else {"dataclass_type_not_hashed"}
            for f in fa:
                x, y = getattr(a, f.name), getattr(b, f.name)
                if h(x) != h(y):
                    return None
                e = explain(x, y, h)
                if e is None:
                    return None
                out |= e
            return out
    cls = [c for c, pred in KNOWN_PAIR_CLASSES.items() if pred(ka, kb)]
    return set(cls[:1]) if cls else None


def main():
    payload = json.loads(sys.stdin.read())
    tier, seed = payload["tier"], payload["seed"]
    open_classes = {k["class"] for k in payload["known"]}
    from dds.fun_args import dds_hash
    from dds.structures import DDSException, DDSErrorCode, CanonicalPath
    from dds._config import get_option

    maxseq = get_option("hash.max_sequence_size")
    atoms = [
        None, True, False, 0, 1, -1, 2**31 - 1, -(2**31), 2**31, -(2**31) - 1, 2**63, 10**30,
        0.0, -0.0, 1.0, float("nan"), float("inf"), -float("inf"), 5e-324,
        "", "|", "a", "b", "ab", "__DDS_NONE__", "\x00\x00\x00\x01", "é", "0" * 64,
        datetime.date(2020, 1, 2), datetime.datetime(2020, 1, 2, 3, 4), datetime.timedelta(1), datetime.time(1, 2),
        PurePosixPath("a/b"), PurePosixPath("/"), CanonicalPath(PurePosixPath("m/f")),
        # concrete paths (relative ones must not be resolved against the working directory), line-ending variants
        pathlib.Path("rel/x"), pathlib.Path("/abs/x"), pathlib.Path("."), "a\r\nb", "a\nb", "a\rb", "\r\n", "\n", " a", "a ", "A",
    ]
    small = [None, True, 0, 1, 2**31, 0.0, "", "a", "|", datetime.date(2020, 1, 2), PurePosixPath("a/b")]
    vals = list(atoms)
    level1 = []
    for w in range(0, 3):
        for combo in itertools.product(small, repeat=w):
            level1.append(list(combo))
            level1.append(tuple(combo))
    for k in ["a", 1, None, ""]:
        for x in small:
            level1.append({k: x})
            level1.append(OrderedDict([(k, x)]))
    level1 += [{}, OrderedDict(), {"a": 1, "b": 2}, {"b": 2, "a": 1}, OrderedDict([("a", 1), ("b", 2)])]
    for x in small:
        level1 += [P1(x), Q1(x), P2(x, x)]
    vals += level1
    sub = [[], [1], (1,), ["a"], {"a": 1}, P1(1), [None], [""], ["|"]]
    for w in range(1, 3):
        for combo in itertools.product(sub + ["a", 1], repeat=w):
            vals.append(list(combo))
    for s in sub:
        vals += [{"k": s}, P1(s), [s, s]]
    # strings that spell pre-images of other values (the recorded collision class)
    vals += [sha(b"a"), sha(b"a") + "|" + sha(b"a"), "__DDS_BIGINT__4294967296"]
    rnd = random.Random(seed)

    def rand_val(d):
        c = rnd.randrange(8 if d > 0 else 5)
        if c == 0:
            return rnd.choice([None, True, False])
        if c == 1:
            return rnd.randrange(-(2**40), 2**40)
        if c == 2:
            return rnd.choice([0.5, -1.5, 1e300, float("nan")])
        if c == 3:
            return "".join(rnd.choice("ab|_0") for _ in range(rnd.randrange(4)))
        if c == 4:
            return rnd.choice([datetime.date(2021, 5, 6), PurePosixPath("x/y")])
        if c == 5:
            return [rand_val(d - 1) for _ in range(rnd.randrange(4))]
        if c == 6:
            return {rnd.choice(["a", "b", 1]): rand_val(d - 1) for _ in range(rnd.randrange(3))}
        return P2(rand_val(d - 1), rand_val(d - 1))

    nrand = 300 if tier == "quick" else 3000
    vals += [rand_val(3) for _ in range(nrand)]
    unsupported = [Opaque(), [Opaque()], {"a": Opaque()}, b"bytes", {1, 2}, P1(Opaque())]

    violations, known_hits = [], {}
    evals = 0
    hashes = []
    for v in vals + unsupported:
        evals += 1
        try:
            exp = ("ok", twin(v, maxseq))
        except Unsupported:
            exp = ("err", DDSErrorCode.TYPE_NOT_SUPPORTED)
        except TooLong:
            exp = ("err", DDSErrorCode.SEQUENCE_TOO_LONG)
        try:
            h1 = dds_hash(v)
            h2 = dds_hash(v)
            got = ("ok", h1)
            if h1 != h2:
                violations.append({"what": "non-deterministic hash", "value": repr(v)[:200]})
        except DDSException as e:
            got = ("err", e.error_code)
        except BaseException as e:  # low-level exception: totality violated
            violations.append({"what": "low-level exception %s: %s" % (type(e).__name__, e), "value": repr(v)[:200]})
            continue
        if got != exp:
            violations.append({"what": "differs from spec_hash twin", "value": repr(v)[:200], "got": str(got), "expected": str(exp)})
        if got[0] == "ok":
            hashes.append((v, got[1]))
    # long sequence -> coded error
    for big in ([0] * (maxseq + 1), tuple([0] * (maxseq + 1)), {i: i for i in range(maxseq + 1)}):
        evals += 1
        try:
            dds_hash(big)
            violations.append({"what": "sequence longer than the option accepted", "value": "%s of length %d" % (type(big).__name__, len(big))})
        except DDSException as e:
            if e.error_code != DDSErrorCode.SEQUENCE_TOO_LONG:
                violations.append({"what": "wrong code for long sequence: %r" % (e.error_code,), "value": type(big).__name__})
        except BaseException as e:
            violations.append({"what": "low-level exception on long sequence %s" % type(e).__name__, "value": type(big).__name__})
    # ... wherever the long sequence sits: under a list / tuple element, a dict value, a dataclass field, two levels deep;
    # with the default bound and with a lowered one
    import dataclasses
    from dds import set_option

    @dataclasses.dataclass
    class _Holder:
        items: object

    def nestings(big):
        return [[big], (1, big), [[big]], {"k": big}, [{"k": big}], {"a": [big]}, _Holder(big), [_Holder(big)], (_Holder([big]),), [1, [2, (3, big)]]]

    for limit in (maxseq, 3):
        set_option("hash.max_sequence_size", limit)
        try:
            for big in ([0] * (limit + 1), tuple([0] * (limit + 1)), {i: i for i in range(limit + 1)}):
                for v in nestings(big):
                    evals += 1
                    try:
                        dds_hash(v)
                        violations.append({"what": "a sequence longer than the bound %d nested in a value is accepted" % limit, "value": repr(v)[:80]})
                    except DDSException as e:
                        if e.error_code != DDSErrorCode.SEQUENCE_TOO_LONG:
                            violations.append({"what": "nested long sequence (bound %d): wrong code %r" % (limit, e.error_code), "value": repr(v)[:80]})
                    except BaseException as e:
                        violations.append({"what": "low-level exception %s (%s) for a sequence longer than the bound %d nested in a value" % (type(e).__name__, str(e)[:60], limit), "value": repr(v)[:80] if limit == 3 else "%s holding a %s of length %d" % (type(v).__name__, type(big).__name__, len(big))})
        finally:
            set_option("hash.max_sequence_size", maxseq)
    # pairwise collisions
    by_hash = {}
    for v, h in hashes:
        by_hash.setdefault(h, []).append(v)
    pairs = 0
    distinct_norms = len({repr(norm(v)) for v, _ in hashes})
    for h, vs in by_hash.items():
        reps = {}
        for v in vs:
            reps.setdefault(repr(norm(v)), v)
        if len(reps) < 2:
            continue
        for a, b in itertools.combinations(list(reps.values()), 2):
            pairs += 1
            ka, kb = kind(a), kind(b)
            ex = explain(a, b, dds_hash)
            if ex is not None and ex and ex <= open_classes:
                for c in sorted(ex):
                    known_hits.setdefault(c, []).append((repr(a)[:80], repr(b)[:80]))
            else:
                violations.append({"what": "collision between %s and %s values" % (ka, kb), "a": repr(a)[:200], "b": repr(b)[:200], "hash": h})
    out = {
        "scope": "atoms x containers (nesting <= 2, width <= 2) + %d random values of depth <= 3 (seed %d); all pairs among them" % (nrand, seed),
        "evaluations": evals,
        "distinct_nontrivial": distinct_norms,
        "rule": "one case per enumerated value (hashed twice, compared with the executable spec twin); distinct = distinct values up to the documented identifications; plus all colliding pairs",
        "samples": [repr(v)[:80] for v in (vals[5], vals[40], vals[-1])],
        "colliding_pairs_examined": pairs,
        "violations": violations[:20],
        "known_hits": ["bounded:collision class %s (%d pairs, e.g. %s vs %s)" % (c, len(p), p[0][0], p[0][1]) for c, p in sorted(known_hits.items())],
    }
    print(json.dumps(out, default=str))


if __name__ == "__main__":
    main()
