"""Bounded stand-in for C03 / C01 (labelled bounded): code living in IPython / notebook cells.

Each history is a sequence of cells run in one IPython InteractiveShell (a kernel): definitions, evaluations, and
re-definitions of a function / a variable / a class / a base class / a helper in LATER cells (the copy-the-cell-and-tweak-it
workflow), or the same cell run twice.  After the last cell the kept path must have the signature and the value that a
fresh kernel computes when it only ever sees the final text of every definition (C03: no dependence on the history of the
process; C01: the value of plain execution of the current source)."""
import json
import os
import shutil
import subprocess
import sys
import tempfile

DRIVER = '''
import json, sys
from IPython.core.interactiveshell import InteractiveShell
shell = InteractiveShell.instance()
for cell in json.loads(sys.argv[1]):
    r = shell.run_cell(cell)
    if r.error_before_exec is not None or r.error_in_exec is not None:
        print("CELL_FAILED " + json.dumps(cell[:200]) + " " + repr(r.error_in_exec or r.error_before_exec)[:300])
        sys.exit(3)
'''
SETUP = '''
import os, json, tempfile
import dds
_d = tempfile.mkdtemp(prefix="dds_b_notebook_")
dds.set_store("local", internal_dir=_d + "/internal", data_dir=_d + "/data")
def _report(tag):
    value = dds.keep("/out", compute)
    sig = os.path.basename(os.path.realpath(_d + "/data/out"))
    print("REPORT " + json.dumps({"tag": tag, "value": repr(value), "sig": sig, "plain": repr(compute())}))
    import shutil as _sh
    if tag == "last": _sh.rmtree(_d, ignore_errors=True)
'''
BASE = "class Base:\n    def apply(self, x):\n        return 2 * x\n"
BASE2 = "class Base:\n    def apply(self, x):\n        return 3 * x\n"
MODEL1 = "class Model(Base):\n    def run(self):\n        return self.apply(1)\n"
MODEL2 = "class Model(Base):\n    def run(self):\n        return self.apply(5)\n"
USE_MODEL = "def compute():\n    return Model().run()\n"
HELPER1 = "def helper(x):\n    return x + 1\n"
HELPER2 = "def helper(x):\n    return x + 100\n"
USE_HELPER = "def compute():\n    return helper(1) * SCALE\n"
# (name, cells of the kernel with history, cells of the fresh kernel)
HISTORIES = [
    ("a helper function redefined in a later cell", [HELPER1, "SCALE = 2", USE_HELPER, "_report('x')", HELPER2, "_report('last')"], [HELPER2, "SCALE = 2", USE_HELPER, "_report('last')"]),
    ("a variable redefined in a later cell", [HELPER1, "SCALE = 2", USE_HELPER, "_report('x')", "SCALE = 7", "_report('last')"], [HELPER1, "SCALE = 7", USE_HELPER, "_report('last')"]),
    ("the evaluated function redefined in a later cell", [HELPER1, "SCALE = 2", USE_HELPER, "_report('x')", USE_HELPER.replace("* SCALE", "* SCALE + 1"), "_report('last')"], [HELPER1, "SCALE = 2", USE_HELPER.replace("* SCALE", "* SCALE + 1"), "_report('last')"]),
    ("the same cells run twice", [HELPER1, "SCALE = 2", USE_HELPER, "_report('x')", HELPER1, "SCALE = 2", USE_HELPER, "_report('last')"], [HELPER1, "SCALE = 2", USE_HELPER, "_report('last')"]),
    ("a class redefined in a later cell (first defined in the cell of its base class)", [BASE + "\n" + MODEL1, USE_MODEL, "_report('x')", MODEL2, "_report('last')"], [BASE + "\n" + MODEL2, USE_MODEL, "_report('last')"]),
    ("a class redefined in a later cell (its base class in a cell of its own)", [BASE, MODEL1, USE_MODEL, "_report('x')", MODEL2, "_report('last')"], [BASE, MODEL2, USE_MODEL, "_report('last')"]),
    ("the base class redefined in a later cell, then the class cell run again", [BASE, MODEL1, USE_MODEL, "_report('x')", BASE2, MODEL1, "_report('last')"], [BASE2, MODEL1, USE_MODEL, "_report('last')"]),
    ("an edit and its revert", [HELPER1, "SCALE = 2", USE_HELPER, "_report('x')", HELPER2, "_report('y')", HELPER1, "_report('last')"], [HELPER1, "SCALE = 2", USE_HELPER, "_report('last')"]),
]


def session(workdir, cells):
    p = subprocess.run([sys.executable, os.path.join(workdir, "nb_driver.py"), json.dumps([SETUP] + cells)], cwd=workdir, capture_output=True, text=True, env=dict(os.environ), timeout=300)
    reports = {}
    for line in p.stdout.splitlines():
        if line.startswith("REPORT "):
            r = json.loads(line[len("REPORT "):])
            reports[r["tag"]] = r
    failed = [l for l in p.stdout.splitlines() if l.startswith("CELL_FAILED")]
    if "last" not in reports and not failed and "Traceback" not in p.stderr:
        raise RuntimeError("the notebook driver died without a Python error: " + p.stderr[-300:])
    return reports, (failed[0] if failed else (p.stderr.strip().split("\n")[-1][:200] if p.returncode else None))


def main():
    payload = json.loads(sys.stdin.read())
    try:
        import IPython  # noqa: F401
    except ImportError:
        print(json.dumps({"scope": "IPython is not installed: notebook histories not run", "evaluations": 0, "distinct_nontrivial": 0, "rule": "-", "samples": [], "violations": [], "known_hits": []}))
        return
    open_classes = {k["class"] for k in payload.get("known", [])}
    workdir = tempfile.mkdtemp(prefix="dds_b_notebook_wd_")
    violations, known, evals = [], {}, 0
    try:
        open(os.path.join(workdir, "nb_driver.py"), "w").write(DRIVER)
        for name, hist, fresh in HISTORIES:
            evals += 2
            a, err_a = session(workdir, hist)
            b, err_b = session(workdir, fresh)
            what = None
            if err_b or "last" not in b:
                what = "[%s] the fresh kernel fails: %s" % (name, err_b)
            elif err_a or "last" not in a:
                what = "[%s] the kernel with history fails: %s (a fresh kernel evaluates the final text fine: %s)" % (name, err_a, b["last"]["value"])
            elif a["last"]["value"] != a["last"]["plain"]:
                what = "[%s] after the last cell dds returns %s, plain execution of the current definitions gives %s" % (name, a["last"]["value"], a["last"]["plain"])
            elif a["last"]["sig"] != b["last"]["sig"] or a["last"]["value"] != b["last"]["value"]:
                what = "[%s] after the last cell the kept path has signature %s.. / value %s; a fresh kernel that only sees the final text gives %s.. / %s" % (name, a["last"]["sig"][:8], a["last"]["value"], b["last"]["sig"][:8], b["last"]["value"])
            if what:
                cls = None
                (known.setdefault(cls, []) if cls in open_classes else violations).append(what if cls in open_classes else {"what": what})
    finally:
        shutil.rmtree(workdir, ignore_errors=True)
    print(json.dumps({"scope": "%d notebook histories (IPython InteractiveShell): re-definitions of a helper / variable / evaluated function / class / base class in later cells, cells run twice, edit and revert -- against a fresh kernel that only sees the final text" % len(HISTORIES),
                      "evaluations": evals, "distinct_nontrivial": len(HISTORIES), "rule": "one case per history (two kernels each)", "samples": [{"history": HISTORIES[4][0]}], "violations": violations,
                      "known_hits": ["bounded:%s (%d cases, e.g. %s)" % (c, len(w), w[0][:200]) for c, w in sorted(known.items(), key=str)]}))


if __name__ == "__main__":
    main()
