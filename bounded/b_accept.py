"""Bounded stand-in for C14 (labelled bounded): the accepted-package registry and the prefix match, end to end.

Scope: every ordered selection of 1..3 names from {a, ab, a.b, a.bc, a.b.c, a.b.c.d.e.f, x} accepted through
dds.accept_module (on top of the 3 default packages), plus 0..37 filler packages; every canonical path over the same
names and their extensions; spec: authorized iff some accepted name is a dotted-component prefix of the path.
The registry's exact content is not demanded, only what it authorizes.
"""
import itertools
import json
import sys
from collections import OrderedDict
from pathlib import PurePosixPath


def main():
    payload = json.loads(sys.stdin.read())
    import dds
    import dds.introspect as intro
    from dds._eval_ctx import EvalMainContext
    from dds.structures import CanonicalPath

    names = ["a", "ab", "a.b", "a.bc", "a.b.c", "a.b.c.d.e.f", "x"]
    paths = ["a", "ab", "a/b", "a/bc", "a/b/c", "a/b/c/d", "a/b/c/d/e/f", "a/b/c/d/e/f/g", "abc", "x/y", "y", "a/b/cd", "ab/c"]
    base = set(intro._accepted_packages)
    violations, evals, distinct = [], 0, 0
    samples = []
    for n in (1, 2, 3):
        for sel in itertools.permutations(names, n):
            for fillers in (0, 37):
                evals += 1
                intro._accepted_packages.clear()
                intro._accepted_packages.update(base)
                for i in range(fillers):
                    dds.accept_module("filler%d" % i)
                before = set(intro._accepted_packages)
                for nm in sel:
                    dds.accept_module(nm)
                got = set(intro._accepted_packages)
                want = before | set(sel)
                # (the registry's exact content is not demanded -- only what it authorizes)
                ctx = EvalMainContext(None, whitelisted_packages=intro._accepted_packages, start_globals={}, resolved_references=OrderedDict())
                for p in paths:
                    parts = p.split("/")
                    spec = any(".".join(parts[:k]) in want for k in range(0, len(parts) + 1))
                    r = ctx.is_authorized_path(CanonicalPath(PurePosixPath(p)))
                    distinct += 1
                    if r != spec and len(violations) < 10:
                        violations.append({"what": "accepted %s (+%d fillers): is_authorized_path(%s) -> %r, spec %r" % (list(sel), fillers, p, r, spec)})
                if len(samples) < 2:
                    samples.append({"accepted_in_order": list(sel), "fillers": fillers})
    intro._accepted_packages.clear()
    intro._accepted_packages.update(base)
    print(json.dumps({
        "scope": "ordered selections of 1..3 of 7 names x {0, 37} filler packages x 13 canonical paths",
        "evaluations": evals, "distinct_nontrivial": distinct, "exhaustive": True,
        "rule": "one case per (accept order, fillers); distinct = (case, path) pairs compared with the dotted-prefix spec",
        "samples": samples, "violations": violations, "known_hits": [],
    }))


if __name__ == "__main__":
    main()
