"""Bounded stand-in for C04 (labelled bounded): a committed path serves the value of the latest evaluation that kept it,
end to end, on every store kind.

Scope: 5 store kinds (memory, local, local + object cache of 2, DBFS over a fake dbutils with commit type full and
links_only) x histories of evaluations of two pipelines over kept paths of 1..4 segments with shared directories
(/a, /d/x, /d/y, /d/e/f/g, /d/e/h): versions V = 1, 2, 1 (revert), the second pipeline re-keeping a subset of the paths
with another function, then the first one again.  After every evaluation, for every path kept so far in the history:
dds.load(path) returns what the latest evaluation that kept the path returned for it -- in the same process, and for the
local / DBFS kinds through a freshly created store object on the same directories.
"""
import importlib
import itertools
import json
import os
import shutil
import sys
import tempfile

PIPE = '''
import dds
V = 1

def a(): return "" if V == 2 else "a%d" % V   # a value whose stored form is empty is a value like any other
def x(): return "x%d,a\\r\\nb\\rc" % V
def y(): return "y-const"
def g(): return ("g", V, [1, 2])
def h(): return None if V == 2 else {"h": V}

def first():
    out = {}
    out["/a"] = dds.keep("/a", a)
    out["/d/x"] = dds.keep("/d/x", x)
    out["/d/y"] = dds.keep("/d/y", y)
    out["/d/e/f/g"] = dds.keep("/d/e/f/g", g)
    out["/d/e/h"] = dds.keep("/d/e/h", h)
    return out

def other_x(): return "other-x%d" % V
def other_g(): return b"" if V == 2 else b"bytes-%d" % V

def second():
    out = {}
    out["/d/x"] = dds.keep("/d/x", other_x)
    out["/d/e/f/g"] = dds.keep("/d/e/f/g", other_g)
    out["/new/p"] = dds.keep("/new/p", a)
    return out
'''

# (pipeline, version of the code, writer): writers A and B are two long-lived store objects on the same directories
# (two processes sharing a store); with one writer the history is that of a single process
HISTORIES = [
    [("first", 1, "A"), ("first", 2, "A"), ("first", 1, "A")],
    [("first", 1, "A"), ("second", 1, "A"), ("first", 1, "A")],
    [("second", 2, "A"), ("first", 2, "A"), ("second", 1, "A"), ("first", 1, "A")],
    [("first", 2, "A"), ("second", 2, "A"), ("second", 1, "A"), ("first", 2, "A"), ("first", 1, "A")],
    [("first", 1, "A"), ("first", 2, "B"), ("first", 1, "A"), ("second", 2, "B"), ("second", 2, "A")],
]


def main():
    payload = json.loads(sys.stdin.read())
    sys.path.insert(0, "/verif")
    from replay.h_dbfs import FakeDbutils
    import dds

    tmp = tempfile.mkdtemp(prefix="dds_b_commit_")
    sys.path.insert(0, tmp)
    with open(os.path.join(tmp, "commit_pipe.py"), "w") as f:
        f.write(PIPE)
    pipe = importlib.import_module("commit_pipe")
    dds.accept_module(pipe)
    violations, evals = [], 0
    kinds = ["memory", "local", "local+cache", "dbfs-full", "dbfs-links"]
    try:
        for kind, (hi, hist) in itertools.product(kinds, enumerate(HISTORIES)):
            d = os.path.join(tmp, "%s_%d" % (kind.replace("+", "_"), hi))
            db = FakeDbutils()

            def configure():
                if kind == "memory":
                    return
                if kind == "local":
                    dds.set_store("local", internal_dir=os.path.join(d, "int"), data_dir=os.path.join(d, "data"))
                elif kind == "local+cache":
                    dds.set_store("local", internal_dir=os.path.join(d, "int"), data_dir=os.path.join(d, "data"), cache_objects=2)
                else:
                    dds.set_store("dbfs", internal_dir="dbfs:/int", data_dir="dbfs:/data", dbutils=db, commit_type="full" if kind == "dbfs-full" else "links_only")

            if kind == "memory":
                dds.set_store("memory")
            else:
                configure()
            latest = {}
            writers = {}
            import dds._api as api

            if kind == "memory" and any(w != "A" for _, _, w in hist):
                continue  # a memory store is not shared between processes
            for step, (which, v, w) in enumerate(hist):
                evals += 1
                pipe.V = v
                tag = "[%s] history %s, step %d (%s, V=%d, writer %s)" % (kind, hist, step, which, v, w)
                if w in writers:
                    api._store_var = writers[w]
                else:
                    if kind != "memory":
                        configure()
                    writers[w] = api._store_var
                try:
                    # the evaluated function is itself kept: a later evaluation of the same version finds its blob (root hit)
                    out = dict(dds.keep("/top/" + which, getattr(pipe, which)))
                    out["/top/" + which] = dict(out)
                except BaseException as e:
                    violations.append({"what": "%s: the evaluation raised %s: %s" % (tag, type(e).__name__, str(e)[:160])})
                    break
                latest.update(out)
                views = [("the evaluating process", None)]
                if kind != "memory":
                    # every other long-lived store object on the same directories (another process that stays alive) ...
                    for w2 in sorted(writers):
                        if w2 != w:
                            views.append(("the long-lived store object of writer %s" % w2, (lambda w2=w2: setattr(api, "_store_var", writers[w2]))))
                    # ... and a process started now
                    views.append(("a freshly created store object", configure))
                for who, reconf in views:
                    if reconf:
                        reconf()
                    # (a long-lived object is asked for the most recently kept paths first: what it may remember of them is
                    #  not yet displaced by the other questions)
                    for p, want in (reversed(list(latest.items())) if who.startswith("the long-lived") else latest.items()):
                        try:
                            got = dds.load(p)
                        except BaseException as e:
                            got = "<%s: %s>" % (type(e).__name__, str(e)[:80])
                        if got != want and len(violations) < 10:
                            violations.append({"what": "%s: in %s dds.load(%s) -> %r, the latest evaluation that kept the path returned %r" % (tag, who, p, got, want)})
            shutil.rmtree(d, ignore_errors=True)
    finally:
        dds.set_store("memory")
        sys.path.remove(tmp)
        shutil.rmtree(tmp, ignore_errors=True)
    print(json.dumps({"scope": "5 store kinds x 5 histories (20 evaluations; one with two long-lived store objects on the same directories) of two pipelines over 6 kept paths of 1..4 segments with shared directories; every path kept so far loaded after every evaluation, also through every other long-lived store object and through a fresh one",
                      "evaluations": evals, "distinct_nontrivial": evals, "rule": "one case per (store kind, history, step)", "samples": [{"store": "local+cache", "history": HISTORIES[1]}], "violations": violations, "known_hits": []}))


if __name__ == "__main__":
    main()
