"""Bounded stand-in for C06 (labelled bounded) and replay harness of the crash obligations: kill -9 injection.

A child process performs one store operation on a real directory with os.makedirs / os.remove / os.symlink / open /
write (each write split in two halves) / close wrapped so that the process _exit(9)s right after the n-th effect, for
every n up to the normal end.  A recovery process then checks: a blob reported present loads its complete intended value;
a path committed before the crash still loads its old or its new complete value; the interrupted operation can simply
be run again.  Scenarios: store creation, first store_blob (str / pickled object), re-commit of a path to a new key,
first commit of a nested path, full dds.keep evaluation with a nested keep.
"""
import json
import os
import shutil
import subprocess
import sys
import tempfile

CHILD = r'''
import builtins, os, sys, json
N = int(sys.argv[1]); scenario = sys.argv[2]; base = sys.argv[3]
count = [0]
def tick():
    count[0] += 1
    if count[0] == N:
        os._exit(9)
_mk, _rm, _sl, _open, _rp = os.makedirs, os.remove, os.symlink, builtins.open, os.replace
def replace(*a, **k): r = _rp(*a, **k); tick(); return r
os.replace = replace
def makedirs(*a, **k): r = _mk(*a, **k); tick(); return r
def remove(*a, **k): r = _rm(*a, **k); tick(); return r
def symlink(*a, **k): r = _sl(*a, **k); tick(); return r
class F:
    def __init__(self, f): self.f = f
    def write(self, b):
        h = len(b) // 2
        self.f.write(b[:h]); self.f.flush(); tick()
        self.f.write(b[h:]); self.f.flush(); tick()
        return len(b)
    def __enter__(self): return self
    def __exit__(self, *a): self.f.close(); tick(); return False
    def __getattr__(self, n): return getattr(self.f, n)
def open_(p, mode="r", *a, **k):
    f = _open(p, mode, *a, **k)
    if "w" in mode and str(p).startswith(base):
        tick(); return F(f)
    return f
os.makedirs, os.remove, os.symlink, builtins.open = makedirs, remove, symlink, open_
import pickle
_dump = pickle.dump
def dump(obj, f, *a, **k):
    f.write(pickle.dumps(obj))
pickle.dump = dump
from collections import OrderedDict
from dds.store import LocalFileStore
internal, data = os.path.join(base, "int"), os.path.join(base, "data")
if scenario == "create":
    LocalFileStore(internal, data)
elif scenario == "store_str":
    LocalFileStore(internal, data).store_blob("knew", "new-value-" * 20)
elif scenario == "store_obj":
    LocalFileStore(internal, data).store_blob("kobj", {"a": list(range(50))})
elif scenario == "recommit":
    LocalFileStore(internal, data).sync_paths(OrderedDict([("/p", "knew2")]))
elif scenario == "recommit_same":
    LocalFileStore(internal, data).sync_paths(OrderedDict([("/p", "kold"), ("/fresh", "knew2")]))
elif scenario == "commit_nested":
    LocalFileStore(internal, data).sync_paths(OrderedDict([("/dir/sub/q", "kold")]))
elif scenario == "read":
    # read operations only (a re-run that is served from the store): on a store that keeps its reads free of effects there
    # is no crash point at all; if a read writes, a kill inside it must not damage what was committed
    st_ = LocalFileStore(internal, data)
    for _ in range(2):
        assert st_.has_blob("kold") and st_.fetch_blob("kold") == "old-value"
        assert dict(st_.fetch_paths(["/p"])) == {"/p": "kold"}
        assert st_.fetch_blob("knew2") == "second-value" and st_.fetch_blob("absent") is None
elif scenario == "keep":
    import dds
    sys.path.insert(0, base)
    import crashpipe
    dds.accept_module("crashpipe")
    dds.set_store("local", internal_dir=internal, data_dir=data)
    crashpipe.root()
print("DONE", count[0])
'''

PIPE = '''
import dds
def leaf():
    return "leaf-" * 30
@dds.data_function("/pipe/root")
def root():
    return dds.keep("/pipe/leaf", leaf) + "|root"
'''

INTENDED = {"knew": "new-value-" * 20, "kobj": {"a": list(range(50))}, "kold": "old-value", "knew2": "second-value"}


def main():
    payload = json.loads(sys.stdin.read())
    open_classes = {k["class"] for k in payload["known"]}
    from collections import OrderedDict
    from dds.store import LocalFileStore

    violations, known, evals, points = [], {}, 0, 0
    samples = []

    def note(cls, what):
        if cls in open_classes:
            known.setdefault(cls, []).append(what)
        elif len(violations) < 10:
            violations.append({"what": what})

    for scenario in ("create", "store_str", "store_obj", "recommit", "recommit_same", "commit_nested", "keep", "read"):
        n = 0
        while True:
            n += 1
            base = tempfile.mkdtemp(prefix="dds_b_crash_")
            try:
                if scenario != "create":
                    st = LocalFileStore(os.path.join(base, "int"), os.path.join(base, "data"))
                    st.store_blob("kold", "old-value")
                    st.store_blob("knew2", "second-value")
                    st.sync_paths(OrderedDict([("/p", "kold")]))
                with open(os.path.join(base, "crashpipe.py"), "w") as f:
                    f.write(PIPE)
                env = dict(os.environ)
                p = subprocess.run([sys.executable, "-c", CHILD, str(n), scenario, base], capture_output=True, text=True, env=env, timeout=120)
                evals += 1
                if p.returncode == 0:
                    break
                if p.returncode != 9:
                    note(None, "%s: child failed before the crash point %d: %s" % (scenario, n, p.stderr[-300:]))
                    break
                points += 1
                tag = "%s, killed after effect %d" % (scenario, n)
                if len(samples) < 3 and n == 2:
                    samples.append(tag)
                # ---- recovery process ------------------------------------------------------------------------------
                try:
                    st = LocalFileStore(os.path.join(base, "int"), os.path.join(base, "data"))
                except BaseException as e:
                    note("partial_state_blocks_rerun", "%s: store cannot be reopened: %s %s" % (tag, type(e).__name__, e))
                    continue
                for k, want in INTENDED.items():
                    if st.has_blob(k):
                        try:
                            got = st.fetch_blob(k)
                        except BaseException as e:
                            got = "<%s>" % type(e).__name__
                        if got != want:
                            note("blob_visible_before_commit", "%s: has_blob(%s) is True but fetch_blob returns %r" % (tag, k, (str(got)[:40])))
                try:
                    key = st.fetch_paths(["/p"])["/p"] if scenario != "create" else None
                    if key is not None and (key not in ("kold", "knew2") or st.fetch_blob(key) != INTENDED[key]):
                        note("unlink_before_relink", "%s: /p resolves to %r" % (tag, key))
                except BaseException as e:
                    # recorded only for a path that is being re-pointed to another key; an unchanged path must survive any kill
                    note("unlink_before_relink" if scenario == "recommit" else None, "%s: /p, committed before the crash, no longer loads: %s" % (tag, type(e).__name__))
                # the interrupted operation is simply run again
                p2 = subprocess.run([sys.executable, "-c", CHILD, "0", scenario, base], capture_output=True, text=True, env=env, timeout=120)
                if p2.returncode != 0 and "DONE" not in p2.stdout and "Traceback" not in p2.stderr:
                    raise RuntimeError("the re-run process died without a Python error: " + p2.stderr[-300:])
                if p2.returncode != 0 and "DONE" not in p2.stdout:
                    note("partial_state_blocks_rerun", "%s: running the operation again fails: %s" % (tag, p2.stderr.strip().split("\n")[-1][:160]))
                elif scenario == "keep":
                    st = LocalFileStore(os.path.join(base, "int"), os.path.join(base, "data"))
                    for path, want in (("/pipe/leaf", "leaf-" * 30), ("/pipe/root", "leaf-" * 30 + "|root")):
                        try:
                            k = st.fetch_paths([path])[path]
                            got = st.fetch_blob(k)
                        except BaseException as e:
                            got = "<%s>" % type(e).__name__
                        if got != want:
                            note("blob_visible_before_commit", "%s: after re-running the evaluation %s serves %r" % (tag, path, str(got)[:40]))
            finally:
                shutil.rmtree(base, ignore_errors=True)
            if n > 60:
                break
    print(json.dumps({
        "scope": "8 scenarios (incl. one made of read operations only) x every file-system effect boundary (makedirs / open / each half of each write / close / remove / symlink), kill -9 semantics",
        "evaluations": evals, "distinct_nontrivial": points, "exhaustive": True,
        "rule": "one case per (scenario, crash point); distinct = crash points actually reached",
        "samples": samples, "violations": violations,
        "known_hits": ["bounded:%s (%d crash points, e.g. %s)" % (c, len(w), w[0][:170]) for c, w in sorted(known.items())],
    }))


if __name__ == "__main__":
    main()
