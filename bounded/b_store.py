"""Bounded stand-in for C08 (labelled bounded): stores against a dictionary model on raw path strings.

Scope: operation sequences (store_blob / has_blob / fetch_blob / sync_paths / fetch_paths / reopen) of length <= L over
2 keys and paths drawn from an alphabet with concatenation-ambiguous names, dots, spaces, unicode and '.'/'..' segments,
for MemoryStore, LocalFileStore and the cache-wrapped LocalFileStore.  Plus: after every commit every link created lies
inside the data directory.  Collisions / escapes in the classes recorded as open findings are reported as known.
"""
import itertools
import json
import os
import random
import shutil
import sys
import tempfile
from collections import OrderedDict

PATHS = ["/a", "/b", "/ab", "/a/b", "/a/b/c", "/ab/c", "/a/bc", "/x y/z", "/é/ü", "/d.e/f.g", "/.h", "/a/b/c/d"]
ODD = ["/../esc", "/a/../b", "/./a", "/a/."]


def segs(p):
    return [s for s in p.split("/") if s]


def classify_alias(p, q):
    sp, sq = segs(p), segs(q)
    if sp != sq and "".join(sp[:-1]) == "".join(sq[:-1]) and sp[-1] == sq[-1]:
        return "concatenation_ambiguity"
    if any(s in (".", "..") for s in sp + sq):
        return "dot_segments"
    return None


def main():
    payload = json.loads(sys.stdin.read())
    tier, seed = payload["tier"], payload["seed"]
    open_classes = {k["class"] for k in payload["known"]}
    from dds.store import MemoryStore, LocalFileStore
    from dds._lru_store import LRUCacheStore
    from dds.structures import DDSException

    rnd = random.Random(seed)
    tmp = tempfile.mkdtemp(prefix="dds_b_store_")
    violations, known = [], {}
    evals = 0
    nseq = 300 if tier == "quick" else 3000
    samples = []

    def note(cls, what):
        if cls in open_classes:
            known.setdefault(cls, []).append(what)
        elif len(violations) < 10:
            violations.append({"what": what})

    try:
        for kind in ("memory", "local", "local+cache"):
            for it in range(nseq):
                evals += 1
                d = os.path.join(tmp, "%s_%d" % (kind.replace("+", "_"), it))

                def mk():
                    if kind == "memory":
                        return None
                    s = LocalFileStore(os.path.join(d, "int"), os.path.join(d, "data"))
                    return LRUCacheStore(s, 2) if kind == "local+cache" else s

                st = MemoryStore() if kind == "memory" else mk()
                blobs, paths = {}, {}
                pool = PATHS + (ODD if it % 5 == 0 else [])
                ops = []
                bad_path_committed = None
                for step in range(rnd.randrange(2, 9)):
                    op = rnd.choice(["store", "has", "fetch", "sync", "fetchp", "reopen"])
                    key = rnd.choice(["k1", "k2", "k3"])
                    if op == "store":
                        val = "value-of-" + key
                        st.store_blob(key, val, None)
                        blobs[key] = val
                        ops.append("store(%s)" % key)
                    elif op == "has":
                        ops.append("has(%s)" % key)
                        if st.has_blob(key) != (key in blobs):
                            note(None, "[%s] %s: has_blob(%s) -> %r, model %r" % (kind, ops, key, st.has_blob(key), key in blobs))
                    elif op == "fetch":
                        ops.append("fetch(%s)" % key)
                        got = st.fetch_blob(key)
                        if got != blobs.get(key):
                            note(None, "[%s] %s: fetch_blob(%s) -> %r, model %r" % (kind, ops, key, got, blobs.get(key)))
                    elif op == "sync":
                        ks = [k for k in blobs]
                        if not ks:
                            continue
                        # batches of 1..3 paths; often re-committing an already committed path together with new ones
                        cand = list(pool)
                        if paths and rnd.random() < 0.6:
                            cand = list(paths)[:2] + cand
                        kk = rnd.choice(ks)
                        m = OrderedDict((p_, kk if rnd.random() < 0.7 else rnd.choice(ks)) for p_ in [rnd.choice(cand[:2]) if paths and rnd.random() < 0.5 else rnd.choice(pool)] + [rnd.choice(pool) for _ in range(rnd.randrange(0, 3))])
                        ops.append("sync(%s)" % dict(m))
                        try:
                            st.sync_paths(m)
                        except BaseException as e:
                            cls = "dot_segments" if any(s in (".", "..") for p in m for s in segs(p)) else ("path_is_prefix_of_committed_path" if isinstance(e, (IsADirectoryError, FileExistsError, NotADirectoryError)) else None)
                            note(cls, "[%s] %s: sync_paths raised %s: %s" % (kind, ops, type(e).__name__, e))
                            break
                        paths.update(m)
                        if kind != "memory":
                            data = os.path.realpath(os.path.join(d, "data"))
                            for root, dirs, files in os.walk(d):
                                for f in files + dirs:
                                    full = os.path.join(root, f)
                                    if os.path.islink(full) and not os.path.abspath(full).startswith(data + os.sep):
                                        note("dot_segments", "[%s] %s: link %s created outside the data directory" % (kind, ops, os.path.relpath(full, d)))
                    elif op == "fetchp":
                        if not paths:
                            continue
                        p = rnd.choice(list(paths))
                        ops.append("fetch_paths(%s)" % p)
                        try:
                            got = st.fetch_paths([p]).get(p)
                        except BaseException as e:
                            note("dot_segments" if any(s in (".", "..") for s in segs(p)) else None, "[%s] %s: fetch_paths raised %s: %s" % (kind, ops, type(e).__name__, e))
                            continue
                        if got != paths[p]:
                            culprit = [q for q in paths if q != p and paths[q] == got]
                            cls = None
                            for q in culprit:
                                cls = cls or classify_alias(p, q)
                            note(cls, "[%s] %s: %s resolves to %s, committed with %s (aliases %s)" % (kind, ops, p, got, paths[p], culprit))
                    elif op == "reopen" and kind != "memory":
                        st = mk()
                        ops.append("reopen")
                if len(samples) < 3 and len(ops) > 3:
                    samples.append({"store": kind, "ops": ops})
                if kind != "memory":
                    shutil.rmtree(d, ignore_errors=True)
    finally:
        shutil.rmtree(tmp, ignore_errors=True)
    print(json.dumps({
        "scope": "%d random operation sequences (2..8 ops, seed %d) per store kind x 3 store kinds, paths from %d-name alphabet incl. a/b/ab, dots, spaces, unicode, '.'/'..'" % (nseq, seed, len(PATHS) + len(ODD)),
        "evaluations": evals, "distinct_nontrivial": evals,
        "rule": "one case per (store kind, random operation sequence), compared step by step with a dictionary model",
        "samples": samples, "violations": violations,
        "known_hits": ["bounded:%s (%d cases, e.g. %s)" % (c, len(w), w[0][:160]) for c, w in sorted(known.items())],
    }))


if __name__ == "__main__":
    main()
