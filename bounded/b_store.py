"""Bounded stand-in for C08 (labelled bounded): stores against a dictionary model on raw path strings.

Scope: operation sequences (store_blob / has_blob / fetch_blob / sync_paths / fetch_paths / reopen) of length <= L over
2 keys and paths drawn from an alphabet with concatenation-ambiguous names, dots, spaces, unicode and '.'/'..' segments,
for MemoryStore, LocalFileStore, the cache-wrapped LocalFileStore and DBFSStore (fake dbutils).  Plus: after every commit every link created lies
inside the data directory.  Collisions / escapes in the classes recorded as open findings are reported as known.
"""
import itertools
import json
import os
import random
import shutil
import sys
import tempfile
from collections import OrderedDict

PATHS = ["/a", "/b", "/ab", "/a/b", "/a/b/c", "/ab/c", "/a/bc", "/x y/z", "/é/ü", "/d.e/f.g", "/.h", "/a/b/c/d"]
ODD = ["/../esc", "/a/../b", "/./a", "/a/."]


def segs(p):
    return [s for s in p.split("/") if s]


def classify_alias(p, q):
    sp, sq = segs(p), segs(q)
    if sp != sq and "".join(sp[:-1]) == "".join(sq[:-1]) and sp[-1] == sq[-1]:
        return "concatenation_ambiguity"
    if any(s in (".", "..") for s in sp + sq):
        return "dot_segments"
    return None


def main():
    payload = json.loads(sys.stdin.read())
    tier, seed = payload["tier"], payload["seed"]
    open_classes = {k["class"] for k in payload["known"]}
    from dds.store import MemoryStore, LocalFileStore
    from dds._lru_store import LRUCacheStore
    from dds.structures import DDSException

    rnd = random.Random(seed)
    tmp = tempfile.mkdtemp(prefix="dds_b_store_")
    violations, known = [], {}
    evals = 0
    nseq = 300 if tier == "quick" else 3000
    samples = []

    def note(cls, what):
        if cls in open_classes:
            known.setdefault(cls, []).append(what)
        elif len(violations) < 10:
            violations.append({"what": what})

    try:
        # directed histories with two store objects over the same directories (two processes / a long-lived store):
        # the committed map is whatever the latest sync_paths of ANY writer set, for every reader
        n_directed = 0
        for kind in ("local", "local+cache"):
            for p_ in ("/a", "/d/e/f", "/x y/z"):
                for variant in ("other_writer_repoints", "link_removed_by_hand", "other_writer_then_same_key"):
                    n_directed += 1
                    evals += 1
                    d = os.path.join(tmp, "dir_%s_%d" % (kind.replace("+", "_"), n_directed))

                    def mk2():
                        s_ = LocalFileStore(os.path.join(d, "int"), os.path.join(d, "data"))
                        return LRUCacheStore(s_, 2) if kind == "local+cache" else s_

                    a, b = mk2(), mk2()
                    a.store_blob("k1", "value-of-k1", None)
                    b.store_blob("k2", "value-of-k2", None)
                    # blobs are shared by every store object on the internal directory, whichever was created first
                    for who, st_, k_ in (("the first store object", a, "k2"), ("the second store object", b, "k1")):
                        if not st_.has_blob(k_) or st_.fetch_blob(k_) != "value-of-" + k_:
                            note(None, "[%s] two store objects on one internal directory: %s does not see the blob %s stored by the other one (has_blob %r, fetch_blob %r)" % (kind, who, k_, st_.has_blob(k_), st_.fetch_blob(k_)))
                    a.sync_paths(OrderedDict([(p_, "k1")]))
                    if variant == "other_writer_repoints":
                        b.sync_paths(OrderedDict([(p_, "k2")]))
                    elif variant == "link_removed_by_hand":
                        links = [os.path.join(r_, f_) for r_, _, fs_ in os.walk(os.path.join(d, "data")) for f_ in fs_ if os.path.islink(os.path.join(r_, f_))]
                        for l_ in links:  # the one link the commit created, wherever the store put it
                            os.remove(l_)
                    else:
                        b.sync_paths(OrderedDict([(p_, "k2")]))
                        b.sync_paths(OrderedDict([(p_, "k1")]))
                        a.sync_paths(OrderedDict([(p_, "k2")]))
                        b.sync_paths(OrderedDict([(p_, "k1")]))
                    want = "k1"
                    if variant != "other_writer_then_same_key":
                        a.sync_paths(OrderedDict([(p_, "k1")]))
                    for who, st_ in (("the committing store", a), ("the other store", b), ("a fresh store", mk2())):
                        try:
                            got = st_.fetch_paths([p_]).get(p_)
                        except BaseException as e:
                            got = "raised %s" % type(e).__name__
                        if got != want:
                            note(None, "[%s] two writers, %s: after the last sync_paths(%s -> %s) %s resolves the path to %r" % (kind, variant, p_, want, who, got))
                    shutil.rmtree(d, ignore_errors=True)
        # directed: the listed open findings are exercised on every run, whatever the random sequences visit
        evals += 1
        d = os.path.join(tmp, "directed_alias")
        st_ = LocalFileStore(os.path.join(d, "int"), os.path.join(d, "data"))
        st_.store_blob("k1", "value-of-k1", None)
        st_.store_blob("k2", "value-of-k2", None)
        st_.sync_paths(OrderedDict([("/a/b/c", "k1")]))
        st_.sync_paths(OrderedDict([("/ab/c", "k2")]))
        got_ = st_.fetch_paths(["/a/b/c"]).get("/a/b/c")
        if got_ != "k1":
            note(classify_alias("/a/b/c", "/ab/c"), "[local] directed: /a/b/c committed with k1, then /ab/c with k2: /a/b/c resolves to %r" % got_)
        shutil.rmtree(d, ignore_errors=True)
        sys.path.insert(0, "/verif")
        from replay.h_dbfs import FakeDbutils
        from dds.codecs.databricks import DBFSStore, DBFSURI, CommitType

        for kind in ("memory", "local", "local+cache", "local-symlinked", "dbfs"):
            for it in range(nseq if kind != "dbfs" else nseq // 2):
                evals += 1
                d = os.path.join(tmp, "%s_%d" % (kind.replace("+", "_"), it))
                db = FakeDbutils()

                def mk():
                    if kind == "memory":
                        return None
                    if kind == "dbfs":
                        return DBFSStore(DBFSURI.parse("dbfs:/int"), DBFSURI.parse("dbfs:/data"), db, CommitType.FULL)
                    if kind == "local-symlinked":
                        # the store directories are reached through a symbolic link (a linked data volume, /tmp -> /private/tmp)
                        real = d + "_real"
                        if not os.path.lexists(d):
                            os.makedirs(real, exist_ok=True)
                            os.symlink(real, d)
                    s = LocalFileStore(os.path.join(d, "int"), os.path.join(d, "data"))
                    return LRUCacheStore(s, 2) if kind == "local+cache" else s

                st = MemoryStore() if kind == "memory" else mk()
                blobs, paths = {}, {}
                pool = PATHS + (ODD if it % 5 == 0 else [])
                ops = []
                bad_path_committed = None
                for step in range(rnd.randrange(2, 9)):
                    op = rnd.choice(["store", "has", "fetch", "sync", "fetchp", "reopen", "other_writer"])
                    key = rnd.choice(["k1", "k2", "k3", "k4"])
                    if op == "store":
                        # k3 denotes a value whose serialised form is empty, k4 the value None (present all the same once stored)
                        val = "" if key == "k3" else (None if key == "k4" else "value-of-" + key)
                        st.store_blob(key, val, None)
                        blobs[key] = val
                        ops.append("store(%s)" % key)
                    elif op == "has":
                        ops.append("has(%s)" % key)
                        if st.has_blob(key) != (key in blobs):
                            note(None, "[%s] %s: has_blob(%s) -> %r, model %r" % (kind, ops, key, st.has_blob(key), key in blobs))
                    elif op == "fetch":
                        ops.append("fetch(%s)" % key)
                        got = st.fetch_blob(key)
                        if got != blobs.get(key):
                            note(None, "[%s] %s: fetch_blob(%s) -> %r, model %r" % (kind, ops, key, got, blobs.get(key)))
                    elif op == "sync":
                        ks = [k for k in blobs]
                        if not ks:
                            continue
                        # batches of 1..3 paths; often re-committing an already committed path together with new ones
                        cand = list(pool)
                        if paths and rnd.random() < 0.6:
                            cand = list(paths)[:2] + cand
                        kk = rnd.choice(ks)
                        m = OrderedDict((p_, kk if rnd.random() < 0.7 else rnd.choice(ks)) for p_ in [rnd.choice(cand[:2]) if paths and rnd.random() < 0.5 else rnd.choice(pool)] + [rnd.choice(pool) for _ in range(rnd.randrange(0, 3))])
                        ops.append("sync(%s)" % dict(m))
                        try:
                            st.sync_paths(m)
                        except BaseException as e:
                            cls = "dot_segments" if any(s in (".", "..") for p in m for s in segs(p)) else ("path_is_prefix_of_committed_path" if isinstance(e, (IsADirectoryError, FileExistsError, NotADirectoryError)) else None)
                            note(cls, "[%s] %s: sync_paths raised %s: %s" % (kind, ops, type(e).__name__, e))
                            break
                        paths.update(m)
                        if kind == "dbfs":
                            outside = [u for u in db.fs.files if not (u.startswith("dbfs:/data/") or u.startswith("dbfs:/int/"))]
                            if outside:
                                note("dot_segments", "[%s] %s: objects written outside the store directories: %s" % (kind, ops, outside[:3]))
                        elif kind != "memory":
                            data = os.path.realpath(os.path.join(d, "data"))
                            for root, dirs, files in os.walk(d):
                                for f in files + dirs:
                                    full = os.path.join(root, f)
                                    if os.path.islink(full) and not os.path.abspath(full).startswith(data + os.sep):
                                        note("dot_segments", "[%s] %s: link %s created outside the data directory" % (kind, ops, os.path.relpath(full, d)))
                    elif op == "fetchp":
                        if not paths:
                            continue
                        p = rnd.choice(list(paths))
                        ops.append("fetch_paths(%s)" % p)
                        try:
                            got = st.fetch_paths([p]).get(p)
                        except BaseException as e:
                            note("dot_segments" if any(s in (".", "..") for s in segs(p)) else None, "[%s] %s: fetch_paths raised %s: %s" % (kind, ops, type(e).__name__, e))
                            continue
                        if got != paths[p]:
                            culprit = [q for q in paths if q != p and paths[q] == got]
                            cls = None
                            for q in culprit:
                                cls = cls or classify_alias(p, q)
                            note(cls, "[%s] %s: %s resolves to %s, committed with %s (aliases %s)" % (kind, ops, p, got, paths[p], culprit))
                    elif op == "other_writer" and kind != "memory" and paths and blobs:
                        # another process (another store object on the same directories) re-commits a path
                        other = mk()
                        if rnd.random() < 0.5:
                            # ... after storing a blob of its own, which this store object must see from now on
                            nk = rnd.choice(["k1", "k2", "k3", "k4"])
                            if nk not in blobs:
                                nv = "" if nk == "k3" else (None if nk == "k4" else "value-of-" + nk)
                                other.store_blob(nk, nv, None)
                                blobs[nk] = nv
                                ops.append("other_writer_store(%s)" % nk)
                        p_ = rnd.choice(list(paths))
                        k_ = rnd.choice(list(blobs))
                        ops.append("other_writer_sync(%s -> %s)" % (p_, k_))
                        try:
                            other.sync_paths(OrderedDict([(p_, k_)]))
                            paths[p_] = k_
                        except BaseException as e:
                            note("path_is_prefix_of_committed_path" if isinstance(e, (IsADirectoryError, FileExistsError, NotADirectoryError)) else None, "[%s] %s: other writer raised %s" % (kind, ops, type(e).__name__))
                            break
                    elif op == "reopen" and kind != "memory":
                        st = mk()
                        ops.append("reopen")
                if len(samples) < 3 and len(ops) > 3:
                    samples.append({"store": kind, "ops": ops})
                if kind not in ("memory", "dbfs"):
                    if os.path.islink(d):
                        os.remove(d)
                        shutil.rmtree(d + "_real", ignore_errors=True)
                    shutil.rmtree(d, ignore_errors=True)
    finally:
        shutil.rmtree(tmp, ignore_errors=True)
    print(json.dumps({
        "scope": "18 directed two-writer histories + %d random operation sequences (2..8 ops incl. another store object on the same directories, seed %d) per store kind x 5 store kinds (memory, local, cache-wrapped local, local reached through a symbolic link, DBFS over a fake dbutils), paths from %d-name alphabet incl. a/b/ab, dots, spaces, unicode, '.'/'..'" % (nseq, seed, len(PATHS) + len(ODD)),
        "evaluations": evals, "distinct_nontrivial": evals,
        "rule": "one case per (store kind, random operation sequence), compared step by step with a dictionary model",
        "samples": samples, "violations": violations,
        "known_hits": ["bounded:%s (%d cases, e.g. %s)" % (c, len(w), w[0][:160]) for c, w in sorted(known.items())],
    }))


if __name__ == "__main__":
    main()
