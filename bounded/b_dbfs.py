"""Bounded stand-in for C19 (labelled bounded): the DBFS store against an in-process fake of dbutils.fs.

For each commit type: keep / re-keep with changed code / load on small pipelines; after each evaluation, under the data
directory: 'full' -> a byte-identical copy of each kept result plus a redirect record, 'links only' -> just the record,
'none' -> nothing; has_blob == metadata readable; keep returns correct values under all three; load works whenever the
record exists; distinct paths (incl. a leading-dot segment) use distinct objects."""
import json
import sys
from collections import OrderedDict


def main():
    payload = json.loads(sys.stdin.read())
    open_classes = {k["class"] for k in payload["known"]}
    sys.path.insert(0, "/verif")
    from replay.h_dbfs import FakeDbutils
    import dds
    from dds.codecs.databricks import DBFSStore, DBFSURI, CommitType
    from dds.structures import DDSException

    violations, known, evals = [], {}, 0

    def note(cls, what):
        if cls in open_classes:
            known.setdefault(cls, []).append(what)
        elif len(violations) < 10:
            violations.append({"what": what})

    values = {"k_str": "text é", "k_bytes": b"\x00raw", "k_none": None, "k_obj": {"a": [1, 2, 3]}}
    for ct_name, ct in (("full", CommitType.FULL), ("links_only", CommitType.LINK_ONLY), ("none", CommitType.NO_COMMIT)):
        db = FakeDbutils()
        st = DBFSStore(DBFSURI.parse("dbfs:/int"), DBFSURI.parse("dbfs:/data"), db, ct)
        for k, v in values.items():
            evals += 1
            if st.has_blob(k):
                note(None, "[%s] has_blob(%s) before store" % (ct_name, k))
            st.store_blob(k, v, None)
            if not st.has_blob(k) or st.fetch_blob(k) != v:
                note(None, "[%s] blob %s does not round-trip: %r" % (ct_name, k, st.fetch_blob(k)))
        before = set(db.fs.files)
        st.sync_paths(OrderedDict([("/t/a", "k_str"), ("/t/b", "k_bytes")]))
        new = {p for p in db.fs.files if p not in before}
        evals += 1
        recs = {p for p in new if "_dds_meta" in p}
        objs = new - recs
        if ct == CommitType.NO_COMMIT and new:
            note(None, "[none] commit wrote %s" % sorted(new))
        if ct == CommitType.LINK_ONLY and (objs or len(recs) != 2):
            note(None, "[links_only] wrote objects %s / records %s" % (sorted(objs), sorted(recs)))
        if ct == CommitType.FULL:
            if len(recs) != 2 or len(objs) != 2:
                note(None, "[full] wrote objects %s / records %s" % (sorted(objs), sorted(recs)))
            for p, k in (("dbfs:/data/t/a", "k_str"), ("dbfs:/data/t/b", "k_bytes")):
                raw = db.fs.files.get(p)
                want = values[k].encode("utf-8") if isinstance(values[k], str) else values[k]
                if raw != want:
                    note(None, "[full] object at %s is not a byte-identical copy of the kept result" % p)
        if ct != CommitType.NO_COMMIT:
            evals += 1
            got = st.fetch_paths(["/t/a", "/t/b"])
            if dict(got) != {"/t/a": "k_str", "/t/b": "k_bytes"}:
                note(None, "[%s] fetch_paths -> %r" % (ct_name, dict(got)))
            # re-keep replaces, other path retained
            st.sync_paths(OrderedDict([("/t/a", "k_obj")]))
            got = st.fetch_paths(["/t/a", "/t/b"])
            if dict(got) != {"/t/a": "k_obj", "/t/b": "k_bytes"}:
                note(None, "[%s] after re-commit fetch_paths -> %r" % (ct_name, dict(got)))
            # distinct paths, distinct objects
            st.sync_paths(OrderedDict([("/.h", "k_str")]))
            st.sync_paths(OrderedDict([("/h", "k_bytes")]))
            got = dict(st.fetch_paths(["/.h", "/h"]))
            evals += 1
            if got != {"/.h": "k_str", "/h": "k_bytes"}:
                note("leading_dot_stripped", "[%s] /.h and /h share one location: fetch_paths -> %r" % (ct_name, got))
            if ct == CommitType.FULL:
                want_h = values["k_bytes"]
                want_dh = values["k_str"].encode("utf-8")
                objs_now = {p: v for p, v in db.fs.files.items() if p.startswith("dbfs:/data/") and "_dds_meta" not in p}
                copies_h = [p for p, v in objs_now.items() if v == want_h]
                copies_dh = [p for p, v in objs_now.items() if v == want_dh and not p.endswith("/t/a")]
                if not copies_h or not copies_dh:
                    note("leading_dot_stripped", "[full] after committing /.h and then /h only one of the two results has a copy under the data directory: objects %s" % sorted(objs_now))
        # end to end through the public API
        import types

        mod = types.ModuleType("dbfs_pipe")
        src = "import dds\nX = 3\ndef first():\n    return 'first'\ndef leaf():\n    return 'leaf-%d' % X\ndef root():\n    a = dds.keep('/e2e/first', first)\n    return dds.keep('/e2e/leaf', leaf) + '|root'\n"
        import os, tempfile, importlib

        d = tempfile.mkdtemp(prefix="dds_b_dbfs_")
        try:
            with open(os.path.join(d, "dbfs_pipe_%s.py" % ct_name), "w") as f:
                f.write(src)
            sys.path.insert(0, d)
            pipe = importlib.import_module("dbfs_pipe_%s" % ct_name)
            dds.accept_module(pipe)
            dds.set_store("dbfs", internal_dir="dbfs:/int2", data_dir="dbfs:/data2", dbutils=db, commit_type=ct_name)
            for x in (3, 4, 3):
                pipe.X = x
                evals += 1
                r = dds.keep("/e2e/root", pipe.root)
                if r != "leaf-%d|root" % x:
                    note(None, "[%s] keep returned %r for X=%d" % (ct_name, r, x))
                if ct != CommitType.NO_COMMIT:
                    try:
                        l = dds.load("/e2e/leaf")
                    except BaseException as e:
                        l = "<%s>" % type(e).__name__
                    if l != "leaf-%d" % x:
                        note(None, "[%s] load(/e2e/leaf) -> %r for X=%d" % (ct_name, l, x))
        finally:
            sys.path.remove(d)
            import shutil

            shutil.rmtree(d, ignore_errors=True)
            dds.set_store("memory")
    # the same through the public configuration call: set_store('dbfs', ...) again on the same directories and the same
    # dbutils object with another commit type; after a keep under type t the post-condition of t holds
    import types as _types

    for hist in (("links_only", "full", "none"), ("full", "none", "links_only"), ("none", "full", "full"), ("full", "links_only", "full")):
        for wrap in (None, 3):
            evals += 1
            db = FakeDbutils()
            mod = _types.ModuleType("dbfs_cfg_pipe")
            d_ = __import__("tempfile").mkdtemp(prefix="dds_b_dbfs_")
            try:
                name = "dbfs_cfg_%s_%s" % ("_".join(hist), wrap)
                with open(__import__("os").path.join(d_, name + ".py"), "w") as f_:
                    f_.write("import dds\nN = 0\ndef val():\n    return 'value-%d' % N\n")
                sys.path.insert(0, d_)
                pm = __import__("importlib").import_module(name)
                dds.accept_module(pm)
                for step, ct_name in enumerate(hist):
                    pm.N = step
                    dds.set_store("dbfs", internal_dir="dbfs:/cint", data_dir="dbfs:/cdata", dbutils=db, commit_type=ct_name, cache_objects=wrap)
                    before = dict(db.fs.files)
                    path = "/cfg/out%d" % step
                    r = dds.keep(path, pm.val)
                    tag = "set_store('dbfs') history %s (cache_objects=%s), step %d (%s)" % (list(hist), wrap, step, ct_name)
                    if r != "value-%d" % step:
                        note(None, "[%s] keep returned %r" % (tag, r))
                    new_data = {p_: v_ for p_, v_ in db.fs.files.items() if p_.startswith("dbfs:/cdata/") and before.get(p_) != v_}
                    rec = [p_ for p_ in new_data if "_dds_meta" in p_]
                    obj = [p_ for p_ in new_data if "_dds_meta" not in p_]
                    if ct_name == "none" and new_data:
                        note(None, "[%s] commit type 'none' wrote %s under the data directory" % (tag, sorted(new_data)))
                    if ct_name == "links_only" and (obj or len(rec) != 1):
                        note(None, "[%s] commit type 'links_only' wrote objects %s / records %s" % (tag, obj, rec))
                    if ct_name == "full" and (db.fs.files.get("dbfs:/cdata" + path) != ("value-%d" % step).encode("utf-8") or len(rec) != 1):
                        note(None, "[%s] commit type 'full' left %r at the path (records %s), not a copy of the kept result" % (tag, db.fs.files.get("dbfs:/cdata" + path), rec))
            finally:
                if d_ in sys.path:
                    sys.path.remove(d_)
                __import__("shutil").rmtree(d_, ignore_errors=True)
                dds.set_store("memory")
    # histories of commit types over the same directories (a store re-configured between runs): after a commit under
    # type t the postcondition of t holds, whatever the earlier types were
    import itertools

    cts = (("full", CommitType.FULL), ("links_only", CommitType.LINK_ONLY), ("none", CommitType.NO_COMMIT))
    for hist, reuse in itertools.product(itertools.product(cts, repeat=3), (False, True)):
        for keys in (("k1", "k1", "k1"), ("k1", "k2", "k1"), ("k1", "k2", "k2")):
            evals += 1
            db = FakeDbutils()
            committed = None  # key named by the record
            # reuse: one long-lived store object per commit type (two writers alternating on a path); else a fresh one per step
            tag = "commit types %s, keys %s, %s" % ([h[0] for h in hist], list(keys), "one store object per commit type" if reuse else "a fresh store object per step")
            objs = {}
            for (ct_name, ct), k in zip(hist, keys):
                st = objs.get(ct_name) if reuse else None
                if st is None:
                    st = objs[ct_name] = DBFSStore(DBFSURI.parse("dbfs:/int"), DBFSURI.parse("dbfs:/data"), db, ct)
                for kk in ("k1", "k2"):
                    if not st.has_blob(kk):
                        st.store_blob(kk, "value of " + kk, None)
                before = dict(db.fs.files)
                st.sync_paths(OrderedDict([("/h/p", k)]))
                data = {p: v for p, v in db.fs.files.items() if p.startswith("dbfs:/data/")}
                if ct == CommitType.NO_COMMIT:
                    if db.fs.files != before:
                        note(None, "[%s] a 'none' commit changed %s" % (tag, sorted(set(db.fs.files) ^ set(before))))
                    continue
                committed = k
                try:
                    got = dict(st.fetch_paths(["/h/p"]))
                except BaseException as e:
                    got = "<%s>" % type(e).__name__
                if got != {"/h/p": k}:
                    note(None, "[%s] after the %s commit of /h/p -> %s the record resolves to %r" % (tag, ct_name, k, got))
                if ct == CommitType.FULL and data.get("dbfs:/data/h/p") != ("value of " + k).encode("utf-8"):
                    note(None, "[%s] after the 'full' commit of /h/p -> %s the data directory holds %r at the path, not a copy of the result" % (tag, k, data.get("dbfs:/data/h/p")))
                if ct == CommitType.LINK_ONLY and data.get("dbfs:/data/h/p") != before.get("dbfs:/data/h/p"):
                    note(None, "[%s] a 'links only' commit wrote the object at the path" % tag)
    # blobs written by other releases: legacy / current codec references x 3 shapes of the metadata record; blob operations
    from replay import h_dbfs as _h

    for fn_ in (_h.alias_kinds, _h.blob_ops):
        evals += 18
        r_ = fn_({}, {})
        if r_.get("reproduced"):
            note(None, "[%s] %s" % (fn_.__name__, r_["detail"]))
    print(json.dumps({"scope": "18 blobs whose metadata record comes from another release (legacy / current codec reference x {with timestamp, reference only, additional fields}) + blob operations for 5 values x references + 8 histories of set_store('dbfs', commit_type=...) on one location + 81 histories of 3 commit types over the same directories x {fresh store object per step, one long-lived store object per commit type} x 3 key sequences + 3 commit types x 4 value types x {store, commit, re-commit, leading-dot path, end-to-end keep/load with an edit and a revert} on a fake dbutils.fs",
                      "evaluations": evals, "distinct_nontrivial": evals, "rule": "one case per (commit type, operation)", "samples": [{"commit_type": "links_only", "op": "sync_paths then fetch_paths"}],
                      "violations": violations, "known_hits": ["bounded:%s (%d cases, e.g. %s)" % (c, len(w), w[0][:160]) for c, w in sorted(known.items())]}))


if __name__ == "__main__":
    main()
