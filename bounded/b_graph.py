"""Bounded stand-in for C18 (labelled bounded): the exported graph against an executable spec of the statement, and
non-perturbation, on generated pipelines (nesting depth 3, a kept function shared by two parents with extra siblings,
keeps with run-time arguments, loads, a chain).  dds._plotting.draw_graph is replaced by a recorder that calls the real
_structure on the real interaction tree (no graphviz needed); the spec is computed from the same tree:
  nodes  = kept paths + paths loaded by kept functions
  solid  u -> v  iff  v's function reaches the keep of u without crossing another kept function
  dashed u -> v  iff  the function kept at v loads u's path
  any other edge is dotted and ends at a keep that has named arguments; the graph is acyclic.
Also: result, executed functions and committed signatures are identical with and without the export request."""
import importlib
import json
import os
import shutil
import sys
import tempfile

SHAPES = {
    "chain3": '''
def c(): return 1
def b(): return dds.keep("/g/c", c) + 1
def a(): return dds.keep("/g/b", b) + 1
def top(): return dds.keep("/g/a", a)
''',
    "shared_with_sibling": '''
def shared(): return 1
def other(): return 2
def p1(): return dds.keep("/g/shared", shared) + dds.keep("/g/other", other)
def p2(): return dds.keep("/g/shared", shared) + 5
def top(): return dds.keep("/g/p1", p1) + dds.keep("/g/p2", p2)
''',
    "helper_between": '''
def leaf(): return 1
def helper(): return dds.keep("/g/leaf", leaf) + 1
def mid(): return helper() + 1
def top(): return dds.keep("/g/mid", mid)
''',
    "runtime_args": '''
def first(): return 1
def second(): return 2
def dep(x): return x + 1
def top():
    a = dds.keep("/g/first", first)
    b = dds.keep("/g/second", second)
    return dds.keep("/g/dep", dep, a)
''',
    "loads": '''
def prod(): return 1
def reader(): return dds.load("/g/prod") + 1
def top():
    x = dds.keep("/g/prod", prod)
    return dds.keep("/g/reader", reader)
''',
    "loads_in_odd_places": '''
def base(): return 1
def rows(): return [1, 2]
def scaled():
    acc = []
    acc.append(dds.load("/g/base"))
    return acc[0] * 2
def count():
    return "{n}".format(n=len(dds.load("/g/rows")))
def top():
    b = dds.keep("/g/base", base)
    r = dds.keep("/g/rows", rows)
    return (dds.keep("/g/scaled", scaled), dds.keep("/g/count", count))
''',
    "diamond": '''
def base(): return 1
def l(): return dds.keep("/g/base", base) + 1
def r(): return dds.keep("/g/base", base) + 2
def top(): return dds.keep("/g/l", l) + dds.keep("/g/r", r)
''',
    "annotated_called_directly_then_loaded": '''
def raw(): return 1
@dds.data_function("/g/stage")
def stage(): return dds.keep("/g/raw", raw) + 1
def other(): return 7
def summary(): return dds.load("/g/other") + 1
def report(): return stage() + dds.load("/g/raw")
def top():
    o = dds.keep("/g/other", other)
    s = dds.keep("/g/summary", summary)
    return dds.keep("/g/report", report)
''',
    "load_of_grandchild_keep": '''
def leaf(): return 1
def mid(): return dds.keep("/g/leaf", leaf) + 1
def outer(): return dds.keep("/g/mid", mid) + dds.load("/g/leaf")
def top(): return dds.keep("/g/outer", outer)
''',
    "two_level_shared_helper": '''
def u(): return 1
def base(): return dds.keep("/g/u", u) + 1
def summary(): return base() * 2
def v1(): return summary() + 1
def v2(): return summary() + 2
def top(): return dds.keep("/g/v1", v1) + dds.keep("/g/v2", v2)
''',
    "shared_helper_three_parents": '''
def u(): return 1
def w(): return 5
def base(): return dds.keep("/g/u", u) + dds.keep("/g/w", w)
def mid(): return base() + 1
def outer(): return mid() + 1
def a(): return outer() + 1
def b(): return mid() + 2
def c(): return base() + 3
def top(): return dds.keep("/g/a", a) + dds.keep("/g/b", b) + dds.keep("/g/c", c)
''',
    "runtime_arg_keep_loads_earlier_sibling": '''
def fa(): return 1
def fb(x): return x + dds.load("/g/a")
def fc(): return dds.load("/g/a") + 5
def top():
    a = dds.keep("/g/a", fa)
    b = dds.keep("/g/b", fb, a)
    c = dds.keep("/g/c", fc)
    return b + c
''',
}
# hand-written ground truth of the solid edges for the shapes where a helper is shared through non-kept functions
SOLID = {
    "two_level_shared_helper": {("/g/u", "/g/v1"), ("/g/u", "/g/v2")},
    "shared_helper_three_parents": {(x, y) for x in ("/g/u", "/g/w") for y in ("/g/a", "/g/b", "/g/c")},
}
# ground truth written from the source text of the shapes (independent of what the analysis reports): the dashed edges
DASHED = {
    "chain3": set(), "shared_with_sibling": set(), "helper_between": set(), "runtime_args": set(), "diamond": set(),
    "loads": {("/g/prod", "/g/reader")},
    "loads_in_odd_places": {("/g/base", "/g/scaled"), ("/g/rows", "/g/count")},
    "annotated_called_directly_then_loaded": {("/g/other", "/g/summary"), ("/g/raw", "/g/report")},
    # the name `mid` inside dds.keep("/g/mid", mid) is itself analysed as a (non-kept) reference to mid, so outer reaches
    # the keep of /g/leaf without crossing a kept function: the pair has a solid edge, and an ordered pair carries one edge
    "load_of_grandchild_keep": set(),
    "two_level_shared_helper": set(),
    "shared_helper_three_parents": set(),
    "runtime_arg_keep_loads_earlier_sibling": {("/g/a", "/g/b"), ("/g/a", "/g/c")},
}


def spec_of(fis):
    from dds.structures import FunctionInteractions

    nodes, solid, dashed = set(), set(), set()

    def heads(n):
        out = []
        for c in n.parsed_body:
            if not isinstance(c, FunctionInteractions):
                continue
            if c.store_path is not None:
                out.append(c)
            else:
                out += heads(c)
        return out

    def walk(n):
        if n.store_path is not None:
            nodes.add(str(n.store_path))
            for u in heads(n):
                solid.add((str(u.store_path), str(n.store_path)))
            for p in n.indirect_deps:
                nodes.add(str(p))
                dashed.add((str(p), str(n.store_path)))
        for c in n.parsed_body:
            if isinstance(c, FunctionInteractions):
                walk(c)

    walk(fis)
    # an ordered pair carries one edge: where both relations hold the solid edge is the one drawn
    return nodes, solid, dashed - solid


def acyclic(edges):
    adj = {}
    for a, b in edges:
        adj.setdefault(a, set()).add(b)
    state = {}

    def dfs(x):
        state[x] = 1
        for y in adj.get(x, ()):
            if state.get(y) == 1 or (state.get(y) is None and not dfs(y)):
                return False
        state[x] = 2
        return True

    return all(dfs(x) for x in list(adj) if state.get(x) is None)


def main():
    payload = json.loads(sys.stdin.read())
    import dds
    import dds._plotting as P
    import dds._api as api

    violations, evals = [], 0
    samples = []
    rec = {}

    def recorder(fis, out, present_blobs, indirect_refs):
        rec["fis"] = fis
        rec["graph"] = P._structure(fis, indirect_refs)

    real = P.draw_graph
    P.draw_graph = recorder
    d = tempfile.mkdtemp(prefix="dds_b_graph_")
    sys.path.insert(0, d)
    try:
        for name, body in SHAPES.items():
            evals += 1
            modname = "gshape_" + name
            with open(os.path.join(d, modname + ".py"), "w") as f:
                f.write("import dds\n" + body)
            m = importlib.import_module(modname)
            dds.accept_module(m)
            # without export
            dds.set_store("memory")
            r0 = dds.eval(m.top)
            sig0 = dict(api._store()._paths)
            # with export
            dds.set_store("memory")
            rec.clear()
            try:
                r1 = dds.eval(m.top, dds_export_graph=os.path.join(d, "g.svg"))
            except BaseException as e:
                violations.append({"what": "[%s] the export request made the evaluation fail: %s: %s" % (name, type(e).__name__, str(e)[:120])})
                continue
            sig1 = dict(api._store()._paths)
            if r0 != r1 or sig0 != sig1:
                violations.append({"what": "[%s] result / signatures differ with the export request: %r %r" % (name, r0, r1)})
            if "graph" not in rec:
                violations.append({"what": "[%s] graph export did not run" % name})
                continue
            g = rec["graph"]
            nodes = {str(n.path) for n in g.fnodes}
            solid = {(str(e.from_path), str(e.to_path)) for e in g.deps if e.edge_type == P.DirectEdge}
            dashed = {(str(e.from_path), str(e.to_path)) for e in g.deps if e.edge_type == P.IndirectEdge}
            dotted = {(str(e.from_path), str(e.to_path)) for e in g.deps if e.edge_type == P.ImplicitEdge}
            sn, ss, sd = spec_of(rec["fis"])
            if len(samples) < 3:
                samples.append({"shape": name, "nodes": sorted(nodes), "solid": sorted(solid)})
            if nodes != sn:
                violations.append({"what": "[%s] nodes %s, expected %s" % (name, sorted(nodes), sorted(sn))})
            if solid != ss:
                violations.append({"what": "[%s] solid edges %s, expected %s" % (name, sorted(solid), sorted(ss))})
            if dashed != sd:
                violations.append({"what": "[%s] dashed edges %s, expected %s" % (name, sorted(dashed), sorted(sd))})
            if name in SOLID and solid != SOLID[name]:
                violations.append({"what": "[%s] solid edges %s, the source text gives %s" % (name, sorted(solid), sorted(SOLID[name]))})
            if dashed != DASHED[name]:
                violations.append({"what": "[%s] dashed edges %s, the source text has these loads by kept functions: %s" % (name, sorted(dashed), sorted(DASHED[name]))})
            if not acyclic(solid | dashed | dotted):
                violations.append({"what": "[%s] the graph has a cycle" % name})
            kept_with_args = set()

            def collect(n):
                from dds.structures import FunctionInteractions

                if n.store_path is not None and len(n.arg_input.named_args) > 0:
                    kept_with_args.add(str(n.store_path))
                for c in n.parsed_body:
                    if isinstance(c, FunctionInteractions):
                        collect(c)

            collect(rec["fis"])
            for (a, b) in dotted:
                if b not in kept_with_args:
                    violations.append({"what": "[%s] dotted edge %s -> %s does not end at a keep with arguments" % (name, a, b)})
        # ---- the real draw_graph, end to end: the file written for an evaluation shows the structure of THAT evaluation --
        # one process exports the same entry function again and again while the code below it changes (notebook style)
        import linecache
        import pydotplus

        steps = [
            'LEAF = "/h/a"\ndef leaf_a(): return 1\ndef leaf_b(x): return x * 10\ndef mid():\n    return dds.keep(LEAF, leaf_a) + 1\ndef top(): return dds.keep("/h/top", mid)\n',
            'LEAF = "/h/a"\ndef leaf_a(): return 1\ndef leaf_b(x): return x * 10\ndef mid():\n    a = dds.keep(LEAF, leaf_a)\n    return a + dds.keep("/h/b", leaf_b, a + 2)\ndef top(): return dds.keep("/h/top", mid)\n',
            'LEAF = "/h/renamed"\ndef leaf_a(): return 1\ndef leaf_b(x): return x * 10\ndef mid():\n    a = dds.keep(LEAF, leaf_a)\n    return a + dds.keep("/h/b", leaf_b, a + 2)\ndef top(): return dds.keep("/h/top", mid)\n',
            'LEAF = "/h/a"\ndef leaf_a(): return 1\ndef leaf_b(x): return x * 10\ndef mid():\n    return dds.keep(LEAF, leaf_a) + 1\ndef top(): return dds.keep("/h/top", mid)\n',
        ]

        def wrapper(fis, out, present_blobs, indirect_refs):
            rec["graph"] = P._structure(fis, indirect_refs)
            real(fis, out, present_blobs, indirect_refs)

        P.draw_graph = wrapper
        hp = os.path.join(d, "ghist.py")
        dds.set_store("memory")
        hm = None
        for si, src in enumerate(steps):
            evals += 1
            with open(hp, "w") as f:
                f.write("import dds\n" + src)
            os.utime(hp, (1000000000 + 10 * si, 1000000000 + 10 * si))
            linecache.checkcache()
            importlib.invalidate_caches()
            hm = importlib.import_module("ghist") if hm is None else importlib.reload(hm)
            dds.accept_module(hm)
            for out_name in ("same.dot", "step%d.dot" % si):
                rec.clear()
                out = os.path.join(d, out_name)
                try:
                    dds.eval(hm.top, dds_export_graph=out)
                    written = pydotplus.graph_from_dot_data(open(out, "rb").read().decode())
                except BaseException as e:
                    violations.append({"what": "[history step %d, file %s] export failed: %s: %s" % (si, out_name, type(e).__name__, str(e)[:120])})
                    continue
                strip = lambda x: x.strip('"')
                fnodes = {strip(n_.get_name()) for n_ in written.get_nodes()} - {"node", "graph", "edge", "\\n", ""}
                fedges = {(strip(e_.get_source()), strip(e_.get_destination()), (e_.get_attributes().get("style") or "").strip('"')) for e_ in written.get_edges()}
                g = rec["graph"]
                styles = {P.DirectEdge: "solid", P.IndirectEdge: "dashed", P.ImplicitEdge: "dotted"}
                wn = {str(n_.path) for n_ in g.fnodes}
                we = {(str(e_.from_path), str(e_.to_path), styles[e_.edge_type]) for e_ in g.deps}
                if fnodes != wn or fedges != we:
                    violations.append({"what": "[history in one process, step %d of 4 (code below the entry function edited, entry function unchanged), file %s] the exported file shows nodes %s / edges %s, the evaluation it was requested for has nodes %s / edges %s" % (si + 1, out_name, sorted(fnodes), sorted(fedges), sorted(wn), sorted(we))})
    finally:
        P.draw_graph = real
        sys.path.remove(d)
        shutil.rmtree(d, ignore_errors=True)
        dds.set_store("memory")
    print(json.dumps({"scope": "%d pipeline shapes (chain of 3, shared sub-node with extra sibling, helper between keeps, run-time-argument keep, loads, diamond, annotated kept function called directly whose kept path the caller loads, load of a grandchild's keep); dashed edges also against a hand-written ground truth per shape; the real draw_graph (graphviz dot output parsed back) on a 4-step edit history in one process, 2 output files per step" % len(SHAPES),
                      "evaluations": evals, "distinct_nontrivial": evals, "rule": "one case per pipeline shape; graph compared with the executable spec computed from the same interaction tree",
                      "samples": samples, "violations": violations[:10], "known_hits": []}))


if __name__ == "__main__":
    main()
