"""Bounded stand-in for C12 (labelled bounded): lock-step comparison of the cache-wrapped store with the bare store.

Scope: every sequence of up to L operations (L = 4 quick, 5 thorough) over keys {k0, k1}, operations
{has_blob, fetch_blob, store_blob(v), store_blob(None)} (store is content-addressed: a key is only ever stored with one
value), capacities {1, 2, 10, maxsize//2}, bare store = MemoryStore; plus LocalFileStore for L = 3.  After every
operation the two answers must be equal and the cache must hold at most `capacity` objects.
"""
import itertools
import json
import sys
import tempfile
import shutil


def main():
    payload = json.loads(sys.stdin.read())
    tier = payload["tier"]
    from dds.store import MemoryStore, LocalFileStore
    from dds._lru_store import LRUCacheStore

    L = 4 if tier == "quick" else 5
    keys = ["k0", "k1"]
    value_of = {"k0": "v0", "k1": None}  # k1 denotes a None-valued blob
    ops = [(o, k) for o in ("has", "fetch", "store") for k in keys]
    violations = []
    evals = 0
    distinct = 0
    samples = []

    def run(seq, cap, mk):
        bare, inner = mk(), mk()
        lru = LRUCacheStore(inner, num_elem=cap)
        for i, (o, k) in enumerate(seq):
            if o == "has":
                a, b = lru.has_blob(k), bare.has_blob(k)
            elif o == "fetch":
                a, b = lru.fetch_blob(k), bare.fetch_blob(k)
            else:
                lru.store_blob(k, value_of[k], None)
                bare.store_blob(k, value_of[k], None)
                a = b = None
            if a != b:
                return "capacity=%d ops=%s: step %d %s(%s) wrapped=%r bare=%r" % (cap, seq, i, o, k, a, b)
            n = len(lru._cache._cache)
            if n > cap:
                return "capacity=%d ops=%s: cache holds %d objects" % (cap, seq, n)
        return None

    for cap in (1, 2, 10, sys.maxsize // 2):
        for n in range(1, L + 1):
            for seq in itertools.product(ops, repeat=n):
                evals += 1
                if n == L:
                    distinct += 1
                r = run(seq, cap, MemoryStore)
                if r and len(violations) < 10:
                    violations.append({"what": r})
                if len(samples) < 2 and n == 3:
                    samples.append({"capacity": cap, "ops": [list(x) for x in seq]})
    # paths, and a second writer that goes to the wrapped store directly (another process / store object on the same
    # data): after every step the wrapped store and the bare store answer alike -- answers and exceptions
    from collections import OrderedDict

    pops = [("store", "k0"), ("has", "k0"), ("fetch", "k0"), ("sync", ("/p", "k0")), ("sync", ("/p", "k1")), ("fetchp", "/p"), ("other_sync", ("/p", "k0")), ("other_sync", ("/p", "k1")), ("other_store", "k1")]

    def outcome(f):
        try:
            r = f()
            return ("ok", dict(r) if isinstance(r, OrderedDict) else r)
        except BaseException as e:
            return ("raised", type(e).__name__)

    def run_paths(seq, cap, mk):
        bare, inner = mk(), mk()
        lru = LRUCacheStore(inner, num_elem=cap)
        for i, (o, x) in enumerate(seq):
            if o == "store":
                a, b = outcome(lambda: lru.store_blob(x, value_of[x], None)), outcome(lambda: bare.store_blob(x, value_of[x], None))
            elif o == "has":
                a, b = outcome(lambda: lru.has_blob(x)), outcome(lambda: bare.has_blob(x))
            elif o == "fetch":
                a, b = outcome(lambda: lru.fetch_blob(x)), outcome(lambda: bare.fetch_blob(x))
            elif o == "sync":
                a, b = outcome(lambda: lru.sync_paths(OrderedDict([x]))), outcome(lambda: bare.sync_paths(OrderedDict([x])))
            elif o == "fetchp":
                a, b = outcome(lambda: lru.fetch_paths([x])), outcome(lambda: bare.fetch_paths([x]))
            elif o == "other_sync":
                a, b = outcome(lambda: inner.sync_paths(OrderedDict([x]))), outcome(lambda: bare.sync_paths(OrderedDict([x])))
            else:
                a, b = outcome(lambda: inner.store_blob(x, value_of[x], None)), outcome(lambda: bare.store_blob(x, value_of[x], None))
            if a != b:
                return "capacity=%d ops=%s: step %d %s(%s) wrapped -> %r, bare -> %r" % (cap, [list(map(str, s_)) for s_ in seq], i, o, x, a, b)
        return None

    LP = 4 if tier == "quick" else 5
    for cap in (1, 10):
        for n in range(2, LP + 1):
            for seq in itertools.product(pops, repeat=n):
                if not any(o in ("fetchp", "has", "fetch") for o, _ in seq[1:]):
                    continue
                evals += 1
                r = run_paths(seq, cap, MemoryStore)
                if r and len(violations) < 10:
                    violations.append({"what": "[paths] " + r})
    # a wrapped store whose write / read fails once (natively; the same scenarios replay refuted obligations)
    sys.path.insert(0, "/verif")
    from replay import h_lru

    evals += 9
    r_ = h_lru.faulty_inner({}, {})
    if r_.get("reproduced"):
        violations.append({"what": "[faulty wrapped store] " + r_["detail"]})
    r_ = h_lru.retention_bound({}, {})
    evals += int(r_["detail"].split()[0]) if not r_.get("reproduced") else 1
    if r_.get("reproduced"):
        violations.append({"what": "[retained objects, weak references] " + r_["detail"]})
    evals += 4 * 4 * 27
    r_ = h_lru.lockstep_readback({}, {})
    if r_.get("reproduced"):
        violations.append({"what": "[values whose stored form differs from the object] " + r_["detail"]})
    tmp = tempfile.mkdtemp(prefix="dds_b_lru_")
    try:
        c2 = [0]

        def mk_local2():
            c2[0] += 1
            return LocalFileStore(tmp + "/pi%d" % c2[0], tmp + "/pd%d" % c2[0])

        for seq in itertools.product(pops, repeat=3):
            if not any(o in ("fetchp", "has", "fetch") for o, _ in seq[1:]):
                continue
            evals += 1
            r = run_paths(seq, 2, mk_local2)
            if r and len(violations) < 10:
                violations.append({"what": "[paths, local store] " + r})
            for d_ in list(__import__("os").listdir(tmp)):
                shutil.rmtree(tmp + "/" + d_, ignore_errors=True)
        c = [0]

        def mk_local():
            c[0] += 1
            return LocalFileStore(tmp + "/i%d" % c[0], tmp + "/d%d" % c[0])

        for cap in (1, 2):
            for seq in itertools.product(ops, repeat=3):
                evals += 1
                r = run(seq, cap, mk_local)
                if r and len(violations) < 10:
                    violations.append({"what": "[local store] " + r})
    finally:
        shutil.rmtree(tmp, ignore_errors=True)
    print(json.dumps({
        "scope": "all operation sequences of length <= %d over 2 keys x 3 operations x 4 capacities (MemoryStore), length 3 x 2 capacities (LocalFileStore); all sequences of length <= %d over 9 blob / path operations incl. a second writer on the wrapped store (MemoryStore, 2 capacities) and of length 3 on LocalFileStore; 9 histories with a wrapped store whose store_blob / sync_paths / fetch_blob fails once; 432 histories (4 capacities x 4 values x 27 orders of store / fetch / has) on LocalFileStore with values whose stored form is not the object itself (bytearray, list mutated after the store); all sequences of <= 5 fetch / has operations over capacity + 2 keys, capacities 1..3, on LocalFileStore: live fetched objects (weak references) never exceed the bound" % (L, LP),
        "evaluations": evals, "distinct_nontrivial": distinct, "exhaustive": True,
        "rule": "one case per (capacity, operation sequence); distinct = sequences of maximal length",
        "samples": samples, "violations": violations, "known_hits": [],
    }))


if __name__ == "__main__":
    main()
