"""Bounded stand-in for C12 (labelled bounded): lock-step comparison of the cache-wrapped store with the bare store.

Scope: every sequence of up to L operations (L = 4 quick, 5 thorough) over keys {k0, k1}, operations
{has_blob, fetch_blob, store_blob(v), store_blob(None)} (store is content-addressed: a key is only ever stored with one
value), capacities {1, 2, 10, maxsize//2}, bare store = MemoryStore; plus LocalFileStore for L = 3.  After every
operation the two answers must be equal and the cache must hold at most `capacity` objects.
"""
import itertools
import json
import sys
import tempfile
import shutil


def main():
    payload = json.loads(sys.stdin.read())
    tier = payload["tier"]
    from dds.store import MemoryStore, LocalFileStore
    from dds._lru_store import LRUCacheStore

    L = 4 if tier == "quick" else 5
    keys = ["k0", "k1"]
    value_of = {"k0": "v0", "k1": None}  # k1 denotes a None-valued blob
    ops = [(o, k) for o in ("has", "fetch", "store") for k in keys]
    violations = []
    evals = 0
    distinct = 0
    samples = []

    def run(seq, cap, mk):
        bare, inner = mk(), mk()
        lru = LRUCacheStore(inner, num_elem=cap)
        for i, (o, k) in enumerate(seq):
            if o == "has":
                a, b = lru.has_blob(k), bare.has_blob(k)
            elif o == "fetch":
                a, b = lru.fetch_blob(k), bare.fetch_blob(k)
            else:
                lru.store_blob(k, value_of[k], None)
                bare.store_blob(k, value_of[k], None)
                a = b = None
            if a != b:
                return "capacity=%d ops=%s: step %d %s(%s) wrapped=%r bare=%r" % (cap, seq, i, o, k, a, b)
            n = len(lru._cache._cache)
            if n > cap:
                return "capacity=%d ops=%s: cache holds %d objects" % (cap, seq, n)
        return None

    for cap in (1, 2, 10, sys.maxsize // 2):
        for n in range(1, L + 1):
            for seq in itertools.product(ops, repeat=n):
                evals += 1
                if n == L:
                    distinct += 1
                r = run(seq, cap, MemoryStore)
                if r and len(violations) < 10:
                    violations.append({"what": r})
                if len(samples) < 2 and n == 3:
                    samples.append({"capacity": cap, "ops": [list(x) for x in seq]})
    tmp = tempfile.mkdtemp(prefix="dds_b_lru_")
    try:
        c = [0]

        def mk_local():
            c[0] += 1
            return LocalFileStore(tmp + "/i%d" % c[0], tmp + "/d%d" % c[0])

        for cap in (1, 2):
            for seq in itertools.product(ops, repeat=3):
                evals += 1
                r = run(seq, cap, mk_local)
                if r and len(violations) < 10:
                    violations.append({"what": "[local store] " + r})
    finally:
        shutil.rmtree(tmp, ignore_errors=True)
    print(json.dumps({
        "scope": "all operation sequences of length <= %d over 2 keys x 3 operations x 4 capacities (MemoryStore), length 3 x 2 capacities (LocalFileStore)" % L,
        "evaluations": evals, "distinct_nontrivial": distinct, "exhaustive": True,
        "rule": "one case per (capacity, operation sequence); distinct = sequences of maximal length",
        "samples": samples, "violations": violations, "known_hits": [],
    }))


if __name__ == "__main__":
    main()
