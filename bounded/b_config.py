"""Bounded stand-in for C16 (labelled bounded): concrete local-store configurations on a real file system.

internal_dir / data_dir in {absolute, relative, trailing separator, nested not-yet-existing, parent reached through a symlink
whose real location is elsewhere} x cache_objects in {None, False, True, 0, -1, 3} x {same cwd, cwd changed before the load,
load from another process}; plus two stores sharing one internal directory with different data directories (blobs shared:
the second view does not recompute; path views independent)."""
import itertools
import json
import os
import shutil
import subprocess
import sys
import tempfile

import dds

CHILD = '''
import sys, os, json, dds
dds.set_store("local", internal_dir=sys.argv[1], data_dir=sys.argv[2])
try:
    print(json.dumps({"v": dds.load("/cfg/out")}))
except BaseException as e:
    print(json.dumps({"v": "<%s: %s>" % (type(e).__name__, str(e)[:100])}))
'''


sys._dds_cfg_calls = []  # kept outside the module so that dds does not track it as a variable of the pipeline


def fn():
    sys._dds_cfg_calls.append(1)
    return "cfg-value"


def inner_fn():
    sys._dds_cfg_calls.append("inner")
    return "inner-value"


def outer_fn():
    sys._dds_cfg_calls.append("outer")
    return dds.keep("/cfg/nested/inner", inner_fn) + "+outer"


def main():
    payload = json.loads(sys.stdin.read())
    import dds

    violations, evals = [], 0
    samples = []
    base = tempfile.mkdtemp(prefix="dds_b_config_")
    cwd0 = os.getcwd()
    try:
        kinds = ["absolute", "relative", "trailing", "nested", "symlinked_parent"]
        caches = [None, False, True, 0, -1, 3]
        n = 0
        for ki, kd in itertools.product(kinds, kinds):
            cache = caches[n % len(caches)]
            n += 1
            root = os.path.join(base, "c%d" % n)
            os.makedirs(os.path.join(root, "work"))
            os.makedirs(os.path.join(root, "elsewhere", "real_parent"))
            os.chdir(os.path.join(root, "work"))

            def mk(kind, name):
                if kind == "absolute":
                    return os.path.join(root, name)
                if kind == "relative":
                    return name
                if kind == "trailing":
                    return os.path.join(root, name) + os.sep
                if kind == "nested":
                    return os.path.join(root, "deep", "er", name)
                link = os.path.join(root, "lnk_" + name)
                if not os.path.lexists(link):
                    os.makedirs(os.path.join(root, "elsewhere", "real_parent", "p_" + name), exist_ok=True)
                    os.symlink(os.path.join(root, "elsewhere", "real_parent", "p_" + name), link)
                return os.path.join(link, name)

            idir, ddir = mk(ki, "int"), mk(kd, "data")
            tag = "internal_dir=%s data_dir=%s cache_objects=%r" % (ki, kd, cache)
            evals += 1
            try:
                dds.set_store("local", internal_dir=idir, data_dir=ddir, cache_objects=cache)
                import __main__

                v = dds.keep("/cfg/out", fn)
                same = dds.load("/cfg/out")
                abs_i, abs_d = os.path.abspath(idir), os.path.abspath(ddir)
                os.chdir(root)
                moved = dds.load("/cfg/out")
                p = subprocess.run([sys.executable, "-c", CHILD, abs_i, abs_d], capture_output=True, text=True, cwd=base, env=os.environ)
                other = json.loads(p.stdout.strip().split("\n")[-1])["v"] if p.returncode == 0 else "<child failed: %s>" % p.stderr[-100:]
            except BaseException as e:
                violations.append({"what": "%s: %s: %s" % (tag, type(e).__name__, str(e)[:160])})
                continue
            if len(samples) < 2:
                samples.append(tag)
            if not (v == same == moved == other == "cfg-value"):
                violations.append({"what": "%s: keep -> %r, load -> %r, load after chdir -> %r, load from another process -> %r" % (tag, v, same, moved, other)})
        # two data views on one internal directory
        os.chdir(base)
        evals += 1
        i, d1, d2 = os.path.join(base, "shared_int"), os.path.join(base, "view1"), os.path.join(base, "view2")
        CALLS = sys._dds_cfg_calls
        CALLS.clear()
        dds.set_store("local", internal_dir=i, data_dir=d1)
        dds.keep("/cfg/shared", fn)
        dds.set_store("local", internal_dir=i, data_dir=d2)
        n1 = len(CALLS)
        try:
            dds.load("/cfg/shared")
            violations.append({"what": "two views: a path committed through view1 is visible in view2"})
        except BaseException:
            pass
        dds.keep("/cfg/shared", fn)
        if len(CALLS) != n1:
            violations.append({"what": "two views on one internal directory: the second view recomputed a blob the first one stored"})
        if dds.load("/cfg/shared") != "cfg-value":
            violations.append({"what": "two views: load through view2 failed"})
        # a kept function that keeps an intermediate result: the second view holds EVERY path of the evaluation although it
        # computes nothing (top-level keep, dds.eval of a function that keeps, with and without the object cache)
        for cache in (None, 2):
            for entry in ("keep", "eval"):
                evals += 1
                i3 = os.path.join(base, "shared_nested_int_%s_%s" % (cache, entry))
                CALLS.clear()
                got = []
                for view in ("nestedA", "nestedB"):
                    dds.set_store("local", internal_dir=i3, data_dir=os.path.join(base, "%s_%s_%s" % (view, cache, entry)), cache_objects=cache)
                    try:
                        r_ = dds.keep("/cfg/nested/outer", outer_fn) if entry == "keep" else dds.eval(outer_fn)
                        loaded = {p_: dds.load(p_) for p_ in (["/cfg/nested/outer"] if entry == "keep" else []) + ["/cfg/nested/inner"]}
                    except BaseException as e:
                        r_, loaded = "<%s: %s>" % (type(e).__name__, str(e)[:100]), None
                    got.append((r_, loaded, len(CALLS)))
                want_loaded = dict(([("/cfg/nested/outer", "inner-value+outer")] if entry == "keep" else []) + [("/cfg/nested/inner", "inner-value")])
                if got[0][:2] != ("inner-value+outer", want_loaded) or got[1][:2] != ("inner-value+outer", want_loaded) or (entry == "keep" and got[1][2] != got[0][2]):
                    violations.append({"what": "two views on one internal directory, nested keep entered by dds.%s (cache_objects=%r): first view -> %r, second view -> %r (every kept path must load in both views, nothing recomputed in the second)" % (entry, cache, got[0], got[1])})
        # the same with both views alive at the same time (two long-lived processes / notebook kernels): the view created
        # first sees what the other one stores afterwards
        import dds._api as api_

        for cache in (None, 2):
            evals += 1
            i2 = os.path.join(base, "shared_live_int_%s" % cache)
            dds.set_store("local", internal_dir=i2, data_dir=os.path.join(base, "liveA_%s" % cache), cache_objects=cache)
            view_a = api_._store_var
            dds.set_store("local", internal_dir=i2, data_dir=os.path.join(base, "liveB_%s" % cache), cache_objects=cache)
            view_b = api_._store_var
            CALLS.clear()
            api_._store_var = view_b
            dds.keep("/cfg/live", fn)
            n1 = len(CALLS)
            api_._store_var = view_a
            got = dds.keep("/cfg/live", fn)
            if len(CALLS) != n1 or got != "cfg-value" or dds.load("/cfg/live") != "cfg-value":
                violations.append({"what": "two live views on one internal directory (cache_objects=%r): the view created first recomputed (%d extra calls) / misread (%r) a blob the other view stored afterwards" % (cache, len(CALLS) - n1, got)})
        # internal directory and data directory on two different file systems (a rename across them is not possible)
        other_fs = None
        for cand in ("/dev/shm", "/run/shm", "/var/tmp"):
            try:
                if os.path.isdir(cand) and os.access(cand, os.W_OK) and os.stat(cand).st_dev != os.stat(base).st_dev:
                    other_fs = tempfile.mkdtemp(prefix="dds_b_config_fs_", dir=cand)
                    break
            except OSError:
                pass
        if other_fs is not None:
            try:
                for (i_dir, d_dir, label) in ((os.path.join(base, "xfs_int"), os.path.join(other_fs, "data"), "data directory on another file system"), (os.path.join(other_fs, "int"), os.path.join(base, "xfs_data"), "internal directory on another file system")):
                    evals += 1
                    try:
                        dds.set_store("local", internal_dir=i_dir, data_dir=d_dir)
                        v = dds.keep("/cfg/xfs", fn)
                        l = dds.load("/cfg/xfs")
                        if v != "cfg-value" or l != "cfg-value":
                            violations.append({"what": "%s: keep -> %r, load -> %r" % (label, v, l)})
                    except BaseException as e:
                        violations.append({"what": "%s: %s: %s" % (label, type(e).__name__, str(e)[:120])})
            finally:
                shutil.rmtree(other_fs, ignore_errors=True)
        # the same configuration values given again after the working directory changed (two projects configured the
        # same way from one process): a relative directory names a directory under the working directory of the moment
        for cache in (None, True, 3):
            evals += 1
            shared = os.path.join(base, "shared_int_%s" % cache)
            pa, pb = os.path.join(base, "proj_a_%s" % cache), os.path.join(base, "proj_b_%s" % cache)
            os.makedirs(pa)
            os.makedirs(pb)
            os.chdir(pa)
            dds.set_store("local", internal_dir=shared, data_dir="data", cache_objects=cache)
            dds.keep("/cfg/a_only", fn)
            os.chdir(pb)
            dds.set_store("local", internal_dir=shared, data_dir="data", cache_objects=cache)
            try:
                dds.load("/cfg/a_only")
                violations.append({"what": "same set_store arguments after chdir (cache_objects=%r): project b's view serves a path only project a has kept" % (cache,)})
            except BaseException:
                pass
            dds.keep("/cfg/b_only", fn)
            if not os.path.lexists(os.path.join(pb, "data", "cfg", "b_only")):
                violations.append({"what": "same set_store arguments after chdir (cache_objects=%r): project b's keep was not committed under project b's data directory" % (cache,)})
            if os.path.lexists(os.path.join(pa, "data", "cfg", "b_only")):
                violations.append({"what": "same set_store arguments after chdir (cache_objects=%r): project b's keep landed in project a's data directory" % (cache,)})
    finally:
        os.chdir(cwd0)
        dds.set_store("memory")
        shutil.rmtree(base, ignore_errors=True)
    print(json.dumps({"scope": "5 x 5 directory kinds (cache_objects cycling over 6 values) x {same cwd, after chdir, other process} + two data views + directories on two file systems (when the machine has a second writable one) + the same relative configuration given again after chdir (3 cache settings)", "evaluations": evals, "distinct_nontrivial": evals,
                      "exhaustive": True, "rule": "one case per (internal_dir kind, data_dir kind)", "samples": samples, "violations": violations[:10], "known_hits": []}))


if __name__ == "__main__":
    main()
