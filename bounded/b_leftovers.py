"""Bounded stand-in for C04 / C08 / C17 (labelled bounded): LocalFileStore blob operations from every state an interrupted run
can leave behind (the native judge that also replays refuted store_blob / fetch_blob / has_blob obligations).

Scope: subsets of size <= 2 of 7 leftovers (<key>.tmp, <key>.meta.tmp, a meta file of another codec, a complete blob of
another type ...) x 5 value types: has_blob / fetch_blob see the complete blob only; store_blob then makes the key present,
fetch returns the stored value decoded with the codec that wrote it, the metadata names that codec, no other key changes,
another store object reads the same."""
import json
import sys


def main():
    json.loads(sys.stdin.read())
    sys.path.insert(0, "/verif")
    from replay import h_store

    r = h_store.store_ops({}, {})
    violations = [{"what": r["detail"], "inputs": r.get("inputs")}] if r.get("reproduced") else []
    print(json.dumps({"scope": "29 leftover states x 5 value types on LocalFileStore: store_blob really stores (present, fetched back, metadata of the writing codec), reads see complete blobs only",
                      "evaluations": 145, "distinct_nontrivial": 145, "rule": "one case per (leftover state, value type)", "samples": [{"leftovers": ["meta_of_text"], "value": "bytes"}], "violations": violations, "known_hits": []}))


if __name__ == "__main__":
    main()
