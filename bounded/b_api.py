"""Bounded stand-in (labelled bounded) shared by C04 / C10 / C11 / C15: the native scenario harness of replay/h_api.py run
unconditionally -- the same scenarios that replay refuted obligations, so that a change which takes _eval_new_ctx out of
the verifier's subset (the deductive part then exits 3) is still met by a native check.

Scenario families (one memory store with an effect log, a two-level pipeline with a nested keep):
  commit   fresh / repeat / edit / revert histories: one commit per evaluation, last effect, exactly the kept paths, load serves them
  dryrun   analysis-only and no-commit stage lists on fresh and on populated stores (paths pointing elsewhere), ill-formed lists
  failure  ValueError / KeyError / KeyboardInterrupt / SystemExit in the root or the nested function, once and twice in a row
  reject   overlapping paths, nested eval, circular calls, top-level keep overlapping an inner keep
args: {"groups": [...]} selects the families that belong to the property."""
import json
import sys


def main():
    payload = json.loads(sys.stdin.read())
    sys.path.insert(0, "/verif")
    from replay import h_api

    groups = payload["args"].get("groups") or ["commit", "dryrun", "value", "hit", "failure", "reject"]
    fails, err = h_api.run_scenarios()
    violations = []
    if err:
        print(json.dumps({"scope": "native scenario harness", "evaluations": 0, "distinct_nontrivial": 0, "rule": "-", "samples": [], "violations": [], "known_hits": [], "error": err}))
        sys.exit(3)
    open_classes = {k["class"] for k in payload.get("known", [])}
    known = {}
    for f in fails:
        if f["group"] not in groups:
            continue
        if f.get("cls") in open_classes:
            known.setdefault(f["cls"], []).append(f["what"])
        elif len(violations) < 10:
            violations.append({"what": "[%s] %s" % (f["group"], f["what"])})
    print(json.dumps({"scope": "native scenario harness, families %s: histories (fresh, repeat, edit, revert), 14 stage lists on fresh / populated stores, 8 failing evaluations x {once, twice}, 5 ill-formed evaluations + 6 call-cycle shapes (self, map, key=, keep, length 3, methods)" % groups,
                      "evaluations": 60, "distinct_nontrivial": 60, "rule": "one case per scenario of the selected families", "samples": [{"scenario": "root raises KeyboardInterrupt, evaluated twice"}],
                      "violations": violations, "known_hits": ["bounded:%s (%d cases, e.g. %s)" % (c, len(w), w[0][:200]) for c, w in sorted(known.items())]}))


if __name__ == "__main__":
    main()
