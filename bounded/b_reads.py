"""Bounded stand-in for C15 / C08 (labelled bounded): read operations of the local store and stage-restricted evaluations
leave the store byte-identical on disk.

Scope: 16 leftover states an interrupted run can leave (subsets of size <= 2 of: temporary link of a committed path /
of a new path, temporary blob file, temporary meta file, meta file without blob) x {bare, cache-wrapped local store} x
8 read operations (has_blob / fetch_blob / fetch_paths on present, absent and half-written entries) + dds.eval of a
function that loads a committed path with dds_stages = [analysis] and [analysis, store_inspect]: full snapshot of the
store directories (names, kinds, link targets, file bytes) before = after; answers come from the committed state."""
import json
import sys


def main():
    json.loads(sys.stdin.read())
    sys.path.insert(0, "/verif")
    from replay import h_store

    r = h_store.reads_leave_no_trace({}, {})
    violations = [{"what": r["detail"], "inputs": r.get("inputs")}] if r.get("reproduced") else []
    r2 = h_store.restricted_then_full({}, {})
    if r2.get("reproduced"):
        violations.append({"what": r2["detail"], "inputs": r2.get("inputs")})
    print(json.dumps({"scope": "16 leftover states x {bare, cache-wrapped} local store x (8 read operations + 2 stage-restricted evaluations + 1 full evaluation): on-disk snapshot unchanged, answers from the committed state; 3 store kinds x 7 delicate values x 5 stage prefixes: a full evaluation after the restricted run returns the value of plain execution",
                      "evaluations": 16 * 2 * 11 + 105, "distinct_nontrivial": 16 * 2 * 11 + 105, "rule": "one case per (leftover state, store, operation)", "samples": [{"leftovers": ["tmp_link_of_committed_path"], "operation": "fetch_paths(['/p'])"}],
                      "violations": violations, "known_hits": []}))


if __name__ == "__main__":
    main()
