"""Bounded stand-in for C14 / C03 (labelled bounded): the real _retrieve_object_rec on a real module graph against the
contract's case table written as plain Python over real reflection (ties the abstract object graph of
contracts/retrieve_rec.py to CPython).

Scope: accepted package `acc` (acc.m1, acc.sub.m2), non-accepted package `out` (out.n1); functions, a class with a method and
an attribute, values of tracked and untracked types, typing names, a builtin bound to a module name, re-exports under other
names in both directions, module attributes in both directions; every local path of length 1 over all names, of length 2 behind
10 heads, of length 3 behind 3 x 5 heads (420 paths) x 3 context modules.  args.mode = "tracking" (C14: same object tracked
under the same path, or nothing) / "exact" (C03: None vs external object too)."""
import json
import sys


def main():
    payload = json.loads(sys.stdin.read())
    sys.path.insert(0, "/verif")
    from replay import h_retrieve

    mode = payload["args"].get("mode", "tracking")
    r = h_retrieve.resolution_cases({}, {"obligation": "#ensures:pinned_" if mode == "exact" else ""})
    violations = [{"what": r["detail"], "inputs": r.get("inputs")}] if r.get("reproduced") else []
    r2 = h_retrieve.retrieve_cases({}, {})
    if r2.get("reproduced"):
        violations.append({"what": r2["detail"], "inputs": r2.get("inputs")})
    print(json.dumps({"scope": "420 local paths x 3 context modules on a real module graph (accepted package, non-accepted package, re-exports and module attributes in both directions), %s comparison with the contract's case table; retrieve_object (cache, import fall-back, start globals of a __main__ module) on 396 (module, path) pairs with a fresh context each and with one shared context in two orders" % mode,
                      "evaluations": 1260 + 1188, "distinct_nontrivial": 1260 + 396, "rule": "one case per (context module, local path)", "samples": [{"local_path": ["outside", "accm", "f"], "context_module": "acc.sub.m2"}], "violations": violations, "known_hits": []}))


if __name__ == "__main__":
    main()
