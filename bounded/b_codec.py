"""Bounded stand-in for C17 (labelled bounded; also the cross-check of assumption A-LIB): values of each storable type are
written with the local store, codecs are registered / re-prioritised, and the values are read back -- in this process and
in a fresh one -- and compared; text and bytes files are compared byte for byte with the value."""
import json
import os
import pickle
import shutil
import subprocess
import sys
import tempfile


def main():
    payload = json.loads(sys.stdin.read())
    import pandas as pd
    from dds.store import LocalFileStore
    from dds.codec import codec_registry
    from dds.structures import FileCodecProtocol, ProtocolRef
    from dds.structures_utils import SupportedTypeUtils as STU

    class UpperStrCodec(FileCodecProtocol):
        def ref(self):
            return ProtocolRef("test.upper_string")

        def handled_types(self):
            return [STU.from_type(str)]

        def serialize_into(self, blob, loc):
            with open(str(loc), "wb") as f:
                f.write(blob.upper().encode())

        def deserialize_from(self, loc):
            with open(str(loc), "rb") as f:
                return f.read().decode()

    vals = {
        "s_empty": "", "s_ascii": "hello", "s_uni": "héllo ✓ \u0000 end", "s_big": "x" * 200000, "s_crlf": "a,b\r\n1,2\r\n", "s_cr": "x\ry", "s_nl": "\n\n",
        "b_empty": b"", "b_bin": bytes(range(256)), "ba": bytearray(b"abc"),
        "none": None, "int": 12345678901234567890, "list": [1, "a", None, 2.5], "dict": {"a": [1, 2], "b": None},
        "df": pd.DataFrame({"a": [1, 2, 3], "b": ["x", "y", "é"]}), "df_empty": pd.DataFrame({"a": []}),
        "df_filtered": pd.DataFrame({"a": [1, 2, 3, 4]})[lambda d: d.a % 2 == 0], "df_labels": pd.DataFrame({"v": [1.5, 2.5]}, index=["alpha", "bêta"]),
        "df_named_index": pd.DataFrame({"k": ["x", "y"], "v": [1, 2]}).set_index("k"),
    }
    tmp = tempfile.mkdtemp(prefix="dds_b_codec_")
    violations, evals = [], 0
    try:
        st = LocalFileStore(os.path.join(tmp, "int"), os.path.join(tmp, "data"))
        for k, v in vals.items():
            st.store_blob(k, v)
        # registrations between write and read: a file codec for str (must not take over), then a high-priority codec
        codec_registry().add_file_codec(UpperStrCodec())
        # ... and user file codecs that handle a NEW type but reuse a reference that is already registered (a subclass of
        # a built-in codec that does not override ref()): what the built-in codec wrote is still read by the built-in codec
        from dds.codecs.builtins import StringLocalFileCodec, BytesFileCodec

        class JsonDictCodec(StringLocalFileCodec):
            def handled_types(self):
                return [STU.from_type(dict)]

            def serialize_into(self, blob, loc):
                with open(str(loc), "wb") as f:
                    f.write(json.dumps(blob).encode())

            def deserialize_from(self, loc):
                with open(str(loc), "rb") as f:
                    return json.loads(f.read().decode())

        class ReversedBytesCodec(BytesFileCodec):
            def handled_types(self):
                return [STU.from_type(memoryview)]

            def deserialize_from(self, loc):
                with open(str(loc), "rb") as f:
                    return f.read()[::-1]

        for extra in (JsonDictCodec(), ReversedBytesCodec()):
            try:
                codec_registry().add_file_codec(extra)
            except BaseException:
                pass  # refusing the registration is fine

        def same(a, b):
            if isinstance(a, pd.DataFrame):
                return isinstance(b, pd.DataFrame) and a.equals(b)
            return a == b and type(a) in (type(b), bytearray)

        for k, v in vals.items():
            evals += 1
            try:
                got = st.fetch_blob(k)
            except BaseException as e:
                violations.append({"what": "%s: reading back raised %s: %s" % (k, type(e).__name__, str(e)[:80])})
                continue
            if not same(v, got):
                violations.append({"what": "%s: read back %r, wrote %r" % (k, str(got)[:60], str(v)[:60])})
            meta = json.load(open(os.path.join(tmp, "int", "blobs", k + ".meta")))
            if isinstance(v, str):
                raw = open(os.path.join(tmp, "int", "blobs", k), "rb").read()
                if raw != v.encode("utf-8"):
                    violations.append({"what": "%s: text not stored verbatim" % k})
            if isinstance(v, (bytes, bytearray)):
                raw = open(os.path.join(tmp, "int", "blobs", k), "rb").read()
                if raw != bytes(v):
                    violations.append({"what": "%s: bytes not stored verbatim" % k})
        codec_registry().add_codec(UpperStrCodec())  # now str values are *written* with another codec ...
        st.store_blob("s_after", "written later")
        for k in ("s_ascii", "s_uni"):
            evals += 1
            try:
                again = st.fetch_blob(k)
            except BaseException as e:
                again = "<%s>" % type(e).__name__
            if again != vals[k]:  # ... but what was written before is read with the codec that wrote it
                violations.append({"what": "%s: read back with a codec registered after the write" % k})
        # a second user codec for the same type supersedes the first one for WRITING; what the first one wrote stays readable
        # through its reference (a format migration, or a notebook cell registering codecs again)
        before = st.fetch_blob("s_after")

        class LowerStrCodec(UpperStrCodec):
            def ref(self):
                return ProtocolRef("test.lower_string")

            def serialize_into(self, blob, loc):
                with open(str(loc), "wb") as f:
                    f.write(blob.lower().encode())

        for round_ in (1, 2):
            codec_registry().add_codec(LowerStrCodec())
            st.store_blob("s_third_%d" % round_, "Third")
            for k in ("s_after", "s_ascii", "s_uni", "s_third_%d" % round_):
                evals += 1
                try:
                    again = st.fetch_blob(k)
                except BaseException as e:
                    again = "<%s: %s>" % (type(e).__name__, str(e)[:80])
                want = before if k == "s_after" else ("third" if k.startswith("s_third") else vals[k])
                if again != want:
                    violations.append({"what": "%s: after registering another codec for str (%d time(s)) it reads back as %r, it was written as %r by a codec that is still registered under its reference" % (k, round_, again, want)})
        # fresh process (default registry): everything written with built-in codecs is readable
        code = (
            "import sys, json, pickle\nfrom dds.store import LocalFileStore\n"
            "st = LocalFileStore(sys.argv[1], sys.argv[2])\nout = {}\n"
            "for k in json.loads(sys.argv[3]):\n    v = st.fetch_blob(k)\n    out[k] = repr(v)[:50] if not hasattr(v, 'equals') else 'DF%d %s %s' % (len(v), list(v.index), list(v.index.names))\nprint(json.dumps(out))\n"
        )
        keys = [k for k in vals]
        out = None
        for attempt in range(3):
            p = subprocess.run([sys.executable, "-c", code, os.path.join(tmp, "int"), os.path.join(tmp, "data"), json.dumps(keys)], capture_output=True, text=True, env=os.environ)
            # the answer is what the process printed; a native library aborting at interpreter shutdown (seen once under
            # load: "terminate called without an active exception", after the result line) is not a read failure
            lines = [l for l in p.stdout.strip().split("\n") if l.startswith("{")]
            if lines:
                out = json.loads(lines[-1])
                break
            if "Traceback" in p.stderr:
                break
        evals += len(keys)
        if out is None and "Traceback" in p.stderr:
            violations.append({"what": "fresh process failed to read: " + p.stderr[-300:]})
        elif out is None:
            raise RuntimeError("the reader process died three times without a Python error: " + p.stderr[-300:])
        else:
            for k, v in vals.items():
                exp = repr(v)[:50] if not hasattr(v, "equals") else "DF%d %s %s" % (len(v), list(v.index), list(v.index.names))
                if out.get(k) != exp and not isinstance(v, bytearray):
                    violations.append({"what": "%s: fresh process read %s, expected %s" % (k, out.get(k), exp)})
    finally:
        shutil.rmtree(tmp, ignore_errors=True)
    print(json.dumps({"scope": "%d values (str/bytes/None/objects/pandas, incl. empty, non-ASCII, large) x {same process, after 4 registrations (incl. codecs reusing a registered reference for a new type), fresh process}" % len(vals),
                      "evaluations": evals, "distinct_nontrivial": len(vals), "rule": "one case per (value, reading situation)",
                      "samples": [{"value": "s_uni", "situation": "after add_file_codec + add_codec for str"}], "violations": violations[:10], "known_hits": []}))


if __name__ == "__main__":
    main()
