"""Native replay of refuted obligations on the real code (runs under /venv/bin/python).

usage: native.py <handler>   (JSON payload on stdin: {"model": {...}, "obligation": "..."})
prints one JSON line {"reproduced": bool|null, "detail": str, "inputs": ...}
"""
import json
import sys
import importlib


def main():
    handler = sys.argv[1]
    payload = json.loads(sys.stdin.read() or "{}")
    modname, fn = handler.rsplit(".", 1)
    mod = importlib.import_module("replay." + modname)
    try:
        out = getattr(mod, fn)(payload.get("model") or {}, payload)
    except Exception as e:
        import traceback

        out = {"reproduced": None, "detail": "handler raised: %r\n%s" % (e, traceback.format_exc()[-800:])}
    print(json.dumps(out, default=str))


if __name__ == "__main__":
    main()
