"""Replay handlers for dds/_lru_store.py obligations."""
import re


def _int(model, name, default):
    v = model.get(name)
    try:
        return int(v)
    except Exception:
        return default


def coh_after_fetch(model, payload):
    """COH after LRUCacheStore.fetch_blob: the model has a key that the wrapped store does not hold.
    Concretisation: uninterpreted Key!val!0 -> 'k0'; capacity from the model (>= 1)."""
    from dds.store import MemoryStore
    from dds._lru_store import LRUCacheStore

    cap = max(_int(model, "lru._capacity", 1), 1)
    bare = MemoryStore()
    ref = MemoryStore()
    lru = LRUCacheStore(bare, num_elem=cap)
    key = "k0"
    steps = ["fetch_blob(k0)"]
    got = lru.fetch_blob(key)
    exp = ref.fetch_blob(key)
    a, b = lru.has_blob(key), ref.has_blob(key)
    steps.append("has_blob(k0) -> wrapped=%r bare=%r" % (a, b))
    bad = (got != exp) or (a != b)
    return {"reproduced": bool(bad), "detail": "; ".join(steps), "inputs": {"capacity": cap, "key": key, "ops": ["fetch_blob", "has_blob"]}}
