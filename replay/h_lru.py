"""Replay handlers for dds/_lru_store.py obligations."""
import re


def _int(model, name, default):
    v = model.get(name)
    try:
        return int(v)
    except Exception:
        return default


def coh_after_fetch(model, payload):
    """COH after LRUCacheStore.fetch_blob: the model has a key that the wrapped store does not hold.
    Concretisation: uninterpreted Key!val!0 -> 'k0'; capacity from the model (>= 1)."""
    from dds.store import MemoryStore
    from dds._lru_store import LRUCacheStore

    cap = max(_int(model, "lru._capacity", 1), 1)
    bare = MemoryStore()
    ref = MemoryStore()
    lru = LRUCacheStore(bare, num_elem=cap)
    key = "k0"
    steps = ["fetch_blob(k0)"]
    got = lru.fetch_blob(key)
    exp = ref.fetch_blob(key)
    a, b = lru.has_blob(key), ref.has_blob(key)
    steps.append("has_blob(k0) -> wrapped=%r bare=%r" % (a, b))
    bad = (got != exp) or (a != b)
    return {"reproduced": bool(bad), "detail": "; ".join(steps), "inputs": {"capacity": cap, "key": key, "ops": ["fetch_blob", "has_blob"]}}


def cache_option(model, payload):
    """set_store(cache_objects=...): documented decoding None/False/0 -> no cache, True -> 10, n > 0 -> n, n < 0 -> unbounded"""
    import sys
    import dds
    import dds._api as api
    from dds._lru_store import LRUCacheStore, default_cache_size
    from dds.structures import DDSException

    bad = []
    for opt, want in ((None, None), (False, None), (0, None), (True, default_cache_size), (1, 1), (7, 7), (-1, sys.maxsize // 2), (-5, sys.maxsize // 2)):
        dds.set_store("memory", cache_objects=opt)
        st = api._store()
        got = st._num_elem if isinstance(st, LRUCacheStore) else None
        if got != want:
            bad.append("cache_objects=%r installs capacity %r, documented %r" % (opt, got, want))
    for opt in ("3", 2.5):
        try:
            dds.set_store("memory", cache_objects=opt)
            bad.append("cache_objects=%r accepted" % (opt,))
        except DDSException:
            pass
        except BaseException as e:
            bad.append("cache_objects=%r raised %s" % (opt, type(e).__name__))
    dds.set_store("memory")
    if bad:
        return {"reproduced": True, "detail": "; ".join(bad[:4]), "inputs": {"options": bad}}
    return {"reproduced": False, "detail": "every option value decodes as documented"}


def faulty_inner(model, payload):
    """a wrapped store whose write fails once: afterwards the cache-wrapped store answers exactly like the bare store
    (no blob / path claimed that the store lacks), for every capacity"""
    from collections import OrderedDict
    from dds.store import MemoryStore
    from dds._lru_store import LRUCacheStore

    class Flaky(MemoryStore):
        fail = None

        def store_blob(self, key, blob, codec=None):
            if Flaky.fail == "store_blob":
                Flaky.fail = None
                raise OSError(28, "No space left on device")
            return super().store_blob(key, blob, codec)

        def fetch_blob(self, key):
            if Flaky.fail == "fetch_blob":
                Flaky.fail = None
                raise ImportError("the class of the pickled object is not importable yet")
            return super().fetch_blob(key)

        def sync_paths(self, paths):
            if Flaky.fail == "sync_paths":
                Flaky.fail = None
                raise OSError(28, "No space left on device")
            return super().sync_paths(paths)

    for cap in (1, 2, 10):
        for what in ("store_blob", "sync_paths"):
            inner = Flaky()
            st = LRUCacheStore(inner, cap)
            st.store_blob("k0", "v0", None)
            Flaky.fail = what
            try:
                if what == "store_blob":
                    st.store_blob("k1", "v1", None)
                else:
                    st.sync_paths(OrderedDict([("/p", "k0")]))
                return {"reproduced": True, "detail": "capacity %d: the failure of the wrapped store's %s was swallowed" % (cap, what), "inputs": {"capacity": cap, "fault": what}}
            except OSError:
                pass
            bare_has, bare_val = inner.has_blob("k1"), inner.fetch_blob("k1")
            if st.has_blob("k1") != bare_has or st.fetch_blob("k1") != bare_val:
                return {"reproduced": True, "detail": "capacity %d: after a failed %s of the wrapped store the cache-wrapped store reports has_blob(k1)=%r / fetch_blob(k1)=%r, the bare store %r / %r" % (cap, what, st.has_blob("k1"), st.fetch_blob("k1"), bare_has, bare_val), "inputs": {"capacity": cap, "fault": what}}
            try:
                w = dict(st.fetch_paths(["/p"]))
            except BaseException as e:
                w = type(e).__name__
            try:
                b = dict(inner.fetch_paths(["/p"]))
            except BaseException as e:
                b = type(e).__name__
            if w != b:
                return {"reproduced": True, "detail": "capacity %d: after a failed %s fetch_paths differs: wrapped %r, bare %r" % (cap, what, w, b), "inputs": {"capacity": cap, "fault": what}}
    # a read of a present blob that fails once (class not importable yet, transient I/O error): nothing wrong is remembered
    for cap in (1, 2, 10):
        inner = Flaky()
        st = LRUCacheStore(inner, cap)
        inner.store_blob("kf", {"model": 1}, None)
        Flaky.fail = "fetch_blob"
        try:
            st.fetch_blob("kf")
            return {"reproduced": True, "detail": "capacity %d: the failure of the wrapped store's fetch_blob was swallowed" % cap, "inputs": {"capacity": cap, "fault": "fetch_blob"}}
        except ImportError:
            pass
        got = st.fetch_blob("kf")
        if got != {"model": 1} or not st.has_blob("kf"):
            return {"reproduced": True, "detail": "capacity %d: after a failed read of a present blob the cache-wrapped store returns %r for it (the bare store returns the object)" % (cap, got), "inputs": {"capacity": cap, "fault": "fetch_blob"}}
    return {"reproduced": False, "detail": "the wrapper stays coherent with the store after a failed write or read, capacities 1, 2, 10"}


def lockstep_readback(model, payload):
    """The wrapper answers with what the wrapped store reads back, never with an object it was merely handed: lock-step of
    LRUCacheStore(LocalFileStore) with a bare LocalFileStore over values whose stored form is not the object itself
    (a bytearray is read back as bytes; a list mutated by the caller after the store keeps its stored content), every
    order of {store, fetch, has} of length <= 3 per key, capacities 1, 2, 10, unbounded."""
    import itertools
    import shutil
    import sys
    import tempfile
    from dds.store import LocalFileStore
    from dds._lru_store import LRUCacheStore

    def view(x):
        return (type(x).__name__, repr(x))

    tmp = tempfile.mkdtemp(prefix="dds_h_lru_")
    n = 0
    try:
        for cap in (1, 2, 10, sys.maxsize // 2):
            for vname in ("bytearray", "mutated_list", "none", "str"):
                for seq in itertools.product(("store", "fetch", "has"), repeat=3):
                    n += 1
                    bare = LocalFileStore(tmp + "/bi%d" % n, tmp + "/bd%d" % n)
                    lru = LRUCacheStore(LocalFileStore(tmp + "/wi%d" % n, tmp + "/wd%d" % n), num_elem=cap)
                    for i, o in enumerate(seq):
                        if o == "store":
                            if bare.has_blob("k"):
                                continue  # content addressing: a present key is not stored again
                            va = {"bytearray": bytearray(b"abc"), "mutated_list": [1, 2], "none": None, "str": "s"}[vname]
                            vb = {"bytearray": bytearray(b"abc"), "mutated_list": [1, 2], "none": None, "str": "s"}[vname]
                            lru.store_blob("k", va, None)
                            bare.store_blob("k", vb, None)
                            if vname == "mutated_list":
                                va.append(3)
                                vb.append(3)
                            a = b = None
                        elif o == "fetch":
                            a, b = view(lru.fetch_blob("k")), view(bare.fetch_blob("k"))
                        else:
                            a, b = lru.has_blob("k"), bare.has_blob("k")
                        if a != b:
                            return {"reproduced": True, "detail": "local store, capacity %d, value %s, operations %s: step %d %s -> wrapped store answers %r, the bare store %r" % (cap, vname, list(seq), i + 1, o, a, b),
                                    "inputs": {"capacity": cap, "value": vname, "ops": list(seq)}}
                    shutil.rmtree(tmp, ignore_errors=True)
    finally:
        shutil.rmtree(tmp, ignore_errors=True)
    return {"reproduced": False, "detail": "%d lock-step histories over values with a non-identical stored form: the wrapped store answers like the bare one" % n}


class Blob:
    """a value that supports weak references and is re-created by every read of the file store"""

    def __init__(self, tag):
        self.tag = tag

    def __eq__(self, o):
        return isinstance(o, Blob) and o.tag == self.tag

    def __hash__(self):
        return hash(self.tag)


def retention_bound(model, payload):
    """The cache never retains more fetched objects than its bound -- wherever it keeps them: the wrapped local store
    creates a new object for every read, so the objects that are still alive after a garbage collection (weak references on
    everything fetch_blob returned) are exactly what the cache retains.  Every sequence of <= 5 operations
    {fetch_blob, has_blob} x (capacity + 2) keys, capacities 1, 2, 3; after every operation: alive <= capacity, and the
    answers are those of the bare store."""
    import gc
    import itertools
    import shutil
    import tempfile
    import weakref
    from dds.store import LocalFileStore
    from dds._lru_store import LRUCacheStore

    tmp = tempfile.mkdtemp(prefix="dds_h_lru_ret_")
    n = 0
    try:
        inner = LocalFileStore(tmp + "/i", tmp + "/d")
        for i in range(5):
            inner.store_blob("k%d" % i, Blob(i), None)
        for cap in (1, 2, 3):
            keys = ["k%d" % i for i in range(cap + 2)]
            ops = [(o, k) for o in ("fetch", "has") for k in keys]
            for L in (3, 4, 5):
                for seq in itertools.product(ops, repeat=L):
                    if L > cap + 2 and sum(1 for o_, _ in seq if o_ == "has") > 1:
                        continue  # longer sequences: at most one presence check in between
                    if len({k for o_, k in seq if o_ == "fetch"}) < min(cap + 1, L - 1):
                        continue  # only sequences that can overflow the bound
                    n += 1
                    lru = LRUCacheStore(inner, num_elem=cap)
                    refs = []
                    for i, (o, k) in enumerate(seq):
                        if o == "fetch":
                            v = lru.fetch_blob(k)
                            if v != Blob(int(k[1:])):
                                return {"reproduced": True, "detail": "capacity %d, operations %s: fetch_blob(%s) -> %r" % (cap, list(seq), k, v), "inputs": {"capacity": cap, "ops": [list(x) for x in seq]}}
                            refs.append(weakref.ref(v))
                            del v
                        elif lru.has_blob(k) is not True:
                            return {"reproduced": True, "detail": "capacity %d, operations %s: has_blob(%s) is not True" % (cap, list(seq), k), "inputs": {"capacity": cap, "ops": [list(x) for x in seq]}}
                        if n % 500 == 0:
                            gc.collect()  # (entries are not in reference cycles: dropping the last reference frees them at once)
                        alive = len({id(r()) for r in refs if r() is not None})
                        if alive > cap:
                            return {"reproduced": True, "detail": "capacity %d, operations %s: after step %d the cache keeps %d fetched objects alive (bound %d)" % (cap, ["%s(%s)" % x for x in seq], i + 1, alive, cap),
                                    "inputs": {"capacity": cap, "ops": ["%s(%s)" % x for x in seq]}}
                    del lru
    finally:
        shutil.rmtree(tmp, ignore_errors=True)
    return {"reproduced": False, "detail": "%d operation sequences: never more live fetched objects than the bound" % n}

