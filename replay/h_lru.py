"""Replay handlers for dds/_lru_store.py obligations."""
import re


def _int(model, name, default):
    v = model.get(name)
    try:
        return int(v)
    except Exception:
        return default


def coh_after_fetch(model, payload):
    """COH after LRUCacheStore.fetch_blob: the model has a key that the wrapped store does not hold.
    Concretisation: uninterpreted Key!val!0 -> 'k0'; capacity from the model (>= 1)."""
    from dds.store import MemoryStore
    from dds._lru_store import LRUCacheStore

    cap = max(_int(model, "lru._capacity", 1), 1)
    bare = MemoryStore()
    ref = MemoryStore()
    lru = LRUCacheStore(bare, num_elem=cap)
    key = "k0"
    steps = ["fetch_blob(k0)"]
    got = lru.fetch_blob(key)
    exp = ref.fetch_blob(key)
    a, b = lru.has_blob(key), ref.has_blob(key)
    steps.append("has_blob(k0) -> wrapped=%r bare=%r" % (a, b))
    bad = (got != exp) or (a != b)
    return {"reproduced": bool(bad), "detail": "; ".join(steps), "inputs": {"capacity": cap, "key": key, "ops": ["fetch_blob", "has_blob"]}}


def cache_option(model, payload):
    """set_store(cache_objects=...): documented decoding None/False/0 -> no cache, True -> 10, n > 0 -> n, n < 0 -> unbounded"""
    import sys
    import dds
    import dds._api as api
    from dds._lru_store import LRUCacheStore, default_cache_size
    from dds.structures import DDSException

    bad = []
    for opt, want in ((None, None), (False, None), (0, None), (True, default_cache_size), (1, 1), (7, 7), (-1, sys.maxsize // 2), (-5, sys.maxsize // 2)):
        dds.set_store("memory", cache_objects=opt)
        st = api._store()
        got = st._num_elem if isinstance(st, LRUCacheStore) else None
        if got != want:
            bad.append("cache_objects=%r installs capacity %r, documented %r" % (opt, got, want))
    for opt in ("3", 2.5):
        try:
            dds.set_store("memory", cache_objects=opt)
            bad.append("cache_objects=%r accepted" % (opt,))
        except DDSException:
            pass
        except BaseException as e:
            bad.append("cache_objects=%r raised %s" % (opt, type(e).__name__))
    dds.set_store("memory")
    if bad:
        return {"reproduced": True, "detail": "; ".join(bad[:4]), "inputs": {"options": bad}}
    return {"reproduced": False, "detail": "every option value decodes as documented"}
