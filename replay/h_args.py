"""Replay handlers for get_arg_ctx / get_arg_ctx_ast obligations."""
import ast
from collections import OrderedDict


FALSY = [0, False, "", None, 0.0, [], {}]


def falsy_default(model, payload):
    """binding-not-spelling: the model has a parameter with a falsy default that is left unbound"""
    from dds.fun_args import get_arg_ctx

    for d in FALSY:
        def f(a, b=d):
            return a

        try:
            x = get_arg_ctx(f, (1,), {}).named_args
            y = get_arg_ctx(f, (1, d), {}).named_args
            z = get_arg_ctx(f, (1,), {"b": d}).named_args
        except BaseException as e:
            return {"reproduced": True, "detail": "default %r: %s %s" % (d, type(e).__name__, e)}
        if not (x == y == z):
            return {"reproduced": True, "detail": "def f(a, b=%r): f(1) / f(1, %r) / f(1, b=%r) give argument hashes %s / %s / %s" % (d, d, d, x["b"][:8], y["b"][:8], z["b"][:8]), "inputs": {"default": repr(d)}}
    # a keyword argument bound to None must hash None, not the parameter's default
    def g(a, b=3):
        return a

    x = get_arg_ctx(g, (1,), {"b": None}).named_args
    y = get_arg_ctx(g, (1, None), {}).named_args
    z = get_arg_ctx(g, (1,), {}).named_args
    if x != y or x == z:
        return {"reproduced": True, "detail": "def g(a, b=3): g(1, b=None) hashes b as %s, g(1, None) as %s, g(1) as %s" % (x["b"][:8], y["b"][:8], z["b"][:8]), "inputs": {"call": "g(1, b=None)"}}
    return {"reproduced": False, "detail": "all spellings agree for defaults %r" % (FALSY,)}


def static_vs_runtime(model, payload):
    """a literal seen in source must hash like the value passed at run time (also for defaults)"""
    from dds.fun_args import get_arg_ctx, get_arg_ctx_ast

    for d in [None, 0, False, "", 1, "a"]:
        def f(a, b=3):
            return a

        def g(a, b=d):
            return a

        try:
            rt = get_arg_ctx(f, (1, d), {}).named_args
            st = get_arg_ctx_ast(f, [ast.Constant(1), ast.Constant(d)], OrderedDict())
            st_kw = get_arg_ctx_ast(f, [ast.Constant(1)], OrderedDict([("b", ast.Constant(d))]))
            rt_def = get_arg_ctx(g, (1,), {}).named_args
            st_def = get_arg_ctx_ast(g, [ast.Constant(1)], OrderedDict())
        except BaseException as e:
            return {"reproduced": True, "detail": "literal %r: %s %s" % (d, type(e).__name__, e)}
        if not (dict(rt) == dict(st) == dict(st_kw)) or dict(rt_def) != dict(st_def) or dict(rt_def) != dict(rt):
            return {"reproduced": True, "detail": "literal %r: run-time hash %s, static positional %s, static keyword %s, default run-time %s, default static %s" % (d, str(rt["b"])[:8], str(st["b"])[:8], str(st_kw["b"])[:8], str(rt_def["b"])[:8], str(st_def["b"])[:8]), "inputs": {"literal": repr(d)}}
    return {"reproduced": False, "detail": "static and run-time hashes agree"}


def _spelling_sweep(static):
    """every way of spelling the same binding of def f(a, b=<d1>, c=<d2>) (positional prefix, keywords in any order,
    defaulted parameters omitted) must give the same argument hashes -- at run time and for literals seen in source"""
    import itertools
    from dds.fun_args import get_arg_ctx, get_arg_ctx_ast

    def f(a, b=2, c=3):
        return a

    names = ["a", "b", "c"]
    defaults = {"b": 2, "c": 3}
    for binding in itertools.product([1], [2, 5, None], [3, 7, 0]):
        bound = dict(zip(names, binding))
        ref = dict(get_arg_ctx(f, tuple(binding), {}).named_args)
        for npos in range(0, 4):
            rest = names[npos:]
            # parameters that may be omitted: those bound to their default
            omittable = [n for n in rest if n in defaults and bound[n] == defaults[n]]
            for r in range(len(omittable) + 1):
                for omit in itertools.combinations(omittable, r):
                    kw_names = [n for n in rest if n not in omit]
                    for order in itertools.permutations(kw_names):
                        pos = [bound[n] for n in names[:npos]]
                        kw = OrderedDict((n, bound[n]) for n in order)
                        spelled = "f(%s)" % ", ".join([repr(x) for x in pos] + ["%s=%r" % (n, v) for n, v in kw.items()])
                        try:
                            if static:
                                got = dict(get_arg_ctx_ast(f, [ast.Constant(x) for x in pos], OrderedDict((n, ast.Constant(v)) for n, v in kw.items())))
                            else:
                                got = dict(get_arg_ctx(f, tuple(pos), dict(kw)).named_args)
                        except BaseException as e:
                            return {"reproduced": True, "detail": "def f(a, b=2, c=3): %s raised %s %s" % (spelled, type(e).__name__, e), "inputs": {"call": spelled, "static": static}}
                        if got != ref:
                            diff = [n for n in names if got.get(n) != ref.get(n)]
                            return {"reproduced": True, "detail": "def f(a, b=2, c=3): %s %s hashes %s differently from f%r" % ("the literal call" if static else "the call", spelled, diff, tuple(binding)), "inputs": {"call": spelled, "static": static, "differs_on": diff}}
    return None


_falsy_default0, _static_vs_runtime0 = falsy_default, static_vs_runtime


def falsy_default(model, payload):
    r = _falsy_default0(model, payload)
    if r.get("reproduced"):
        return r
    return _spelling_sweep(False) or r


def static_vs_runtime(model, payload):
    r = _static_vs_runtime0(model, payload)
    if r.get("reproduced"):
        return r
    return _spelling_sweep(True) or _spelling_sweep(False) or r


def _literal_expression_sweep():
    """an argument expression seen in source either has no static hash (the key then falls back to the call-site context)
    or is hashed exactly like the value it denotes at run time"""
    from dds.fun_args import get_arg_ctx, get_arg_ctx_ast

    def f(a, b=3):
        return a

    exprs = ["1", "0", "-1", "+1", "~1", "not 1", "not 0", "-1.5", "+1.5", "- 0", "-True", "~True", "not True", "not None", "--1", "-(-1)", "~~1",
             "'a'", "''", "None", "True", "False", "1.0", "b'x'", "(1, 2)", "[1]", "{'k': 1}", "1 + 1", "2 ** 3", "-x", "x", "1 if True else 2"]
    for src in exprs:
        node = ast.parse(src, mode="eval").body
        try:
            value = eval(src, {"x": 7})
        except Exception:
            continue
        for how in ("positional", "keyword"):
            try:
                if how == "positional":
                    st = dict(get_arg_ctx_ast(f, [node], OrderedDict()))["a"]
                else:
                    st = dict(get_arg_ctx_ast(f, [], OrderedDict([("a", node)])))["a"]
            except BaseException as e:
                # a value of an unsupported type is refused with the same coded error at run time: consistent
                try:
                    get_arg_ctx(f, (value,), {})
                    same = False
                except BaseException as e2:
                    same = type(e2) is type(e) and getattr(e2, "error_code", None) == getattr(e, "error_code", None)
                if same:
                    continue
                return {"reproduced": True, "detail": "the %s literal argument `%s` makes get_arg_ctx_ast raise %s: %s" % (how, src, type(e).__name__, str(e)[:120]), "inputs": {"expression": src, "how": how}}
            if st is None:
                continue
            try:
                rt = dict(get_arg_ctx(f, (value,), {}).named_args)["a"]
            except BaseException:
                rt = "<unhashable at run time>"
            if st != rt:
                return {"reproduced": True, "detail": "the %s argument `%s` seen in source is hashed as %s..., the value it denotes (%r) hashes as %s... at run time" % (how, src, str(st)[:8], value, str(rt)[:8]), "inputs": {"expression": src, "how": how, "denotes": repr(value)}}
    return None


_static_vs_runtime1 = static_vs_runtime


def static_vs_runtime(model, payload):
    r = _static_vs_runtime1(model, payload)
    if r.get("reproduced"):
        return r
    return _literal_expression_sweep() or r


def _ctx_key_sweep():
    """FunctionArgContext.as_hashable: equal contexts give equal keys, different contexts different keys (the key of the
    per-evaluation analysis cache); relevant_keys: all entries when every hash is known, else the context alone"""
    import itertools
    from dds.structures import FunctionArgContext

    hashes = [None, "h1", "h2"]
    ctxs = []
    for names in (("a",), ("a", "b"), ("b", "a")):
        for hs in itertools.product(hashes, repeat=len(names)):
            for ick in (None, "c1", "c2"):
                ctxs.append(FunctionArgContext(OrderedDict(zip(names, hs)), ick))
    keys = []
    for c in ctxs:
        k1, k2 = FunctionArgContext.as_hashable(c), FunctionArgContext.as_hashable(FunctionArgContext(OrderedDict(c.named_args), c.inner_call_key))
        try:
            hash(k1)
        except TypeError:
            return {"reproduced": True, "detail": "as_hashable(%r) is not hashable" % (c,), "inputs": {"context": repr(c)}}
        if k1 != k2:
            return {"reproduced": True, "detail": "as_hashable gives two keys for equal contexts %r" % (c,), "inputs": {"context": repr(c)}}
        keys.append(k1)
        rk = FunctionArgContext.relevant_keys(c)
        items = list(c.named_args.items())
        want = items if all(h is not None for _, h in items) else ([] if c.inner_call_key is None else [("__context__", c.inner_call_key)])
        if list(rk) != want:
            return {"reproduced": True, "detail": "relevant_keys(%r) -> %r, expected %r" % (c, rk, want), "inputs": {"context": repr(c)}}
    for (i, a), (j, b) in itertools.combinations(enumerate(ctxs), 2):
        same = list(a.named_args.items()) == list(b.named_args.items()) and a.inner_call_key == b.inner_call_key
        if (keys[i] == keys[j]) != same:
            return {"reproduced": True, "detail": "as_hashable: contexts %r and %r %s" % (a, b, "share one key" if not same else "get different keys"), "inputs": {"a": repr(a), "b": repr(b)}}
    return None


_static_vs_runtime2 = static_vs_runtime


def static_vs_runtime(model, payload):
    r = _static_vs_runtime2(model, payload)
    if r.get("reproduced"):
        return r
    return _ctx_key_sweep() or r


def _distinct_bindings_sweep():
    """bindings that differ at a parameter by values the value hash separates (an int and the equal float, signed zeros,
    a number and its text) get different entries -- whatever was hashed earlier in the process"""
    from dds.fun_args import get_arg_ctx, get_arg_ctx_ast

    def f(a, b=0.0):
        return a

    pairs = [(2, 2.0), (2.0, 2), (0, 0.0), (0.0, -0.0), (-0.0, 0.0), (7, "7"), (1.0, True), (10 ** 20, 1e20), ("", None)]
    for x, y in pairs:
        hx = dict(get_arg_ctx(f, (x,), {}).named_args)["a"]
        hy = dict(get_arg_ctx(f, (y,), {}).named_args)["a"]
        if hx == hy:
            return {"reproduced": True, "detail": "def f(a, b=0.0): f(%r) and f(%r) get the same argument hash" % (x, y), "inputs": {"first": repr(x), "second": repr(y)}}
        sx = dict(get_arg_ctx_ast(f, [ast.Constant(x)], OrderedDict()))["a"]
        sy = dict(get_arg_ctx_ast(f, [ast.Constant(y)], OrderedDict()))["a"]
        if sx != hx or sy != hy:
            return {"reproduced": True, "detail": "literal %r / %r: static hash differs from the run-time hash" % (x, y), "inputs": {"first": repr(x), "second": repr(y)}}
    # the default 0.0 is not the int 0
    d0 = dict(get_arg_ctx(f, (1,), {}).named_args)["b"]
    i0 = dict(get_arg_ctx(f, (1, 0), {}).named_args)["b"]
    if d0 == i0:
        return {"reproduced": True, "detail": "def f(a, b=0.0): f(1) and f(1, 0) get the same hash for b", "inputs": {"call": "f(1) vs f(1, 0)"}}
    return None


_falsy_default1 = falsy_default


def falsy_default(model, payload):
    r = _falsy_default1(model, payload)
    if r.get("reproduced"):
        return r
    return _distinct_bindings_sweep() or r


def call_site_histories(model, payload):
    """Keep calls written in source, analysed one after the other in ONE process: the signature of each call site is that
    of its own binding -- the one a fresh process computes for it -- whatever call sites were analysed before
    (def f(a, b=0, c="z"): sites f(1) / f(1, b=0) / f(1, 0) share a binding, f(1, b=5), f(1, c="y"), f(1, 5, "y") do not),
    in every order of analysis of 3 of the 7 sites."""
    import itertools
    import json
    import subprocess
    import sys
    import tempfile
    import shutil

    sites = [("s_default", "f, 1"), ("s_kw_default", "f, 1, b=0"), ("s_pos_default", "f, 1, 0"), ("s_kw5", "f, 1, b=5"), ("s_c", 'f, 1, c="y"'), ("s_pos_all", 'f, 1, 5, "y"'), ("s_kw_all", 'f, 1, c="y", b=5')]
    binding = {"s_default": (1, 0, "z"), "s_kw_default": (1, 0, "z"), "s_pos_default": (1, 0, "z"), "s_kw5": (1, 5, "z"), "s_c": (1, 0, "y"), "s_pos_all": (1, 5, "y"), "s_kw_all": (1, 5, "y")}
    mod = ["import dds", "", "def f(a, b=0, c=\"z\"):", "    return [\"f\", a, b, c]", ""]
    for n, a in sites:
        mod += ["def %s():" % n, "    return dds.keep(\"/h/%s\", %s)" % (n, a), ""]
    runner = r"""
import sys, json
sys.path.insert(0, sys.argv[1])
import dds, dds._api as api
import hsites
dds.accept_module(hsites)
dds.set_store("memory")
out = {}
for order in json.loads(sys.argv[2]):
    dds.set_store("memory")
    res = []
    for n in order:
        v = dds.eval(getattr(hsites, n))
        res.append((n, api._store().fetch_paths(["/h/" + n])["/h/" + n], v))
    out[",".join(order)] = res
print(json.dumps(out))
"""
    tmp = tempfile.mkdtemp(prefix="dds_h_args_sites_")
    try:
        open(tmp + "/hsites.py", "w").write("\n".join(mod))
        open(tmp + "/runner.py", "w").write(runner)

        def go(orders):
            p = subprocess.run([sys.executable, tmp + "/runner.py", tmp, json.dumps(orders)], capture_output=True, text=True, timeout=600)
            lines = [l for l in p.stdout.split("\n") if l.startswith("{")]
            if not lines:
                raise RuntimeError("call-site history runner failed: " + p.stderr[-400:])
            return json.loads(lines[-1])

        names = [n for n, _ in sites]
        fresh = {}
        for n in names:  # one fresh process per site
            r = go([[n]])[n][0]
            fresh[n] = (r[1], r[2])
        for a, b in itertools.combinations(names, 2):
            if (fresh[a][0] == fresh[b][0]) != (binding[a] == binding[b]):
                return {"reproduced": True, "detail": "fresh processes: call sites %s and %s get %s signatures although their bindings are %s" % (a, b, "equal" if fresh[a][0] == fresh[b][0] else "different", "equal" if binding[a] == binding[b] else "different"), "inputs": {"sites": [a, b]}}
        orders = [list(o) for o in itertools.permutations(names, 3)]
        # 35 processes of 6 orders each (a new memory store per order; the process-wide state of dds is what is shared)
        n_checked = 0
        from concurrent.futures import ThreadPoolExecutor

        groups = [orders[i:i + 6] for i in range(0, len(orders), 6)]
        with ThreadPoolExecutor(max_workers=8) as ex:
            outs = list(ex.map(go, groups))
        for grp, out in zip(groups, outs):
            for o in grp:
                res = out[",".join(o)]
                for n, sig, v in res:
                    n_checked += 1
                    if sig != fresh[n][0] or v != ["f"] + list(binding[n]):
                        return {"reproduced": True, "detail": "call sites analysed in the order %s in one process (after the orders before it in its group): %s (dds.keep('/h/%s', %s)) gets signature %s.. and value %r; a fresh process gives %s.. and f%r returns %r" % (o, n, n, dict(sites)[n], sig[:8], v, fresh[n][0][:8], binding[n], ["f"] + list(binding[n])), "inputs": {"order": o, "site": n}}
        return {"reproduced": False, "detail": "%d (order, site) pairs: every call site gets the signature and value of its own binding" % n_checked}
    finally:
        shutil.rmtree(tmp, ignore_errors=True)


def unreadable_signature(model, payload):
    """callables whose signature inspect cannot read (classes whose constructor is a builtin's): the argument context is
    empty, and a tracked function that instantiates / raises them evaluates to what plain execution gives"""
    import importlib
    import os
    import shutil
    import sys
    import tempfile
    from dds.fun_args import get_arg_ctx_ast

    class Bag(dict):
        pass

    class PipeError(ValueError):
        pass

    for c in (Bag, PipeError):
        try:
            got = dict(get_arg_ctx_ast(c, [], OrderedDict()))
        except BaseException as e:
            return {"reproduced": True, "detail": "get_arg_ctx_ast(<class %s(%s)>, [], {}) raised %s: %s" % (c.__name__, c.__bases__[0].__name__, type(e).__name__, str(e)[:80]), "inputs": {"callable": "class %s(%s)" % (c.__name__, c.__bases__[0].__name__)}}
        if got != {}:
            return {"reproduced": True, "detail": "get_arg_ctx_ast of a class without readable signature returned %r" % (got,), "inputs": {"callable": c.__name__}}
    import dds

    d = tempfile.mkdtemp(prefix="dds_h_args_sig_")
    sys.path.insert(0, d)
    try:
        open(os.path.join(d, "usig_mod.py"), "w").write("class Bag(dict):\n    def total(self):\n        return sum(self.values())\n\nclass PipeError(ValueError):\n    pass\n\ndef use_bag():\n    b = Bag()\n    b['a'] = 2\n    return b.total()\n\ndef use_error():\n    try:\n        raise PipeError('x')\n    except PipeError as e:\n        return 'caught %s' % e\n")
        m = importlib.import_module("usig_mod")
        dds.accept_module(m)
        dds.set_store("memory")
        for fn in (m.use_bag, m.use_error):
            try:
                got = dds.eval(fn)
            except BaseException as e:
                got = "<%s: %s>" % (type(e).__name__, str(e)[:80])
            if got != fn():
                return {"reproduced": True, "detail": "dds.eval(%s) -> %r, plain execution gives %r (the function uses a class derived from a builtin type)" % (fn.__name__, got, fn()), "inputs": {"function": fn.__name__}}
    finally:
        dds.set_store("memory")
        sys.path.remove(d)
        sys.modules.pop("usig_mod", None)
        shutil.rmtree(d, ignore_errors=True)
    return {"reproduced": False, "detail": "classes derived from dict / ValueError: empty argument context, evaluation equals plain execution"}


def binding_signatures_end_to_end(model, payload):
    """The signature under which dds.keep(path, f, ...) stores a call is injective on the bindings of f -- also when several
    parameters are bound to the same value: def f(a, b, c=0, d=0) over all bindings with values in {0, 1, 2} for (a, b, c) and
    {0, 2} for d (54 bindings, 1431 pairs), each kept directly with run-time values and as literals in the source of an
    evaluated function (a subset of 12)."""
    import importlib
    import itertools
    import os
    import shutil
    import sys
    import tempfile
    import dds
    import dds._api as api

    d = tempfile.mkdtemp(prefix="dds_h_args_e2e_")
    sys.path.insert(0, d)
    try:
        bindings = [(a, b, c, dd) for a, b, c in itertools.product((0, 1, 2), repeat=3) for dd in (0, 2)]
        lit = [b_ for b_ in bindings if b_[0] == 1 and b_[3] == 2] + [(1, 2, 1, 0), (1, 2, 2, 0), (2, 2, 2, 0)]
        src = ["import dds", "", "def f(a, b, c=0, d=0):", "    return [a, b, c, d]", ""]
        for i, b_ in enumerate(lit):
            src += ["def site_%d():" % i, "    return dds.keep('/e2e/lit_%d', f, %d, %d, c=%d, d=%d)" % ((i,) + b_), ""]
        open(os.path.join(d, "e2e_mod.py"), "w").write("\n".join(src))
        m = importlib.import_module("e2e_mod")
        dds.accept_module(m)
        dds.set_store("memory")
        sigs = {}
        for b_ in bindings:
            p = "/e2e/rt_%d_%d_%d_%d" % b_
            v = dds.keep(p, m.f, b_[0], b_[1], c=b_[2], d=b_[3])
            if v != list(b_):
                return {"reproduced": True, "detail": "dds.keep(%r, f, %d, %d, c=%d, d=%d) returned %r (a result stored for another binding)" % ((p,) + b_ + (v,)), "inputs": {"binding": list(b_)}}
            sigs[("run-time", b_)] = api._store().fetch_paths([p])[p]
        for i, b_ in enumerate(lit):
            v = dds.eval(getattr(m, "site_%d" % i))
            if v != list(b_):
                return {"reproduced": True, "detail": "the literal call dds.keep('/e2e/lit_%d', f, %d, %d, c=%d, d=%d) returned %r (a result stored for another binding)" % ((i,) + b_ + (v,)), "inputs": {"binding": list(b_)}}
            sigs[("literal", b_)] = api._store().fetch_paths(["/e2e/lit_%d" % i])["/e2e/lit_%d" % i]
        for (k1, s1), (k2, s2) in itertools.combinations(sorted(sigs.items()), 2):
            if (k1[1] == k2[1]) != (s1 == s2):
                return {"reproduced": True, "detail": "def f(a, b, c=0, d=0): the %s call f%r and the %s call f%r get %s signatures" % (k1[0], k1[1], k2[0], k2[1], "the same" if s1 == s2 else "different"), "inputs": {"first": list(k1[1]), "second": list(k2[1])}}
        return {"reproduced": False, "detail": "%d calls: one signature per binding, the stored value is that of the binding" % len(sigs)}
    finally:
        dds.set_store("memory")
        sys.path.remove(d)
        sys.modules.pop("e2e_mod", None)
        shutil.rmtree(d, ignore_errors=True)

