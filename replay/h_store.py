"""Replay handlers for LocalFileStore location lemmas and constructor obligations."""
import itertools
import os
import re
import shutil
import tempfile


def _strs(model, prefix):
    out = {}
    for k, v in model.items():
        m = re.fullmatch(prefix + r"(\d+)", k)
        if m:
            out[int(m.group(1))] = v.strip('"')
    return [out[i] for i in sorted(out)]


def _mk():
    from dds.store import LocalFileStore

    d = tempfile.mkdtemp(prefix="dds_replay_store_")
    return d, LocalFileStore(os.path.join(d, "internal"), os.path.join(d, "data"))


def loc_inj(model, payload):
    """two paths with different segment lists that the model maps to one location: commit both, read the first back"""
    from collections import OrderedDict

    a, b = _strs(model, "a"), _strs(model, "b")
    cands = []
    for n, m in itertools.product(range(1, len(a) + 1), range(1, len(b) + 1)):
        sa, sb = a[:n], b[:m]
        if sa != sb and "".join(sa[:-1]) == "".join(sb[:-1]) and sa[-1] == sb[-1] and all(x and "/" not in x for x in sa + sb):
            cands.append((sa, sb))
    cands.append((["a", "b", "c"], ["ab", "c"]))
    for sa, sb in cands:
        d, st = _mk()
        try:
            pa, pb = "/" + "/".join(sa), "/" + "/".join(sb)
            st.store_blob("k1", "v1")
            st.store_blob("k2", "v2")
            st.sync_paths(OrderedDict([(pa, "k1")]))
            st.sync_paths(OrderedDict([(pb, "k2")]))
            got = st.fetch_paths([pa])[pa]
            if got != "k1":
                return {"reproduced": True, "detail": "commit %s -> k1, then %s -> k2: %s now resolves to %s (both use %s)" % (pa, pb, pa, got, os.path.join("data", "".join(sa[:-1]), sa[-1])), "inputs": {"paths": [pa, pb]}}
        finally:
            shutil.rmtree(d, ignore_errors=True)
    return {"reproduced": False, "detail": "no aliasing for %r" % (cands,)}


def loc_inside(model, payload):
    from collections import OrderedDict

    for segs in ([".."] + ["esc"], ["..", "..", "esc2"]):
        d, st = _mk()
        try:
            p = "/" + "/".join(segs)
            st.store_blob("k1", "v1")
            try:
                st.sync_paths(OrderedDict([(p, "k1")]))
            except BaseException as e:
                return {"reproduced": True, "detail": "commit of %s raised %s: %s" % (p, type(e).__name__, e), "inputs": {"path": p}}
            data = os.path.realpath(os.path.join(d, "data"))
            outside = []
            for root, dirs, files in os.walk(d):
                for f in files + dirs:
                    full = os.path.join(root, f)
                    if os.path.islink(full) and not os.path.abspath(full).startswith(data + os.sep):
                        outside.append(os.path.relpath(full, d))
            if outside:
                return {"reproduced": True, "detail": "commit of %s created %s outside the data directory" % (p, outside), "inputs": {"path": p}}
        finally:
            shutil.rmtree(d, ignore_errors=True)
    return {"reproduced": False, "detail": "links stay inside the data directory"}


def relative_internal_dir(model, payload):
    """LINK-RESOLVES: a store configured with a relative internal directory must still round-trip keep -> load"""
    from collections import OrderedDict
    from dds.store import LocalFileStore

    d = tempfile.mkdtemp(prefix="dds_replay_store_")
    cwd = os.getcwd()
    try:
        os.chdir(d)
        st = LocalFileStore("internal", "data")
        st.store_blob("k1", "v1")
        st.sync_paths(OrderedDict([("/p", "k1")]))
        try:
            got = st.fetch_paths(["/p"])
        except BaseException as e:
            return {"reproduced": True, "detail": "LocalFileStore('internal', 'data') (relative): committed /p, fetch_paths raised %s: %s; link target is %r" % (type(e).__name__, e, os.readlink(os.path.join("data", "p"))), "inputs": {"internal_dir": "internal", "data_dir": "data"}}
        if got.get("/p") != "k1":
            return {"reproduced": True, "detail": "fetch_paths -> %r" % (got,)}
        return {"reproduced": False, "detail": "relative configuration round-trips"}
    finally:
        os.chdir(cwd)
        shutil.rmtree(d, ignore_errors=True)


def store_ops(model, payload):
    """LocalFileStore blob operations from every state an earlier (possibly interrupted) run can leave behind:
    leftovers <key>.tmp / <key>.meta.tmp / <key>.meta / a complete earlier blob of another type, then
    store_blob(key, v): afterwards has_blob(key), fetch_blob(key) == v (decoded with the codec that wrote it),
    the metadata names that codec, no other key is affected; has_blob / fetch_blob change nothing."""
    import json

    values = [("text", "héllo\nworld"), ("bytes", b"\x00\xffraw"), ("object", {"a": [1, 2]}), ("empty_text", ""), ("empty_bytes", b"")]
    leftovers = ["tmp", "meta_tmp", "meta_of_text", "meta_of_bytes", "complete_text", "complete_bytes", "complete_object"]
    for r in range(0, 3):
        for combo in itertools.combinations(leftovers, r):
            for vname, v in values:
                d, st = _mk()
                try:
                    blobs = os.path.join(d, "internal", "blobs")
                    st.store_blob("other", "untouched", None)
                    for lo in combo:
                        if lo == "tmp":
                            open(os.path.join(blobs, "k.tmp"), "wb").write(b"partial")
                        elif lo == "meta_tmp":
                            open(os.path.join(blobs, "k.meta.tmp"), "wb").write(b"{")
                        elif lo.startswith("meta_of_"):
                            donor = "donor_" + lo
                            st.store_blob(donor, dict(values)[lo[len("meta_of_"):]], None)
                            shutil.copy(os.path.join(blobs, donor + ".meta"), os.path.join(blobs, "k.meta"))
                        elif lo.startswith("complete_"):
                            st.store_blob("k", dict(values)[lo[len("complete_"):]], None)
                    # presence is the blob file itself (the last thing store_blob makes visible), whatever else is there
                    complete = any(lo.startswith("complete_") for lo in combo)
                    if st.has_blob("k") != complete:
                        return {"reproduced": True, "detail": "leftovers %s (no complete blob for 'k'): has_blob('k') -> %r" % (list(combo), st.has_blob("k")), "inputs": {"leftovers": list(combo)}}
                    if not complete and st.fetch_blob("k") is not None:
                        return {"reproduced": True, "detail": "leftovers %s (no complete blob for 'k'): fetch_blob('k') -> %r" % (list(combo), st.fetch_blob("k")), "inputs": {"leftovers": list(combo)}}
                    tag = "leftovers %s, then store_blob('k', <%s>)" % (list(combo), vname)
                    try:
                        st.store_blob("k", v, None)
                    except BaseException as e:
                        return {"reproduced": True, "detail": "%s raised %s: %s" % (tag, type(e).__name__, e), "inputs": {"leftovers": list(combo), "value": vname}}
                    if not st.has_blob("k"):
                        return {"reproduced": True, "detail": "%s: has_blob('k') is False afterwards" % tag, "inputs": {"leftovers": list(combo), "value": vname}}
                    try:
                        got = st.fetch_blob("k")
                    except BaseException as e:
                        got = "<%s: %s>" % (type(e).__name__, str(e)[:60])
                    if got != v:
                        return {"reproduced": True, "detail": "%s: fetch_blob('k') -> %r" % (tag, got), "inputs": {"leftovers": list(combo), "value": vname}}
                    meta = json.load(open(os.path.join(blobs, "k.meta")))
                    want = {"text": "local.string", "bytes": "local.bytes", "object": "local.pickle", "empty_text": "local.string", "empty_bytes": "local.bytes"}[vname]
                    if not str(meta.get("protocol", "")).endswith(want.split(".")[1]):
                        return {"reproduced": True, "detail": "%s: metadata names %r, the value was written by the %s codec" % (tag, meta.get("protocol"), want), "inputs": {"leftovers": list(combo), "value": vname}}
                    if st.fetch_blob("other") != "untouched":
                        return {"reproduced": True, "detail": "%s: another key was affected" % tag, "inputs": {"leftovers": list(combo), "value": vname}}
                    # a second store object (another process) sees the same
                    from dds.store import LocalFileStore

                    if LocalFileStore(os.path.join(d, "internal"), os.path.join(d, "data")).fetch_blob("k") != v:
                        return {"reproduced": True, "detail": "%s: another store object reads a different value" % tag, "inputs": {"leftovers": list(combo), "value": vname}}
                finally:
                    shutil.rmtree(d, ignore_errors=True)
    return {"reproduced": False, "detail": "store_blob / has_blob / fetch_blob behave as specified from all %d leftover states x 5 value types (incl. empty text and empty bytes)" % sum(1 for r in range(3) for _ in itertools.combinations(leftovers, r))}


def memory_ops(model, payload):
    """MemoryStore against a dict model: every sequence of <= 4 operations {store, has, fetch} over keys whose values are
    a string, None, the empty string and 0 (falsy values are values: once stored, the key is present)."""
    from dds.store import MemoryStore

    vals = {"k_str": "v", "k_none": None, "k_empty": "", "k_zero": 0}
    ops = [(o, k) for o in ("store", "has", "fetch") for k in vals]
    n = 0
    for L in range(1, 5):
        for seq in itertools.product(ops, repeat=L):
            if L > 2 and len({k for _, k in seq}) > 2:
                continue
            n += 1
            st, ref = MemoryStore(), {}
            for i, (o, k) in enumerate(seq):
                if o == "store":
                    st.store_blob(k, vals[k], None)
                    ref[k] = vals[k]
                    continue
                got = st.has_blob(k) if o == "has" else st.fetch_blob(k)
                want = (k in ref) if o == "has" else ref.get(k)
                if got != want or type(got) is not type(want):
                    return {"reproduced": True, "detail": "MemoryStore, operations %s: step %d %s(%s) -> %r, a store that holds exactly what was stored answers %r" % (["%s(%s)" % x for x in seq], i + 1, o, k, got, want),
                            "inputs": {"ops": ["%s(%s)" % x for x in seq]}}
    return {"reproduced": False, "detail": "%d operation sequences over string / None / empty / zero values answer like the dict model" % n}


def reads_leave_no_trace(model, payload):
    """The read operations of the local store (has_blob, fetch_blob, fetch_paths -- what a stage-restricted evaluation
    calls) change nothing on disk and answer from the committed state only, from every state an interrupted run can leave
    behind: a temporary link <path>.tmp_link to another blob, temporary blob / meta files, a meta file without blob.
    Bare store and cache-wrapped store; then the same through dds.eval(..., dds_stages=[analysis ...]) of a function that
    loads a committed path."""
    import importlib
    import sys
    from collections import OrderedDict
    from dds.store import LocalFileStore
    from dds._lru_store import LRUCacheStore

    def snapshot(d):
        out = {}
        for root, dirs, files in os.walk(d):
            for n in dirs + files:
                full = os.path.join(root, n)
                rel = os.path.relpath(full, d)
                if os.path.islink(full):
                    out[rel] = ("link", os.readlink(full))
                elif os.path.isdir(full):
                    out[rel] = ("dir",)
                else:
                    out[rel] = ("file", open(full, "rb").read())
        return out

    def diff(a, b):
        return sorted(k for k in set(a) | set(b) if a.get(k) != b.get(k))

    leftovers_all = ["tmp_link_of_committed_path", "tmp_link_of_new_path", "tmp_blob", "tmp_meta", "meta_without_blob"]
    for r in range(0, 3):
        for combo in itertools.combinations(leftovers_all, r):
            for wrapped in (False, True):
                d = tempfile.mkdtemp(prefix="dds_replay_reads_")
                try:
                    inner = LocalFileStore(os.path.join(d, "internal"), os.path.join(d, "data"))
                    inner.store_blob("k1", "v1", None)
                    inner.store_blob("k2", "v2", None)
                    inner.sync_paths(OrderedDict([("/p", "k1"), ("/dir/q", "k1")]))
                    blobs = os.path.join(d, "internal", "blobs")
                    data = os.path.join(d, "data")
                    for lo in combo:
                        if lo == "tmp_link_of_committed_path":
                            os.symlink(os.path.join(blobs, "k2"), os.path.join(data, "p.tmp_link"))
                        elif lo == "tmp_link_of_new_path":
                            os.symlink(os.path.join(blobs, "k2"), os.path.join(data, "dir", "fresh.tmp_link"))
                        elif lo == "tmp_blob":
                            open(os.path.join(blobs, "k3.tmp"), "wb").write(b"partial")
                        elif lo == "tmp_meta":
                            open(os.path.join(blobs, "k3.meta.tmp"), "wb").write(b"{")
                        else:
                            shutil.copy(os.path.join(blobs, "k1.meta"), os.path.join(blobs, "k3.meta"))
                    st = LRUCacheStore(inner, 2) if wrapped else inner
                    who = "cache-wrapped local store" if wrapped else "local store"
                    before = snapshot(d)
                    ops = [("has_blob('k1')", lambda: st.has_blob("k1"), True), ("has_blob('k3')", lambda: st.has_blob("k3"), False), ("fetch_blob('k1')", lambda: st.fetch_blob("k1"), "v1"),
                           ("fetch_blob('k3')", lambda: st.fetch_blob("k3"), None), ("fetch_paths(['/p'])", lambda: dict(st.fetch_paths(["/p"])), {"/p": "k1"}),
                           ("fetch_paths(['/p', '/dir/q'])", lambda: dict(st.fetch_paths(["/p", "/dir/q"])), {"/p": "k1", "/dir/q": "k1"}),
                           ("fetch_paths(['/dir/fresh'])", lambda: dict(st.fetch_paths(["/dir/fresh"])), "DDSException"), ("fetch_paths(['/none/at/all'])", lambda: dict(st.fetch_paths(["/none/at/all"])), "DDSException")]
                    for name, op, want in ops:
                        try:
                            got = op()
                        except BaseException as e:
                            got = type(e).__name__
                        after = snapshot(d)
                        if after != before:
                            return {"reproduced": True, "detail": "%s with leftovers %s: %s changed the store on disk: %s" % (who, list(combo), name, diff(before, after)[:4]), "inputs": {"leftovers": list(combo), "operation": name, "wrapped": wrapped}}
                        if got != want:
                            return {"reproduced": True, "detail": "%s with leftovers %s: %s -> %r, the committed state says %r" % (who, list(combo), name, got, want), "inputs": {"leftovers": list(combo), "operation": name, "wrapped": wrapped}}
                    # the same through a stage-restricted evaluation
                    import dds
                    import dds._api as api

                    md = os.path.join(d, "mod")
                    os.makedirs(md)
                    mname = "dry_reader_%d" % (abs(hash((combo, wrapped))) % 10 ** 8)
                    open(os.path.join(md, mname + ".py"), "w").write("import dds\nCALLS = []\n\ndef reader():\n    CALLS.append(1)\n    return 'seen:' + dds.load('/p')\n")
                    sys.path.insert(0, md)
                    try:
                        m = importlib.import_module(mname)
                        dds.accept_module(m)
                        old_store = api._store_var
                        api._store_var = st
                        before = snapshot(d)
                        for stages in (["analysis"], ["analysis", "store_inspect"]):
                            try:
                                res = dds.eval(m.reader, dds_stages=stages)
                                err = None
                            except BaseException as e:
                                res, err = None, "%s: %s" % (type(e).__name__, str(e)[:100])
                            after = snapshot(d)
                            if err or res is not None or m.CALLS or after != before:
                                return {"reproduced": True, "detail": "%s with leftovers %s: dds.eval(reader, dds_stages=%s) -> %r / %s, user calls %d, changed on disk: %s" % (who, list(combo), stages, res, err, len(m.CALLS), diff(before, after)[:4]),
                                        "inputs": {"leftovers": list(combo), "stages": stages, "wrapped": wrapped}}
                        if dds.eval(m.reader) != "seen:v1":
                            return {"reproduced": True, "detail": "%s with leftovers %s: after the dry runs a full evaluation of the reader of /p does not see the committed value v1" % (who, list(combo)), "inputs": {"leftovers": list(combo)}}
                    finally:
                        api._store_var = old_store
                        sys.path.remove(md)
                        sys.modules.pop(mname, None)
                finally:
                    shutil.rmtree(d, ignore_errors=True)
    return {"reproduced": False, "detail": "read operations and stage-restricted evaluations leave all 16 leftover states x {bare, cache-wrapped} byte-identical on disk and answer from the committed state"}


def restricted_then_full(model, payload):
    """A stage-restricted run changes nothing that a later full evaluation returns or commits: for kept values whose stored
    form is delicate (text with CR LF / lone CR / NUL, empty text, bytes, None, a nested object) and every stage prefix,
    `dds.eval(..., dds_stages=prefix)` followed by a full evaluation gives exactly what a full evaluation alone gives (value
    and type), on the local store, the cache-wrapped local store and the memory store; so does a second full evaluation."""
    import importlib
    import shutil
    import sys
    import tempfile
    import dds

    d = tempfile.mkdtemp(prefix="dds_h_store_rtf_")
    sys.path.insert(0, d)
    n = 0
    try:
        # (the values live outside the module: a module-level list holding bytes would itself be a tracked variable)
        sys._dds_rtf_values = ["id,name\r\n1,ada\r\n", "x\ry", "nul\x00end", "", b"\r\n\x00", None, {"k": ["a\r\n", 1]}]
        open(os.path.join(d, "rtf_mod.py"), "w").write("import sys\nimport dds\nWHICH = 0\ndef leaf():\n    return sys._dds_rtf_values[WHICH]\ndef top():\n    return dds.keep('/rtf/leaf', leaf)\n")
        m = importlib.import_module("rtf_mod")
        dds.accept_module(m)
        prefixes = [["analysis"], ["analysis", "store_inspect"], ["analysis", "store_inspect", "eval"], ["analysis", "store_inspect", "eval", "store_commit"]]
        for kind in ("local", "local+cache", "memory"):
            for which in range(7):
                for prefix in prefixes + [None]:
                    n += 1
                    m.WHICH = which
                    sd = os.path.join(d, "st_%d" % n)
                    if kind == "memory":
                        dds.set_store("memory")
                    else:
                        dds.set_store("local", internal_dir=os.path.join(sd, "i"), data_dir=os.path.join(sd, "d"), cache_objects=2 if kind == "local+cache" else None)
                    want = m.leaf()
                    try:
                        if prefix is not None:
                            dds.eval(m.top, dds_stages=prefix)
                        got = [dds.eval(m.top), dds.eval(m.top), dds.load("/rtf/leaf")]
                    except BaseException as e:
                        got = ["<%s: %s>" % (type(e).__name__, str(e)[:80])]
                    bad = [g for g in got if g != want or type(g) is not type(want)]
                    if bad:
                        return {"reproduced": True, "detail": "[%s store] kept value %r: %s a full evaluation / a second one / dds.load give %r, plain execution gives %r" % (kind, want, ("after dds.eval(top, dds_stages=%s)" % prefix) if prefix else "without any restricted run", got, want),
                                "inputs": {"store": kind, "value": repr(want), "stages": prefix}}
                    shutil.rmtree(sd, ignore_errors=True)
        return {"reproduced": False, "detail": "%d (store, value, stage prefix) cases: the full evaluation returns the value of plain execution" % n}
    finally:
        dds.set_store("memory")
        sys.path.remove(d)
        sys.modules.pop("rtf_mod", None)
        shutil.rmtree(d, ignore_errors=True)

