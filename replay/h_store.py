"""Replay handlers for LocalFileStore location lemmas and constructor obligations."""
import itertools
import os
import re
import shutil
import tempfile


def _strs(model, prefix):
    out = {}
    for k, v in model.items():
        m = re.fullmatch(prefix + r"(\d+)", k)
        if m:
            out[int(m.group(1))] = v.strip('"')
    return [out[i] for i in sorted(out)]


def _mk():
    from dds.store import LocalFileStore

    d = tempfile.mkdtemp(prefix="dds_replay_store_")
    return d, LocalFileStore(os.path.join(d, "internal"), os.path.join(d, "data"))


def loc_inj(model, payload):
    """two paths with different segment lists that the model maps to one location: commit both, read the first back"""
    from collections import OrderedDict

    a, b = _strs(model, "a"), _strs(model, "b")
    cands = []
    for n, m in itertools.product(range(1, len(a) + 1), range(1, len(b) + 1)):
        sa, sb = a[:n], b[:m]
        if sa != sb and "".join(sa[:-1]) == "".join(sb[:-1]) and sa[-1] == sb[-1] and all(x and "/" not in x for x in sa + sb):
            cands.append((sa, sb))
    cands.append((["a", "b", "c"], ["ab", "c"]))
    for sa, sb in cands:
        d, st = _mk()
        try:
            pa, pb = "/" + "/".join(sa), "/" + "/".join(sb)
            st.store_blob("k1", "v1")
            st.store_blob("k2", "v2")
            st.sync_paths(OrderedDict([(pa, "k1")]))
            st.sync_paths(OrderedDict([(pb, "k2")]))
            got = st.fetch_paths([pa])[pa]
            if got != "k1":
                return {"reproduced": True, "detail": "commit %s -> k1, then %s -> k2: %s now resolves to %s (both use %s)" % (pa, pb, pa, got, os.path.join("data", "".join(sa[:-1]), sa[-1])), "inputs": {"paths": [pa, pb]}}
        finally:
            shutil.rmtree(d, ignore_errors=True)
    return {"reproduced": False, "detail": "no aliasing for %r" % (cands,)}


def loc_inside(model, payload):
    from collections import OrderedDict

    for segs in ([".."] + ["esc"], ["..", "..", "esc2"]):
        d, st = _mk()
        try:
            p = "/" + "/".join(segs)
            st.store_blob("k1", "v1")
            try:
                st.sync_paths(OrderedDict([(p, "k1")]))
            except BaseException as e:
                return {"reproduced": True, "detail": "commit of %s raised %s: %s" % (p, type(e).__name__, e), "inputs": {"path": p}}
            data = os.path.realpath(os.path.join(d, "data"))
            outside = []
            for root, dirs, files in os.walk(d):
                for f in files + dirs:
                    full = os.path.join(root, f)
                    if os.path.islink(full) and not os.path.abspath(full).startswith(data + os.sep):
                        outside.append(os.path.relpath(full, d))
            if outside:
                return {"reproduced": True, "detail": "commit of %s created %s outside the data directory" % (p, outside), "inputs": {"path": p}}
        finally:
            shutil.rmtree(d, ignore_errors=True)
    return {"reproduced": False, "detail": "links stay inside the data directory"}


def relative_internal_dir(model, payload):
    """LINK-RESOLVES: a store configured with a relative internal directory must still round-trip keep -> load"""
    from collections import OrderedDict
    from dds.store import LocalFileStore

    d = tempfile.mkdtemp(prefix="dds_replay_store_")
    cwd = os.getcwd()
    try:
        os.chdir(d)
        st = LocalFileStore("internal", "data")
        st.store_blob("k1", "v1")
        st.sync_paths(OrderedDict([("/p", "k1")]))
        try:
            got = st.fetch_paths(["/p"])
        except BaseException as e:
            return {"reproduced": True, "detail": "LocalFileStore('internal', 'data') (relative): committed /p, fetch_paths raised %s: %s; link target is %r" % (type(e).__name__, e, os.readlink(os.path.join("data", "p"))), "inputs": {"internal_dir": "internal", "data_dir": "data"}}
        if got.get("/p") != "k1":
            return {"reproduced": True, "detail": "fetch_paths -> %r" % (got,)}
        return {"reproduced": False, "detail": "relative configuration round-trips"}
    finally:
        os.chdir(cwd)
        shutil.rmtree(d, ignore_errors=True)


def store_ops(model, payload):
    """LocalFileStore blob operations from every state an earlier (possibly interrupted) run can leave behind:
    leftovers <key>.tmp / <key>.meta.tmp / <key>.meta / a complete earlier blob of another type, then
    store_blob(key, v): afterwards has_blob(key), fetch_blob(key) == v (decoded with the codec that wrote it),
    the metadata names that codec, no other key is affected; has_blob / fetch_blob change nothing."""
    import json

    values = [("text", "héllo\nworld"), ("bytes", b"\x00\xffraw"), ("object", {"a": [1, 2]}), ("empty_text", ""), ("empty_bytes", b"")]
    leftovers = ["tmp", "meta_tmp", "meta_of_text", "meta_of_bytes", "complete_text", "complete_bytes", "complete_object"]
    for r in range(0, 3):
        for combo in itertools.combinations(leftovers, r):
            for vname, v in values:
                d, st = _mk()
                try:
                    blobs = os.path.join(d, "internal", "blobs")
                    st.store_blob("other", "untouched", None)
                    for lo in combo:
                        if lo == "tmp":
                            open(os.path.join(blobs, "k.tmp"), "wb").write(b"partial")
                        elif lo == "meta_tmp":
                            open(os.path.join(blobs, "k.meta.tmp"), "wb").write(b"{")
                        elif lo.startswith("meta_of_"):
                            donor = "donor_" + lo
                            st.store_blob(donor, dict(values)[lo[len("meta_of_"):]], None)
                            shutil.copy(os.path.join(blobs, donor + ".meta"), os.path.join(blobs, "k.meta"))
                        elif lo.startswith("complete_"):
                            st.store_blob("k", dict(values)[lo[len("complete_"):]], None)
                    # presence is the blob file itself (the last thing store_blob makes visible), whatever else is there
                    complete = any(lo.startswith("complete_") for lo in combo)
                    if st.has_blob("k") != complete:
                        return {"reproduced": True, "detail": "leftovers %s (no complete blob for 'k'): has_blob('k') -> %r" % (list(combo), st.has_blob("k")), "inputs": {"leftovers": list(combo)}}
                    if not complete and st.fetch_blob("k") is not None:
                        return {"reproduced": True, "detail": "leftovers %s (no complete blob for 'k'): fetch_blob('k') -> %r" % (list(combo), st.fetch_blob("k")), "inputs": {"leftovers": list(combo)}}
                    tag = "leftovers %s, then store_blob('k', <%s>)" % (list(combo), vname)
                    try:
                        st.store_blob("k", v, None)
                    except BaseException as e:
                        return {"reproduced": True, "detail": "%s raised %s: %s" % (tag, type(e).__name__, e), "inputs": {"leftovers": list(combo), "value": vname}}
                    if not st.has_blob("k"):
                        return {"reproduced": True, "detail": "%s: has_blob('k') is False afterwards" % tag, "inputs": {"leftovers": list(combo), "value": vname}}
                    try:
                        got = st.fetch_blob("k")
                    except BaseException as e:
                        got = "<%s: %s>" % (type(e).__name__, str(e)[:60])
                    if got != v:
                        return {"reproduced": True, "detail": "%s: fetch_blob('k') -> %r" % (tag, got), "inputs": {"leftovers": list(combo), "value": vname}}
                    meta = json.load(open(os.path.join(blobs, "k.meta")))
                    want = {"text": "local.string", "bytes": "local.bytes", "object": "local.pickle", "empty_text": "local.string", "empty_bytes": "local.bytes"}[vname]
                    if not str(meta.get("protocol", "")).endswith(want.split(".")[1]):
                        return {"reproduced": True, "detail": "%s: metadata names %r, the value was written by the %s codec" % (tag, meta.get("protocol"), want), "inputs": {"leftovers": list(combo), "value": vname}}
                    if st.fetch_blob("other") != "untouched":
                        return {"reproduced": True, "detail": "%s: another key was affected" % tag, "inputs": {"leftovers": list(combo), "value": vname}}
                    # a second store object (another process) sees the same
                    from dds.store import LocalFileStore

                    if LocalFileStore(os.path.join(d, "internal"), os.path.join(d, "data")).fetch_blob("k") != v:
                        return {"reproduced": True, "detail": "%s: another store object reads a different value" % tag, "inputs": {"leftovers": list(combo), "value": vname}}
                finally:
                    shutil.rmtree(d, ignore_errors=True)
    return {"reproduced": False, "detail": "store_blob / has_blob / fetch_blob behave as specified from all %d leftover states x 5 value types (incl. empty text and empty bytes)" % sum(1 for r in range(3) for _ in itertools.combinations(leftovers, r))}
