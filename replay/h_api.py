"""Native replay for refuted obligations of dds/_api.py (_eval, _eval_new_ctx, keep, eval, load).

The solver's counterexample names a path through the function (hit / miss, failing user function, stage prefix ...).
The handler drives the real library through a fixed set of small pipelines and histories that exercise those paths,
with a recording store, and evaluates the violated clause natively on the recorded effect trace.  `reproduced` is
True only if the clause (or a clause of the same group) fails on the real code; the failing scenario is the input.
"""
import os
import re
import subprocess
import sys
import tempfile
import textwrap
import json

GROUPS = {
    "dryrun": r"dry_run|no_commit_stage|delegates_once|only_stage_parsing",
    "commit": r"commit|paths_overridden|paths_untouched|no_path_commit|load#|path_was_committed|returns_blob_of_committed_key",
    "value": r"returns_value_of_plain_execution|store_invariant|stored_under|stored_value|store_after_user_call|key_present|delegates_to__eval",
    "hit": r"hit_runs|hit_leaves|miss_runs|miss_result|kept_root_present",
    "failure": r"no_except_clause|nothing_stored_for_failed|no_path_commit_on_failure|context_dropped|user_exception_propagates|exception_propagates|exception_of_evaluation|eval_ctx_identity|attr_\w+_of_",
    "reject": r"rejected_before|blobs_untouched|overlap|EVAL_IN_EVAL|nothing_ran|nested_eval|analysis_completes|only_coded_dds_errors|eval_in_eval",
}

DRIVER = r'''
import sys, os, json, importlib
sys.path.insert(0, os.environ["SCEN_DIR"])
import dds
from dds.store import MemoryStore
import dds._api as api
from dds.structures import DDSException, DDSErrorCode, ProcessingStage as PS

class Rec(MemoryStore):
    def __init__(self):
        super().__init__(); self.ev = []
    def has_blob(self, k): self.ev.append(("has_blob", k)); return super().has_blob(k)
    def fetch_blob(self, k): self.ev.append(("fetch_blob", k)); return super().fetch_blob(k)
    def store_blob(self, k, b, codec=None): self.ev.append(("store_blob", k, b)); return super().store_blob(k, b, codec)
    def sync_paths(self, m): self.ev.append(("sync_paths", dict(m))); return super().sync_paths(m)

import pipe
dds.accept_module("pipe")
fails = []
def bad(group, what, cls=None): fails.append({"group": group, "what": what, "cls": cls})

def run(stages=None, fn=None, **opts):
    st = api._store_var
    st.ev.clear(); pipe.CALLS.clear()
    exc = None; res = None
    try:
        res = dds.eval(fn or pipe.root, dds_stages=stages, **opts)
    except BaseException as e:
        exc = e
    ev = list(st.ev); calls = list(pipe.CALLS)
    seq = []
    # interleave is not recorded across the two logs; user calls are logged into the store log as well
    return res, exc, ev, calls

def kinds(ev): return [e[0] for e in ev]

def fresh():
    s = Rec(); dds.set_store(s); pipe.STORE = s; return s

def check_full(tag, res, exc, ev, calls, s, expect_calls=None):
    k = kinds(ev)
    if exc is not None: bad("value", "%s: unexpected exception %r" % (tag, exc)); return
    if res != pipe.plain_root(): bad("value", "%s: dds.eval returned %r, plain execution gives %r" % (tag, res, pipe.plain_root()))
    ns = k.count("sync_paths")
    if ns != 1: bad("commit", "%s: %d path commits in one evaluation" % (tag, ns)); return
    isync = k.index("sync_paths")
    if any(x in ("store_blob", "user_call") for x in k[isync+1:]): bad("commit", "%s: store effects after the path commit" % tag)
    m = ev[isync][1]
    if set(m) != {"/out/root", "/out/nested"}: bad("commit", "%s: committed paths %s, the evaluation kept /out/root and /out/nested" % (tag, sorted(m)))
    for p, want in (("/out/root", pipe.plain_root()), ("/out/nested", pipe.plain_nested())):
        try:
            got = dds.load(p)
        except BaseException as e:
            bad("commit", "%s: dds.load(%s) raised %r" % (tag, p, e)); continue
        if got != want: bad("commit", "%s: dds.load(%s) serves %r, the latest evaluation's keep returned %r" % (tag, p, got, want))
    if expect_calls is not None and sorted(calls) != sorted(expect_calls):
        bad("hit", "%s: user functions executed %s, expected %s" % (tag, calls, expect_calls))
    if api._eval_ctx is not None: bad("failure", "%s: evaluation context not dropped" % tag)

# ---- history: fresh / repeat / edit nested / revert (root hit, nested path must be re-committed) ----
s = fresh(); pipe.SCALE = 2
check_full("fresh store", *run(), s, expect_calls=["root", "nested"])
check_full("repeat unchanged", *run(), s, expect_calls=[])
pipe.SCALE = 5
check_full("after editing a tracked variable", *run(), s, expect_calls=["root", "nested"])
pipe.SCALE = 2
check_full("after reverting the edit (all blobs present)", *run(), s, expect_calls=[])
# results that are None: stored and served like any other value (root of a keep, of a direct data-function style call, nested)
s = fresh()
for attempt in (1, 2, 3):
    s.ev.clear(); pipe.CALLS.clear()
    try:
        r = dds.keep("/out/none_root", pipe.none_root)
    except BaseException as e:
        bad("hit", "None-valued pipeline, evaluation %d: raised %r" % (attempt, e)); break
    if r is not None: bad("value", "None-valued pipeline returned %r" % (r,))
    want = ["none_root", "none_leaf"] if attempt == 1 else []
    if sorted(pipe.CALLS) != sorted(want):
        bad("hit", "kept functions returning None, evaluation %d of the unchanged pipeline: executed %s, expected %s" % (attempt, pipe.CALLS, want))
# a keep that the analysis finds but the evaluation does not execute (guarded by a condition that is false at run time),
# while the function kept there has changed: the path keeps serving what the latest evaluation that KEPT it returned
s = fresh(); pipe.SCALE = 2; pipe.COND = True
res, exc, ev, calls = run(fn=pipe.cond_root)
if exc is not None or res != "cond-2": bad("commit", "conditional keep, condition true: %r / %r" % (res, exc))
pipe.COND = False; pipe.SCALE = 9
res, exc, ev, calls = run(fn=pipe.cond_root)
if exc is not None or res != "skipped": bad("commit", "conditional keep, condition false: %r / %r" % (res, exc))
for e_ in ev:
    if e_[0] == "sync_paths":
        for p_, k_ in e_[1].items():
            if not s.has_blob(k_): bad("commit", "an evaluation that did not execute the keep of %s committed the path to a blob that does not exist" % p_)
try:
    got = dds.load("/out/cond")
except BaseException as e:
    got = "<%s>" % type(e).__name__
if got != "cond-2": bad("commit", "after an evaluation that did not execute the keep of /out/cond, dds.load(/out/cond) serves %r; the latest evaluation that kept it returned 'cond-2'" % (got,))
pipe.COND = True
res, exc, ev, calls = run(fn=pipe.cond_root)
if exc is not None or res != "cond-9": bad("commit", "conditional keep, condition true again: %r / %r" % (res, exc))
pipe.SCALE = 2
# only nested blob missing: root hit
# ---- dry runs ----------------------------------------------------------------------------------------------------
for stages in (["analysis"], ["ANALYSIS"], [PS.ANALYSIS], ["analysis", "store_inspect"], ["Analysis", PS.STORE_INSPECT]):
    s = fresh(); pipe.SCALE = 3
    res, exc, ev, calls = run(stages)
    k = kinds(ev)
    if exc is not None: bad("dryrun", "stages=%r: raised %r" % (stages, exc)); continue
    if calls or "store_blob" in k or "sync_paths" in k or res is not None or s._cache or s._paths:
        bad("dryrun", "stages=%r: dry run executed %s, events %s, returned %r" % (stages, calls, [x for x in k if x in ("store_blob","sync_paths")], res))
    # between the dry run and the full run a tracked variable changes: the full run is that of the changed code
    pipe.SCALE = 13
    n0 = len(fails)
    check_full("full run after dry run %r and a change of a tracked variable" % (stages,), *run(), s, expect_calls=["root", "nested"])
    # the same on a populated store: full run, dry run, change of a tracked variable, full run (must not be served the old result)
    pipe.SCALE = 3
    run()
    run(stages)
    pipe.SCALE = 17
    check_full("full run (SCALE=3), dry run %r, SCALE changed to 17, full run" % (stages,), *run(), s, expect_calls=["root", "nested"])
    for f_ in fails[n0:]:
        f_["group"] = "dryrun"  # a dry run that leaves a trace in the next evaluation is a dry-run failure
for stages in (["analysis", "store_inspect", "eval"], ["analysis", "store_inspect", "eval", "store_commit"]):
    s = fresh(); pipe.SCALE = 4
    res, exc, ev, calls = run(stages)
    k = kinds(ev)
    if exc is not None: bad("dryrun", "stages=%r: raised %r" % (stages, exc)); continue
    if "sync_paths" in k or s._paths: bad("dryrun", "stages=%r: paths were committed" % (stages,))
    if res != pipe.plain_root(): bad("dryrun", "stages=%r: returned %r" % (stages, res))
# restricted runs on a populated store (every blob present: the root is a hit), with the paths currently pointing elsewhere
for stages in (["analysis"], ["analysis", "store_inspect"], ["analysis", "store_inspect", "eval"], ["analysis", "store_inspect", "eval", "store_commit"], [PS.ANALYSIS, "STORE_INSPECT", "Eval"]):
    s = fresh(); pipe.SCALE = 4
    run()                       # full run: blobs of the SCALE=4 version, paths committed
    pipe.SCALE = 6
    run()                       # full run of another version: the paths now point to its blobs
    pipe.SCALE = 4              # back: every blob of this version is in the store
    before = dict(s._paths)
    res, exc, ev, calls = run(stages)
    k = kinds(ev)
    if exc is not None: bad("dryrun", "stages=%r on a populated store: raised %r" % (stages, exc)); continue
    if "sync_paths" in k or dict(s._paths) != before:
        bad("dryrun", "stages=%r (no path_commit) on a store that already holds every blob: the paths were re-pointed (%s)" % (stages, [e for e in ev if e[0] == "sync_paths"]))
    if "store_blob" in k: bad("dryrun", "stages=%r on a populated store: blobs stored" % (stages,))
    if calls: bad("hit", "stages=%r on a populated store: executed %s" % (stages, calls))
for stages in (["eval"], ["analysis", "eval"], ["bogus"], [3]):
    s = fresh()
    res, exc, ev, calls = run(stages)
    if not isinstance(exc, DDSException) or calls: bad("dryrun", "stages=%r: not rejected with a DDSException (%r), calls %s" % (stages, exc, calls))
# ---- failing user functions ---------------------------------------------------------------------------------------
import tempfile as _tf
_gdir = _tf.mkdtemp(prefix="dds_h_api_graph_")
# (the exception classes include those an I/O or import problem of dds itself would raise: a user's exception of such a
#  class is the user's all the same; the entry options must not matter)
for where, cls, entry in [(w_, c_, e_) for w_ in ("root", "nested") for c_ in (ValueError, KeyError, KeyboardInterrupt, SystemExit, FileNotFoundError, ImportError, PermissionError, MemoryError) for e_ in ({}, {"dds_export_graph": os.path.join(_gdir, "g.svg")}, {"dds_extra_debug": True})]:
    if entry and cls in (KeyError, SystemExit, PermissionError):
        continue
    for nondefault in ((False, True) if entry else (False,)):
        s = fresh(); pipe.SCALE = 7
        pipe.FAIL = (where, cls("boom"))
        import dds._config as _cfg
        if nondefault:
            # the user runs with non-default options: a failed evaluation leaves every one of them as it was
            _cfg.set_option("extra_debug", False); _cfg.set_option("accept_list", False); _cfg.set_option("hash.max_sequence_size", 77)
        opts_before = dict(_cfg._options_values)
        res, exc, ev, calls = run(**entry)
        opts_after = dict(_cfg._options_values)
        for k_ in ("extra_debug", "accept_list", "accept_dict", "hash.max_sequence_size"):
            _cfg.reset_option(k_)
        k = kinds(ev)
        if opts_after != opts_before: bad("failure", "%s raises %s (dds.eval with %s, options %s beforehand): the failed evaluation changed the options of the process: %s" % (where, cls.__name__, ", ".join(sorted(entry)) or "no option", "non-default" if nondefault else "default", {k_: (opts_before[k_], opts_after.get(k_)) for k_ in opts_before if opts_before[k_] != opts_after.get(k_)}))
        tag = "%s raises %s%s" % (where, cls.__name__, (" (dds.eval with %s)" % ", ".join(sorted(entry))) if entry else "")
        if calls.count(where) != 1: bad("failure", "%s: the failing function ran %d times in one evaluation (calls %s)" % (tag, calls.count(where), calls))
        if exc is not pipe.FAIL[1]: bad("failure", "%s: propagated %r instead of the same exception object" % (tag, exc))
        if "sync_paths" in k or s._paths: bad("failure", "%s: paths committed by a failed evaluation" % tag)
        stored = [e for e in ev if e[0] == "store_blob"]
        if where == "root" and any(True for e in stored if e[2] == pipe.plain_root()): bad("failure", "%s: result stored for the failing function" % tag)
        if where == "nested" and stored: bad("failure", "%s: blobs stored although the only kept functions failed: %s" % (tag, stored))
        if api._eval_ctx is not None: bad("failure", "%s: evaluation context still set after the failure" % tag); api._eval_ctx = None
        # the same failing evaluation once more: the store now holds the sub-results that completed before the failure
        res, exc, ev, calls = run(**entry)
        k = kinds(ev)
        if exc is not pipe.FAIL[1]: bad("failure", "%s, evaluated a second time: propagated %r instead of the same exception object" % (tag, exc))
        if "sync_paths" in k or s._paths: bad("failure", "%s, evaluated a second time (sub-results of the first attempt are in the store): paths committed by a failed evaluation: %s" % (tag, sorted(s._paths)))
        if api._eval_ctx is not None: bad("failure", "%s (second attempt): evaluation context still set" % tag); api._eval_ctx = None
        # another, successful evaluation right after the failure commits its own paths only (nothing of the failed one)
        res, exc, ev, calls = run(fn=pipe.other_ok)
        synced = [e[1] for e in ev if e[0] == "sync_paths"]
        if exc is not None or res != "other!": bad("failure", "%s, then another pipeline: %r / %r" % (tag, res, exc))
        elif len(synced) != 1 or set(synced[0]) != {"/out/other"} or set(s._paths) != {"/out/other"}:
            bad("failure", "%s, then another (successful) pipeline: it committed %s, its only kept path is /out/other -- paths of the failed evaluation were committed" % (tag, sorted(set().union(*[set(x) for x in synced]) if synced else [])))
        s._paths.clear()
        pipe.FAIL = None
        # sub-results that completed before the failure are reused
        check_full("evaluation following '%s'" % tag, *run(), s, expect_calls=["root"] if where == "root" else ["root", "nested"])
import shutil as _sh
_sh.rmtree(_gdir, ignore_errors=True)
# ---- ill-formed evaluations ---------------------------------------------------------------------------------------
for fn, code in ((pipe.overlap, DDSErrorCode.OVERLAPPING_PATH), (pipe.nested_eval, DDSErrorCode.EVAL_IN_EVAL), (pipe.rec_a, DDSErrorCode.CIRCULAR_CALL)):
    s = fresh()
    res, exc, ev, calls = run(fn=fn)
    k = kinds(ev)
    if not isinstance(exc, DDSException) or exc.error_code != code: bad("reject", "%s: expected %s, got %r" % (fn.__name__, code, exc))
    if calls or "store_blob" in k or "sync_paths" in k or s._cache or s._paths: bad("reject", "%s: rejected evaluation ran %s / touched the store %s" % (fn.__name__, calls, k))
# call cycles of other shapes: through a higher-order reference, a key= reference, a keep, a default argument, methods
for fn, shape in ((pipe.cyc_self, "a function calling itself"), (pipe.cyc_map_a, "through map(f, ...)"), (pipe.cyc_key_a, "through key=f"), (pipe.cyc_keep_a, "through dds.keep of the other function"),
                  (pipe.cyc_three_a, "a -> b -> c -> a"), (pipe.cyc_method_top, "through methods of one class (self.m1 -> self.m2 -> self.m1)")):
    s = fresh()
    res, exc, ev, calls = run(fn=fn)
    k = kinds(ev)
    cls_ = "cycle_through_methods_not_rejected" if fn is pipe.cyc_method_top else None
    if not isinstance(exc, DDSException) or exc.error_code != DDSErrorCode.CIRCULAR_CALL: bad("reject", "call cycle %s (%s): expected CIRCULAR_CALL, got %r / %r" % (shape, fn.__name__, exc, res), cls_)
    elif calls or "store_blob" in k or "sync_paths" in k or s._cache or s._paths: bad("reject", "call cycle %s: rejected evaluation ran %s / touched the store %s" % (shape, calls, k), cls_)
# the offending call sits in an accepted module that is imported inside the function body and not loaded yet
import sys as _sys
for m_ in ("lazy_ov", "lazy_ev", "lazy_cy"):
    dds.accept_module(m_)
for fn, code, mod in ((pipe.lazy_overlap, DDSErrorCode.OVERLAPPING_PATH, "lazy_ov"), (pipe.lazy_nested_eval, DDSErrorCode.EVAL_IN_EVAL, "lazy_ev"), (pipe.lazy_cycle, DDSErrorCode.CIRCULAR_CALL, "lazy_cy")):
    s = fresh()
    if mod in _sys.modules: bad("reject", "harness: %s was already imported" % mod)
    res, exc, ev, calls = run(fn=fn)
    k = kinds(ev)
    if not isinstance(exc, DDSException) or exc.error_code != code: bad("reject", "%s (offending call in a module imported inside the function body, not loaded before): expected %s, got %r" % (fn.__name__, code, exc))
    if calls or "store_blob" in k or "sync_paths" in k or s._cache or s._paths: bad("reject", "%s (lazily imported module): rejected evaluation ran %s / touched the store %s" % (fn.__name__, calls, k))
    if api._eval_ctx is not None: api._eval_ctx = None
# the path of a top-level dds.keep takes part in the overlap check like any other kept path
for (outer, fn, label) in (("/p", pipe.keeps_p_sub, "outer /p, inner /p/sub"), ("/p/sub/x", pipe.keeps_p_sub, "outer /p/sub/x, inner /p/sub")):
    s = fresh(); s.ev.clear(); pipe.CALLS.clear()
    exc = None
    try:
        dds.keep(outer, fn)
    except BaseException as e:
        exc = e
    k = kinds(s.ev)
    if not isinstance(exc, DDSException) or exc.error_code != DDSErrorCode.OVERLAPPING_PATH: bad("reject", "top-level keep, %s: expected OVERLAPPING_PATH, got %r" % (label, exc))
    if pipe.CALLS or "store_blob" in k or "sync_paths" in k or s._cache or s._paths: bad("reject", "top-level keep, %s: ran %s / touched the store %s" % (label, pipe.CALLS, k))
    if api._eval_ctx is not None: api._eval_ctx = None
print(json.dumps(fails))
'''

PIPE = '''
import dds
CALLS = []
SCALE = 2
FAIL = None
STORE = None

def _maybe_fail(name):
    import pipe_state
    f = pipe_state.get()
    if f is not None and f[0] == name:
        raise f[1]

def nested():
    CALLS.append("nested")
    _maybe_fail("nested")
    return SCALE * 10

def root():
    CALLS.append("root")
    x = dds.keep("/out/nested", nested)
    _maybe_fail("root")
    return x + 1

def plain_nested():
    return SCALE * 10

def plain_root():
    return SCALE * 10 + 1

def _mk():
    return dds.keep("/out/root", root)

def f1():
    CALLS.append("f1")
    return 1

def overlap():
    CALLS.append("overlap")
    a = dds.keep("/p", f1)
    c = dds.keep("/p/sub", f1)
    return a + c

def keeps_p_sub():
    CALLS.append("keeps_p_sub")
    return dds.keep("/p/sub", f1)

def inner_eval():
    CALLS.append("inner_eval")
    return dds.eval(f1)

def nested_eval():
    CALLS.append("nested_eval")
    return inner_eval()

def none_leaf():
    CALLS.append("none_leaf")
    return None

def none_root():
    CALLS.append("none_root")
    x = dds.keep("/out/none_leaf", none_leaf)
    return None

COND = True

def cond_leaf():
    CALLS.append("cond_leaf")
    return "cond-%d" % SCALE

def cond_root():
    CALLS.append("cond_root")
    if COND:
        return dds.keep("/out/cond", cond_leaf)
    return "skipped"

def other_leaf():
    CALLS.append("other_leaf")
    return "other"

def other_ok():
    CALLS.append("other_ok")
    return dds.keep("/out/other", other_leaf) + "!"

def lazy_overlap():
    CALLS.append("lazy_overlap")
    import lazy_ov
    a = dds.keep("/lz/p", f1)
    return a + lazy_ov.stage()

def lazy_nested_eval():
    CALLS.append("lazy_nested_eval")
    import lazy_ev
    return lazy_ev.stage()

def lazy_cycle():
    CALLS.append("lazy_cycle")
    import lazy_cy
    return lazy_cy.back()

GUARD = 0

def cyc_self(n=2):
    CALLS.append("cyc_self")
    return 1 if n <= GUARD else cyc_self(n - 1)

def cyc_map_a():
    CALLS.append("cyc_map_a")
    return list(map(cyc_map_b, [1]))

def cyc_map_b(x):
    return cyc_map_a() if GUARD < 0 else x

def cyc_key_a():
    CALLS.append("cyc_key_a")
    return sorted([2, 1], key=cyc_key_b)

def cyc_key_b(x):
    return cyc_key_a() if GUARD < 0 else x

def cyc_keep_a():
    CALLS.append("cyc_keep_a")
    return dds.keep("/cyc/b", cyc_keep_b)

def cyc_keep_b():
    CALLS.append("cyc_keep_b")
    return dds.keep("/cyc/a", cyc_keep_a) if GUARD < 0 else 5

def cyc_three_a():
    CALLS.append("cyc_three_a")
    return cyc_three_b()

def cyc_three_b():
    return cyc_three_c()

def cyc_three_c():
    return cyc_three_a() if GUARD < 0 else 3

class Cyc:
    def m1(self):
        return self.m2()

    def m2(self):
        return self.m1() if GUARD < 0 else 2

def cyc_method_top():
    CALLS.append("cyc_method_top")
    return Cyc().m1()

def rec_a():
    CALLS.append("rec_a")
    return rec_b()

def rec_b():
    CALLS.append("rec_b")
    return rec_a()
'''

LAZY = {
    "lazy_ov.py": "import dds\nimport pipe\ndef leaf():\n    pipe.CALLS.append('lazy_ov.leaf')\n    return 1\ndef stage():\n    pipe.CALLS.append('lazy_ov.stage')\n    return dds.keep('/lz/p/sub', leaf)\n",
    "lazy_ev.py": "import dds\nimport pipe\ndef leaf():\n    pipe.CALLS.append('lazy_ev.leaf')\n    return 1\ndef stage():\n    pipe.CALLS.append('lazy_ev.stage')\n    return dds.eval(leaf)\n",
    "lazy_cy.py": "import pipe\ndef back():\n    pipe.CALLS.append('lazy_cy.back')\n    return pipe.lazy_cycle()\n",
}

PIPE_STATE = '''
def get():
    import pipe
    return pipe.FAIL
'''


def run_scenarios():
    d = tempfile.mkdtemp(prefix="dds_replay_")
    try:
        with open(os.path.join(d, "pipe.py"), "w") as f:
            f.write(PIPE.replace("def root():", '@dds.data_function("/out/root")\ndef root():'))
        with open(os.path.join(d, "pipe_state.py"), "w") as f:
            f.write(PIPE_STATE)
        for name, src in LAZY.items():
            with open(os.path.join(d, name), "w") as f:
                f.write(src)
        with open(os.path.join(d, "driver.py"), "w") as f:
            f.write(DRIVER)
        env = dict(os.environ, SCEN_DIR=d)
        p = subprocess.run([sys.executable, os.path.join(d, "driver.py")], capture_output=True, text=True, timeout=240, env=env)
        lines = [l for l in p.stdout.strip().split("\n") if l.startswith("[")]
        if lines:
            return json.loads(lines[-1]), None
        return None, "scenario driver crashed: " + (p.stderr or p.stdout)[-1500:]
    finally:
        import shutil

        shutil.rmtree(d, ignore_errors=True)


def trace_clause(model, payload):
    ob = payload.get("obligation", "")
    group = None
    for g, rx in GROUPS.items():
        if re.search(rx, ob):
            group = g
            break
    fails, err = run_scenarios()
    if fails is None:
        return {"reproduced": None, "detail": err}
    mine = [f for f in fails if group is None or f["group"] == group]
    if mine:
        return {"reproduced": True, "detail": mine[0]["what"], "inputs": {"scenario": mine[0]["what"], "clause_group": group, "all_failures_in_group": [f["what"] for f in mine][:6]}}
    return {"reproduced": False, "detail": "clause group %r holds on all native scenarios (%d other failures: %s)" % (group, len(fails), [f["what"] for f in fails][:3])}


def same_path_twice(model, payload):
    """ONE-KEY precondition: one evaluation keeps the same path with two different bindings"""
    import dds

    src = "import dds\ndef f(x):\n    return 'f(%d)' % x\ndef root():\n    a = dds.keep('/dup/p', f, 1)\n    b = dds.keep('/dup/p', f, 2)\n    return (a, b)\n"
    d = tempfile.mkdtemp(prefix="dds_replay_dup_")
    try:
        with open(os.path.join(d, "dup_mod.py"), "w") as fh:
            fh.write(src)
        sys.path.insert(0, d)
        import importlib

        m = importlib.import_module("dup_mod")
        dds.accept_module(m)
        dds.set_store("memory")
        try:
            r = dds.eval(m.root)
        except BaseException as e:
            return {"reproduced": False, "detail": "rejected: %s: %s" % (type(e).__name__, str(e)[:100])}
        if r != ("f(1)", "f(2)"):
            return {"reproduced": True, "detail": "a = keep('/dup/p', f, 1); b = keep('/dup/p', f, 2) in one evaluation returns %r; plain execution gives ('f(1)', 'f(2)')" % (r,), "inputs": {"pipeline": src}}
        return {"reproduced": False, "detail": "both keeps return their own value"}
    finally:
        if d in sys.path:
            sys.path.remove(d)
        import shutil

        shutil.rmtree(d, ignore_errors=True)


def overlap_sets(model, payload):
    """non_terminal_leaves on path sets: the result is non-empty iff some path is a proper segment-prefix of another
    (the root path '/' is a prefix of every other path), whatever the order and whatever characters the segments contain"""
    import itertools
    import random
    from dds.structures_utils import FunctionInteractionsUtils as U

    def segs(p):
        return [x for x in p.split("/") if x != ""]

    def spec(lst):
        return any(p != q and len(segs(p)) < len(segs(q)) and segs(q)[: len(segs(p))] == segs(p) for p in lst for q in lst)

    names = ["f", "g", "f.meta", "f-x", "f0", "fg", "f 1"]
    paths = ["/"] + ["/" + a for a in names] + ["/%s/%s" % (a, b) for a in names[:4] for b in ("x", "f")] + ["/f/x/y", "/g/f/x"]
    rnd = random.Random(0)
    cases = [c for n in (1, 2) for c in itertools.permutations(paths, n)] + [tuple(rnd.sample(paths, rnd.choice((3, 4, 5)))) for _ in range(4000)]
    for lst in cases:
        try:
            got = U.non_terminal_leaves(list(lst), None)
        except BaseException as e:
            return {"reproduced": True, "detail": "non_terminal_leaves(%s) raised %s" % (list(lst), type(e).__name__), "inputs": {"paths": list(lst)}}
        if bool(got) != spec(lst):
            return {"reproduced": True, "detail": "kept paths %s: reported %s although %s path is a proper prefix of another" % (list(lst), got, "a" if spec(lst) else "no"), "inputs": {"paths": list(lst)}}
    return {"reproduced": False, "detail": "%d path lists agree with the prefix-overlap spec" % len(cases)}
