"""Replay handler for the history-independence clauses of dds/introspect.py:_introspect_fun: the same-process histories of the
corpus check (evaluate f which calls g; rewrite the module so that g is removed / is something else and f no longer uses it;
evaluate f again) against a fresh process that only sees the rewritten module."""
import importlib.util
import os
import shutil
import tempfile


def same_process_histories(model, payload):
    spec = importlib.util.spec_from_file_location("b_corpus_for_replay", os.path.join(os.path.dirname(os.path.dirname(os.path.abspath(__file__))), "bounded", "b_corpus.py"))
    bc = importlib.util.module_from_spec(spec)
    spec.loader.exec_module(bc)
    tmp = tempfile.mkdtemp(prefix="dds_h_history_")
    try:
        n = 0
        for label, g_src in (("removed", "K_UNRELATED = 1"), ("a set", "g = {1, 2}"), ("an instance of a class of the module", "class C: pass\ng = C()"), ("an int", "g = 3"), ("a class", "class g: pass"), ("a module", "import os as g"), ("a lambda", "g = lambda: 1"), ("a function with another body", "def g():\n    return 100")):
            n += 1
            d1, d2 = os.path.join(tmp, "h%d" % n), os.path.join(tmp, "f%d" % n)
            bc.materialise(d1)
            bc.materialise(d2)
            a = bc.run(d1, "history2", {"g_becomes": g_src})
            b = bc.run(d2, "history2_fresh", {"g_becomes": g_src})
            if a.get("value") != b.get("value"):
                return {"reproduced": True, "detail": "evaluate f (calls g); rewrite the module so that g is %s and f no longer uses it; evaluate f again in the same process -> %s, a fresh process gives %s" % (label, a.get("value") or a.get("error"), b.get("value") or b.get("error")),
                        "inputs": {"module_before": "def g(): return 1 / def f(): return g() + 1", "module_after": g_src + " / def f(): return 5"}}
        return {"reproduced": False, "detail": "%d same-process histories end like a fresh process" % n}
    finally:
        shutil.rmtree(tmp, ignore_errors=True)
