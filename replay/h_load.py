"""Replay handlers for C09 obligations."""


def traversal(model, payload):
    """all_loads / all_stores on a two-level DAG: the nested node's load / store path must be collected"""
    from pathlib import PurePosixPath
    from dds.structures import FunctionIndirectInteractions as FII, CanonicalPath
    from dds.structures_utils import FunctionIndirectInteractionUtils as U

    cp = lambda s: CanonicalPath(PurePosixPath(s))
    leaf = FII(fun_path=cp("m/leaf"), store_path="/kept/leaf", indirect_deps=["/loaded/by/leaf"])
    mid = FII(fun_path=cp("m/mid"), store_path=None, indirect_deps=[leaf, "/loaded/by/mid"])
    root = FII(fun_path=cp("m/root"), store_path="/kept/root", indirect_deps=["/loaded/by/root", mid])
    loads, stores = U.all_loads(root), U.all_stores(root)
    want_l, want_s = {"/loaded/by/root", "/loaded/by/mid", "/loaded/by/leaf"}, {"/kept/root", "/kept/leaf"}
    if loads != want_l or stores != want_s:
        return {"reproduced": True, "detail": "root -> mid -> leaf: all_loads = %s (expected %s), all_stores = %s (expected %s)" % (sorted(loads), sorted(want_l), sorted(stores), sorted(want_s)), "inputs": {"dag": "root -> mid -> leaf"}}
    return {"reproduced": False, "detail": "nested loads and stores are collected"}


def load_in_eval(model, payload):
    """a function loads a path kept earlier in the same evaluation: fresh store, then populated store with changed producer"""
    import sys, types
    import dds

    mod = types.ModuleType("c09_replay_mod")
    src = (
        "import dds\nV = 1\n"
        "def producer():\n    return 'P%d' % V\n"
        "def reader():\n    return 'read:' + dds.load('/c09/prod')\n"
        "def root():\n    x = dds.keep('/c09/prod', producer)\n    return dds.keep('/c09/reader', reader)\n"
    )
    import os, tempfile, importlib, shutil

    d = tempfile.mkdtemp(prefix="dds_replay_load_")
    try:
        with open(os.path.join(d, "c09_replay_mod.py"), "w") as f:
            f.write(src)
        sys.path.insert(0, d)
        m = importlib.import_module("c09_replay_mod")
        dds.accept_module(m)
        dds.set_store("memory")
        out = []
        for v in (1, 2):
            m.V = v
            try:
                r = dds.eval(m.root)
            except BaseException as e:
                r = "<%s: %s>" % (type(e).__name__, str(e)[:80])
            out.append(r)
        # read before produce on a populated store: must be refused, never served the previous content
        src2 = (
            "import dds\nV = 1\n"
            "def producer():\n    return 'P%d' % V\n"
            "def only_producer():\n    return dds.keep('/c09b/prod', producer)\n"
            "def root():\n    y = 'read:' + dds.load('/c09b/prod')\n    x = dds.keep('/c09b/prod', producer)\n    return y\n"
        )
        with open(os.path.join(d, "c09_replay_mod2.py"), "w") as f:
            f.write(src2)
        m2 = importlib.import_module("c09_replay_mod2")
        dds.accept_module(m2)
        dds.set_store("memory")
        dds.eval(m2.only_producer)
        m2.V = 2
        from dds.structures import DDSException
        try:
            r = dds.eval(m2.root)
        except DDSException:
            r = "DDSError"
        except BaseException as e:
            r = "<%s>" % type(e).__name__
        if r != "DDSError":
            return {"reproduced": True, "detail": "populated store, producer edited, the evaluation reads /c09b/prod before producing it: got %r instead of a DDS error" % (r,), "inputs": {"history": "keep producer (V=1); V=2; eval root (load before keep)"}}
        if out != ["read:P1", "read:P2"]:
            return {"reproduced": True, "detail": "evaluate with V=1 then V=2 (reader loads the path the evaluation keeps): results %r, expected ['read:P1', 'read:P2']" % (out,), "inputs": {"history": "V=1; V=2"}}
        return {"reproduced": False, "detail": "in-evaluation load serves the value kept by the evaluation"}
    finally:
        sys.path.remove(d)
        shutil.rmtree(d, ignore_errors=True)
