"""Replay handler / native judge for dds/_retrieve_objects.py:ObjectRetrieval._retrieve_object_rec.

A real module graph is written to a temporary directory:
  acc            accepted package: acc.m1 (functions, a class, values of tracked / untracked types, typing names), acc.sub.m2
                 (re-exports of acc.m1 under other names, a module attribute, its own function)
  out            NOT accepted: out.n1 (its own function / class / value, re-exports of acc.m1 under other names, module attributes
                 pointing into acc)
and every local path of length 1..3 over the names found there is resolved from every module with the real function and with
the spec below (the contract's case table, written as plain Python over real reflection).  For C14 the two must agree on what is
TRACKED (the same object under the same path, or nothing); for the `pinned_*` clauses (C03) exactly (None vs external too).
"""
import importlib
import inspect
import itertools
import os
import pathlib
import shutil
import sys
import tempfile
import types
import typing

FILES = {
    "acc/__init__.py": "",
    "acc/m1.py": '''
import pathlib
from typing import List, NewType
def f(): return 1
def g(): return f() + 1
class K:
    LIMIT = 3
    def meth(self): return 2
N = 5
S = "text"
P = pathlib.PurePosixPath("/a/b")
TAGS = {"x", "y"}
UserId = NewType("UserId", int)
length = len
''',
    "acc/sub/__init__.py": "",
    "acc/sub/m2.py": '''
from acc.m1 import f as eff, K as Kay, N as En
from acc import m1
import acc.m1 as em
from out import n1 as outside
def h(): return eff()
''',
    "out/__init__.py": "",
    "out/n1.py": '''
from acc.m1 import f as shipped, K as ShippedK, N as ShippedN
from acc import m1 as accm
import acc.sub.m2 as deep
def own(): return 0
class Own: pass
V = 7
''',
}


def spec(parts, mod, gctx, tracked_type):
    """('auth', obj, path) | ('ext', path) | None -- the contract's case table over real reflection"""
    from dds._retrieve_objects import _mod_path, function_path
    from dds.structures_utils import CanonicalPathUtils as CPU

    if not parts:
        mp = _mod_path(mod)
        return ("auth", mod, str(mp)) if gctx.is_authorized_path(mp) else ("ext", str(mp))
    f, tail = parts[0], parts[1:]
    if f not in mod.__dict__:
        return "OBJECT_PATH_NOT_FOUND"
    o = mod.__dict__[f]
    if isinstance(o, types.ModuleType):
        return spec(tail, o, gctx, tracked_type)
    here = CPU.append(_mod_path(mod), f)
    if not tail:
        if isinstance(o, (types.FunctionType, type)):
            dm = inspect.getmodule(o)
            if dm is None or dm is typing:
                return None
            if dm is not mod:
                return spec([o.__name__], dm, gctx, tracked_type)
        if gctx.is_authorized_path(here) and (tracked_type(o) or isinstance(o, (types.FunctionType, pathlib.PurePosixPath)) or inspect.isclass(o)):
            return ("auth", o, str(here))
        return ("ext", str(here))
    if isinstance(o, types.FunctionType):
        return ("auth", o, str(here)) if gctx.is_authorized_path(here) else ("ext", str(here))
    if isinstance(o, type):
        there = CPU.append(function_path(o), f)
        return ("auth", o, str(there)) if gctx.is_authorized_path(there) else ("ext", str(there))
    return None


def resolution_cases(model, payload):
    from collections import OrderedDict
    from dds._retrieve_objects import ObjectRetrieval, _is_authorized_type
    from dds._eval_ctx import EvalMainContext, AuthorizedObject, ExternalObject
    from dds.structures import DDSException, LocalDepPath

    exact = "pinned_" in str((payload or {}).get("obligation", ""))
    d = tempfile.mkdtemp(prefix="dds_h_retrieve_")
    for rel, src in FILES.items():
        os.makedirs(os.path.dirname(os.path.join(d, rel)), exist_ok=True)
        open(os.path.join(d, rel), "w").write(src.lstrip("\n"))
    sys.path.insert(0, d)
    n = 0
    try:
        mods = [importlib.import_module(x) for x in ("acc.m1", "acc.sub.m2", "out.n1")]
        gctx = EvalMainContext(None, whitelisted_packages={"acc"}, start_globals={}, resolved_references=OrderedDict())

        def tracked_type(o):
            try:
                return _is_authorized_type(type(o), gctx)
            except DDSException:
                return "TYPE_ERROR"

        names = sorted({k for m in mods for k in m.__dict__ if not k.startswith("__")} | {"meth", "LIMIT", "missing"})
        paths = [[a] for a in names] + [[a, b] for a in ("m1", "em", "accm", "deep", "outside", "eff", "Kay", "K", "f", "shipped") for b in names] + [[a, b, c] for a in ("deep", "outside", "accm") for b in ("m1", "em", "accm", "outside", "K") for c in ("f", "K", "N", "shipped", "meth", "missing")]
        for mod, parts in itertools.product(mods, paths):
            n += 1
            want = spec(list(parts), mod, gctx, tracked_type)
            try:
                got = ObjectRetrieval._retrieve_object_rec(LocalDepPath(pathlib.PurePosixPath("/".join(parts))), mod, gctx)
                if isinstance(got, AuthorizedObject):
                    got = ("auth", got.object_val, str(got.resolved_path))
                elif isinstance(got, ExternalObject):
                    got = ("ext", str(got.resolved_path))
            except DDSException as e:
                got = e.error_code.name if getattr(e, "error_code", None) is not None else "DDSException"
            except RecursionError:
                continue
            except BaseException as e:
                got = "%s: %s" % (type(e).__name__, str(e)[:80])
            if isinstance(want, tuple) and want[0] == "auth" and want[1] is not None and tracked_type(want[1]) == "TYPE_ERROR":
                want = "AUTHORIZED_TYPE_NOT_UNDERSTOOD"

            def tr(x):
                return (x[0], id(x[1]), x[2]) if isinstance(x, tuple) and x[0] == "auth" else ("untracked" if (x is None or isinstance(x, tuple)) else x)

            same = (got == want or (isinstance(got, tuple) and isinstance(want, tuple) and got[0] == want[0] == "auth" and got[1] is want[1] and got[2] == want[2])) if exact else tr(got) == tr(want)
            if not same:
                show = lambda x: (x[0], getattr(x[1], "__name__", repr(x[1])[:30]), x[2]) if isinstance(x, tuple) and x[0] == "auth" else x
                return {"reproduced": True, "detail": "package `acc` accepted, `out` not: resolving %s from module %s gives %r, the specification gives %r" % (".".join(parts), mod.__name__, show(got), show(want)),
                        "inputs": {"local_path": list(parts), "context_module": mod.__name__, "accepted": ["acc"], "files": sorted(FILES)}}
        return {"reproduced": False, "detail": "%d (module, local path) pairs resolve as specified (%s comparison)" % (n, "exact" if exact else "tracking")}
    finally:
        sys.path.remove(d)
        for k in [k for k in sys.modules if k == "acc" or k.startswith("acc.") or k == "out" or k.startswith("out.")]:
            sys.modules.pop(k, None)
        shutil.rmtree(d, ignore_errors=True)


def spec_top(parts, mod, gctx, tracked_type):
    """the uncached answer of retrieve_object (the contract's `definition`), over real reflection"""
    from dds._retrieve_objects import _mod_path, function_path
    from dds.structures_utils import CanonicalPathUtils as CPU

    f, tail = parts[0], parts[1:]
    if f in mod.__dict__:
        return spec(parts, mod, gctx, tracked_type)
    try:
        loaded = importlib.import_module(f)
    except ModuleNotFoundError:
        loaded = None
    if loaded is not None:
        return spec(tail, loaded, gctx, tracked_type)
    if CPU.head(_mod_path(mod)) not in ("__main__", "__global__"):
        return None
    if f not in gctx.start_globals:
        return None
    g = gctx.start_globals[f]
    if isinstance(g, types.ModuleType) and tail:
        return spec_top(tail, g, gctx, tracked_type)
    if isinstance(g, types.ModuleType):
        gp = _mod_path(g)
    elif isinstance(g, types.FunctionType):
        gp = function_path(g)
    else:
        gp = CPU.from_list(["__global__"] + list(parts))
    if gctx.is_authorized_path(gp) and (tracked_type(g) is True or isinstance(g, (types.FunctionType, types.ModuleType, pathlib.PurePosixPath, str))):
        return ("auth", g, str(gp))
    return ("ext", str(gp))


def retrieve_cases(model, payload):
    """ObjectRetrieval.retrieve_object (cache, import fall-back, start globals) against the uncached specification: every
    (module, local path) pair resolved (a) with a fresh context each and (b) with ONE context for all pairs, in two orders --
    the shared cache must not change any answer.  Modules: the graph of resolution_cases plus a module named __main__ whose
    names live in the start globals (accepted and non-accepted functions, a module, values)."""
    from collections import OrderedDict
    from dds._retrieve_objects import ObjectRetrieval, _is_authorized_type
    from dds._eval_ctx import EvalMainContext, AuthorizedObject, ExternalObject
    from dds.structures import DDSException, LocalDepPath

    d = tempfile.mkdtemp(prefix="dds_h_retrieve_")
    for rel, src in FILES.items():
        os.makedirs(os.path.dirname(os.path.join(d, rel)), exist_ok=True)
        open(os.path.join(d, rel), "w").write(src.lstrip("\n"))
    sys.path.insert(0, d)
    try:
        mods = [importlib.import_module(x) for x in ("acc.m1", "acc.sub.m2", "out.n1")]
        main = types.ModuleType("__main__")
        main.__dict__["local_name"] = 3
        sg = {"helper": mods[0].f, "foreign": mods[2].own, "accmod": mods[0], "outmod": mods[2], "val": 3, "txt": "s", "tags": {1, 2}}

        def mk():
            return EvalMainContext(None, whitelisted_packages={"acc", "__main__", "__global__"}, start_globals=dict(sg), resolved_references=OrderedDict())

        ref = mk()

        def tracked_type(o):
            try:
                return _is_authorized_type(type(o), ref)
            except DDSException:
                return "TYPE_ERROR"

        names = sorted({k for m in mods for k in m.__dict__ if not k.startswith("__")} | set(sg) | {"acc", "out", "missing_everywhere", "local_name"})
        paths = [[a] for a in names] + [[a, b] for a in ("acc", "out", "accmod", "outmod", "m1", "accm", "helper") for b in ("m1", "n1", "f", "own", "K", "N", "sub", "missing")] + [["acc", "sub", "m2"], ["acc", "m1", "f"], ["out", "n1", "shipped"], ["accmod", "K", "meth"], ["outmod", "accm", "f"]]
        cases = [(m, p_) for m in mods + [main] for p_ in paths]

        def show(x):
            return (x[0], getattr(x[1], "__name__", repr(x[1])[:30]), x[2]) if isinstance(x, tuple) and x[0] == "auth" else x

        def run(gctx, mod, parts):
            try:
                got = ObjectRetrieval.retrieve_object(LocalDepPath(pathlib.PurePosixPath("/".join(parts))), mod, gctx)
            except DDSException as e:
                return e.error_code.name if getattr(e, "error_code", None) is not None else "DDSException"
            except BaseException as e:
                return "%s: %s" % (type(e).__name__, str(e)[:80])
            if isinstance(got, AuthorizedObject):
                return ("auth", got.object_val, str(got.resolved_path))
            if isinstance(got, ExternalObject):
                return ("ext", str(got.resolved_path))
            return got

        def same(a_, b_):
            if isinstance(a_, tuple) and isinstance(b_, tuple) and a_[0] == b_[0] == "auth":
                return a_[1] is b_[1] and a_[2] == b_[2]
            return a_ == b_

        n = 0
        for label, order in (("a fresh context per call", None), ("one context for all calls", cases), ("one context for all calls, reverse order", cases[::-1])):
            shared = mk() if order is not None else None
            for mod, parts in (order or cases):
                n += 1
                want = spec_top(list(parts), mod, ref, tracked_type)
                if isinstance(want, tuple) and want[0] == "auth" and tracked_type(want[1]) == "TYPE_ERROR":
                    want = "AUTHORIZED_TYPE_NOT_UNDERSTOOD"
                got = run(shared if shared is not None else mk(), mod, parts)
                if not same(got, want):
                    return {"reproduced": True, "detail": "packages `acc`, `__main__` accepted, `out` not; %s: retrieve_object(%s) from module %s gives %r, the uncached specification gives %r" % (label, ".".join(parts), mod.__name__, show(got), show(want)),
                            "inputs": {"local_path": list(parts), "context_module": mod.__name__, "mode": label}}
        return {"reproduced": False, "detail": "%d calls (fresh context / shared context in two orders) answer as the uncached specification" % n}
    finally:
        sys.path.remove(d)
        for k in [k for k in sys.modules if k == "acc" or k.startswith("acc.") or k == "out" or k.startswith("out.")]:
            sys.modules.pop(k, None)
        shutil.rmtree(d, ignore_errors=True)

