"""Replay handlers for dds/_eval_ctx.py obligations."""
import re
from collections import OrderedDict
from pathlib import PurePosixPath


def _int(model, name, default):
    try:
        return int(model.get(name))
    except Exception:
        return default


def _fun_else(model, name, default):
    v = model.get(name) or ""
    m = re.search(r"else -> (-?\d+)", v)
    return int(m.group(1)) if m else default


def authorized_prefix(model, payload):
    """is_authorized_path: the model gives |W| (W.card) and len(parts); some prefix k <= len(parts) is accepted
    but the function answers False.  Concretisation: parts = p0/p1/..., W = {full dotted prefix} + fillers."""
    from dds._eval_ctx import EvalMainContext
    from dds.structures import CanonicalPath

    card = max(_int(model, "W.card", 1), 1)
    n = max(_fun_else(model, "parts_len", card), 1)
    tried = []
    for k in range(n, 0, -1):
        parts = ["p%d" % i for i in range(n)]
        accepted = {".".join(parts[:k])}
        i = 0
        while len(accepted) < card:
            accepted.add("zz%d" % i)
            i += 1
        ctx = EvalMainContext(None, whitelisted_packages=accepted, start_globals={}, resolved_references=OrderedDict())
        got = ctx.is_authorized_path(CanonicalPath(PurePosixPath("/".join(parts))))
        spec = any(".".join(parts[:j]) in accepted for j in range(0, n + 1))
        tried.append((k, got, spec))
        if got != spec:
            return {
                "reproduced": True,
                "detail": "accepted=%s path=%s: is_authorized_path -> %r, but the prefix of length %d is accepted" % (sorted(accepted), "/".join(parts), got, k),
                "inputs": {"accepted": sorted(accepted), "parts": parts},
            }
    return {"reproduced": False, "detail": "no disagreement for |W|=%d, len(parts)=%d: %r" % (card, n, tried)}
