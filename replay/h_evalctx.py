"""Replay handlers for dds/_eval_ctx.py obligations."""
import re
from collections import OrderedDict
from pathlib import PurePosixPath


def _int(model, name, default):
    try:
        return int(model.get(name))
    except Exception:
        return default


def _fun_else(model, name, default):
    v = model.get(name) or ""
    m = re.search(r"else -> (-?\d+)", v)
    return int(m.group(1)) if m else default


def authorized_prefix(model, payload):
    """is_authorized_path: the model gives |W| (W.card) and len(parts); some prefix k <= len(parts) is accepted
    but the function answers False.  Concretisation: parts = p0/p1/..., W = {full dotted prefix} + fillers."""
    from dds._eval_ctx import EvalMainContext
    from dds.structures import CanonicalPath

    card = max(_int(model, "W.card", 1), 1)
    n = max(_fun_else(model, "parts_len", card), 1)
    tried = []
    for k in range(n, 0, -1):
        parts = ["p%d" % i for i in range(n)]
        accepted = {".".join(parts[:k])}
        i = 0
        while len(accepted) < card:
            accepted.add("zz%d" % i)
            i += 1
        ctx = EvalMainContext(None, whitelisted_packages=accepted, start_globals={}, resolved_references=OrderedDict())
        got = ctx.is_authorized_path(CanonicalPath(PurePosixPath("/".join(parts))))
        spec = any(".".join(parts[:j]) in accepted for j in range(0, n + 1))
        tried.append((k, got, spec))
        if got != spec:
            return {
                "reproduced": True,
                "detail": "accepted=%s path=%s: is_authorized_path -> %r, but the prefix of length %d is accepted" % (sorted(accepted), "/".join(parts), got, k),
                "inputs": {"accepted": sorted(accepted), "parts": parts},
            }
    return {"reproduced": False, "detail": "no disagreement for |W|=%d, len(parts)=%d: %r" % (card, n, tried)}


def authorized_types(model, payload):
    """_is_authorized_type against the documented table, for every combination of the two options"""
    import collections
    import datetime
    import decimal
    import pathlib
    import types
    from collections import OrderedDict
    import dds
    from dds._retrieve_objects import _is_authorized_type
    from dds._eval_ctx import EvalMainContext
    from dds.structures import DDSException
    import dds.introspect as intro

    always = [None, int, float, str, bytes, bool, type(None), pathlib.PurePosixPath, types.FunctionType, types.ModuleType]
    other = [set, frozenset, pathlib.PosixPath, pathlib.PurePath, complex, bytearray, range, datetime.date, decimal.Decimal, collections.defaultdict, collections.deque, object, type]
    ctx = EvalMainContext(None, whitelisted_packages=set(intro._accepted_packages), start_globals={}, resolved_references=OrderedDict())
    bad = []
    try:
        for al in (True, False):
            for ad in (True, False):
                dds.set_option("accept_list", al) if hasattr(dds, "set_option") else None
                dds.set_option("accept_dict", ad) if hasattr(dds, "set_option") else None
                table = [(t, True) for t in always] + [(list, al), (tuple, al), (dict, ad), (OrderedDict, ad)] + [(t, False) for t in other]
                for t, want in table:
                    try:
                        got = _is_authorized_type(t, ctx)
                    except DDSException as e:
                        got = "DDSException"
                    except BaseException as e:
                        got = type(e).__name__
                    if got != want:
                        bad.append("accept_list=%s accept_dict=%s: %s is %s, documented: %s" % (al, ad, getattr(t, "__name__", t), "tracked" if got is True else ("not tracked" if got is False else got), "tracked" if want else "not tracked"))
    finally:
        try:
            dds.set_option("accept_list", True)
            dds.set_option("accept_dict", True)
        except Exception:
            pass
    if bad:
        return {"reproduced": True, "detail": "; ".join(bad[:4]), "inputs": {"mismatches": bad[:10]}}
    return {"reproduced": False, "detail": "27 classes x 4 option settings agree with the documented table"}
