"""Replay handlers for the DBFS store obligations (fake dbutils)."""


class FakeFS:
    def __init__(self):
        self.files = {}

    def head(self, p):
        if p not in self.files:
            raise Exception("java.io.FileNotFoundException: " + p)
        v = self.files[p]
        return v if isinstance(v, str) else v.decode("latin-1")

    def put(self, p, blob, overwrite=False):
        self.files[p] = blob
        return True

    def cp(self, src, dst, recurse=False):
        def rd(u):
            if u.startswith("file://"):
                return open(u[len("file://"):], "rb").read()
            if u.startswith("file:"):
                return open(u[len("file:"):], "rb").read()
            if u not in self.files:
                raise Exception("java.io.FileNotFoundException: " + u)
            v = self.files[u]
            return v if isinstance(v, bytes) else v.encode("latin-1")
        data = rd(src)
        if dst.startswith("file://"):
            open(dst[len("file://"):], "wb").write(data)
        else:
            self.files[dst] = data
        return True

    def rm(self, p, recurse=False):
        self.files.pop(p, None)
        return True


class FakeDbutils:
    def __init__(self):
        self.fs = FakeFS()


def commit_type_names(model, payload):
    """every documented commit type must be accepted; anything else must be a coded DDS error, never a KeyError"""
    import dds
    from dds.structures import DDSException

    bad = []
    for ct in (None, "none", "NONE", "links_only", "Links_Only", "full", "FULL", "bogus"):
        try:
            dds.set_store("dbfs", internal_dir="dbfs:/i", data_dir="dbfs:/d", dbutils=FakeDbutils(), commit_type=ct)
        except DDSException:
            if ct != "bogus":
                bad.append("commit_type=%r rejected with a DDSException although it is documented" % (ct,))
        except BaseException as e:
            bad.append("commit_type=%r raised %s: %s" % (ct, type(e).__name__, e))
    dds.set_store("memory")
    if bad:
        return {"reproduced": True, "detail": "; ".join(bad[:4]), "inputs": {"commit_types": bad}}
    return {"reproduced": False, "detail": "all documented commit types accepted, unknown ones rejected with a DDSException"}


def alias_kinds(model, payload):
    """a blob whose metadata names the legacy reference dbfs.<kind> must decode with the codec of that kind"""
    import json
    import pickle
    from dds.codecs.databricks import DBFSStore, DBFSURI, CommitType

    db = FakeDbutils()
    st = DBFSStore(DBFSURI.parse("dbfs:/i"), DBFSURI.parse("dbfs:/d"), db, CommitType.FULL)
    bad = []
    cases = {"pickle": ({"a": [1, 2]}, pickle.dumps({"a": [1, 2]})), "string": ("héllo", "héllo".encode("utf-8")), "bytes": (b"\x00\x01abc", b"\x00\x01abc")}
    # the metadata of a blob is a JSON record of which the store reads one field, the codec reference: records written by
    # other releases may lack the other fields or carry more
    shapes = {"with a timestamp": lambda ref: {"protocol": ref, "timestamp_millis": 0}, "with the codec reference only": lambda ref: {"protocol": ref}, "with additional fields": lambda ref: {"protocol": ref, "timestamp_millis": 5, "writer": "dds 0.7", "size": 12}}
    for (kind, (value, raw)), (shape, mk) in [(c_, s_) for c_ in cases.items() for s_ in shapes.items()]:
        for ref in ("dbfs." + kind, {"pickle": "local.pickle", "string": "local.string", "bytes": "local.bytes"}[kind]):
            key = "legacy_%s_%d" % (kind, len(db.fs.files))
            db.fs.files[str(st._blob_path(key))] = raw
            db.fs.files[str(st._blob_meta_path(key))] = json.dumps(mk(ref))
            try:
                got = st.fetch_blob(key)
                present = st.has_blob(key)
            except BaseException as e:
                got, present = "<%s: %s>" % (type(e).__name__, e), None
            if got != value or present is not True:
                bad.append("blob whose metadata record (%s) names %s decodes to %r (has_blob %r), expected %r" % (shape, ref, str(got)[:40], present, value))
    if bad:
        return {"reproduced": True, "detail": "; ".join(bad), "inputs": {"legacy_refs": list(cases)}}
    return {"reproduced": False, "detail": "legacy references decode with the codec of the same kind"}


def commit_type_history(model, payload):
    """sync_paths under every history of commit types over the same directories: after a commit of type t the
    postcondition of t holds (record names the key; 'full': byte-identical copy; 'links only': no object written;
    'none': nothing written), and fetch_paths resolves the record -- also through a store object that resolved the
    path before the re-commit"""
    import itertools
    from collections import OrderedDict
    from dds.codecs.databricks import DBFSStore, DBFSURI, CommitType

    cts = (("full", CommitType.FULL), ("links_only", CommitType.LINK_ONLY), ("none", CommitType.NO_COMMIT))
    for hist in itertools.product(cts, repeat=3):
        for keys in (("k1", "k1", "k1"), ("k1", "k2", "k1"), ("k1", "k2", "k2")):
            db = FakeDbutils()
            stores = {}
            tag = "commit types %s, keys %s" % ([h[0] for h in hist], list(keys))
            for (ct_name, ct), k in zip(hist, keys):
                st = stores.setdefault(ct_name, DBFSStore(DBFSURI.parse("dbfs:/int"), DBFSURI.parse("dbfs:/data"), db, ct))
                for kk in ("k1", "k2"):
                    if not st.has_blob(kk):
                        st.store_blob(kk, "value of " + kk, None)
                before = dict(db.fs.files)
                try:
                    st.sync_paths(OrderedDict([("/h/p", k)]))
                except BaseException as e:
                    return {"reproduced": True, "detail": "[%s] sync_paths raised %s: %s" % (tag, type(e).__name__, e), "inputs": {"history": tag}}
                data = {p: v for p, v in db.fs.files.items() if p.startswith("dbfs:/data/")}
                bad = None
                if ct == CommitType.NO_COMMIT:
                    if db.fs.files != before:
                        bad = "a 'none' commit changed %s" % sorted(set(db.fs.files) ^ set(before))
                else:
                    try:
                        got = dict(st.fetch_paths(["/h/p"]))
                    except BaseException as e:
                        got = "<%s>" % type(e).__name__
                    if got != {"/h/p": k}:
                        bad = "after the %s commit of /h/p -> %s the record resolves to %r" % (ct_name, k, got)
                    elif ct == CommitType.FULL and data.get("dbfs:/data/h/p") != ("value of " + k).encode("utf-8"):
                        bad = "after the 'full' commit of /h/p -> %s the data directory holds %r at the path, not a copy of the result" % (k, data.get("dbfs:/data/h/p"))
                    elif ct == CommitType.LINK_ONLY and data.get("dbfs:/data/h/p") != before.get("dbfs:/data/h/p"):
                        bad = "a 'links only' commit wrote the object at the path"
                if bad:
                    return {"reproduced": True, "detail": "[%s] %s" % (tag, bad), "inputs": {"history": tag}}
    return {"reproduced": False, "detail": "81 commit-type histories x 3 key sequences satisfy the postcondition of each commit"}


def blob_ops(model, payload):
    """DBFSStore.store_blob / fetch_blob / has_blob on a fake dbutils: the codec selected (by type, or the reference
    given) writes the blob, the metadata names its reference and is written last, nothing else is written, a fetch
    returns the value; an unregistered reference is a DDS error before anything is written; absent key -> None"""
    import json
    from dds.codecs.databricks import DBFSStore, DBFSURI, CommitType
    from dds.structures import DDSException

    cases = [("text é\n", None, "local.string"), (b"\x00raw", None, "local.bytes"), ({"a": [1]}, None, "local.pickle"), (None, None, "local.pickle"),
             ("text", "local.pickle", "local.pickle"), (b"b", "local.pickle", "local.pickle"), ("text", "local.string", "local.string"), (b"zz", "local.bytes", "local.bytes")]
    for v, ref, want in cases:
        db = FakeDbutils()
        st = DBFSStore(DBFSURI.parse("dbfs:/int"), DBFSURI.parse("dbfs:/data"), db, CommitType.FULL)
        order = []
        real_put, real_cp = db.fs.put, db.fs.cp
        db.fs.put = lambda p, b, overwrite=False: (order.append(("put", p)), real_put(p, b, overwrite))[1]
        db.fs.cp = lambda s, d, recurse=False: (order.append(("cp", d)), real_cp(s, d, recurse))[1]
        tag = "store_blob('k', %r, %r)" % (v, ref)
        if st.has_blob("k") or st.fetch_blob("k") is not None:
            return {"reproduced": True, "detail": "%s: the key is present before it is stored" % tag, "inputs": {"value": repr(v), "codec": ref}}
        try:
            st.store_blob("k", v, ref)
        except BaseException as e:
            return {"reproduced": True, "detail": "%s raised %s: %s" % (tag, type(e).__name__, e), "inputs": {"value": repr(v), "codec": ref}}
        files = db.fs.files
        if set(files) != {"dbfs:/int/blobs/k", "dbfs:/int/blobs/k.meta"}:
            return {"reproduced": True, "detail": "%s wrote %s" % (tag, sorted(files)), "inputs": {"value": repr(v), "codec": ref}}
        meta = json.loads(files["dbfs:/int/blobs/k.meta"])
        if meta.get("protocol") != want:
            return {"reproduced": True, "detail": "%s: the metadata names %r, the codec selected for the call is %r" % (tag, meta.get("protocol"), want), "inputs": {"value": repr(v), "codec": ref}}
        if [o for o in order if o[1].startswith("dbfs:")][-1][1] != "dbfs:/int/blobs/k.meta":
            return {"reproduced": True, "detail": "%s: the metadata is not the last object written: %s" % (tag, order), "inputs": {"value": repr(v), "codec": ref}}
        got = st.fetch_blob("k")
        if got != v or not st.has_blob("k"):
            return {"reproduced": True, "detail": "%s: fetch_blob -> %r, has_blob -> %r" % (tag, got, st.has_blob("k")), "inputs": {"value": repr(v), "codec": ref}}
        if set(db.fs.files) != {"dbfs:/int/blobs/k", "dbfs:/int/blobs/k.meta"}:
            return {"reproduced": True, "detail": "%s: fetch_blob / has_blob wrote to DBFS: %s" % (tag, sorted(db.fs.files)), "inputs": {"value": repr(v), "codec": ref}}
    db = FakeDbutils()
    st = DBFSStore(DBFSURI.parse("dbfs:/int"), DBFSURI.parse("dbfs:/data"), db, CommitType.FULL)
    try:
        st.store_blob("k", "v", "no.such.codec")
        return {"reproduced": True, "detail": "store_blob with an unregistered codec reference succeeded", "inputs": {"codec": "no.such.codec"}}
    except DDSException:
        if db.fs.files:
            return {"reproduced": True, "detail": "store_blob with an unregistered codec reference wrote %s before failing" % sorted(db.fs.files), "inputs": {"codec": "no.such.codec"}}
    except BaseException as e:
        return {"reproduced": True, "detail": "store_blob with an unregistered codec reference raised %s" % type(e).__name__, "inputs": {"codec": "no.such.codec"}}
    r = alias_kinds(model, payload)
    if r.get("reproduced"):
        return r
    return {"reproduced": False, "detail": "store / fetch / presence behave as specified for %d (value, reference) cases, an unregistered reference and the legacy aliases" % len(cases)}
