"""Native judge for the clauses of contracts/introspect_class.py (dds/introspect.py:_introspect_class): the real function on real
classes, compared with the contract's statement written over real reflection.

  eligible(b)   b is not object, inspect.getmodule(b) is not None, gctx.is_authorized_path(function_path(b))
  - the last len(eligible) entries of the result's parsed_body are the analyses of the eligible bases, in order
    (identified by fun_path), and no base that is not eligible is analysed
  - the signature is that of the class body alone (the one obtained when no base module is accepted) iff no base is eligible
  - a class has no store path; a second call returns the cached entry
Classes: no tracked base, one tracked base, two tracked bases, a tracked and a non-accepted base, a builtin base, a chain."""
import importlib
import os
import shutil
import sys
import tempfile
from collections import OrderedDict

_SRC = {
    "hc_acc/__init__.py": "",
    "hc_acc/base.py": "class B:\n    def m(self):\n        return 1\n\n\nclass B2:\n    def n(self):\n        return 2\n\n\nclass Mid(B):\n    def k(self):\n        return 3\n",
    "hc_out/__init__.py": "",
    "hc_out/ext.py": "class X:\n    def x(self):\n        return 9\n",
    "hc_acc/derived.py": "from hc_acc.base import B, B2, Mid\nfrom hc_out.ext import X\n\n\nclass P:\n    def p(self):\n        return 0\n\n\nclass D1(B):\n    def d(self):\n        return 1\n\n\nclass D2(B, B2):\n    def d(self):\n        return 2\n\n\nclass DX(X, B2):\n    def d(self):\n        return 3\n\n\nclass DD(dict):\n    def d(self):\n        return 4\n\n\nclass DM(Mid):\n    def d(self):\n        return 5\n",
}


def base_class_cases(model, payload):
    import inspect

    tmp = tempfile.mkdtemp(prefix="dds_h_class_")
    try:
        for rel, src in _SRC.items():
            p = os.path.join(tmp, rel)
            os.makedirs(os.path.dirname(p), exist_ok=True)
            with open(p, "w") as f:
                f.write(src)
        sys.path.insert(0, tmp)
        for m in [k for k in sys.modules if k.startswith("hc_acc") or k.startswith("hc_out")]:
            del sys.modules[m]
        importlib.invalidate_caches()
        derived = importlib.import_module("hc_acc.derived")
        from dds.introspect import _introspect_class
        from dds._eval_ctx import EvalMainContext
        from dds.structures import FunctionArgContext
        from dds._retrieve_objects import function_path

        def ctx(pkgs):
            return EvalMainContext(None, whitelisted_packages=set(pkgs), start_globals={}, resolved_references=OrderedDict())

        real = _introspect_class

        class _Raised(Exception):
            pass

        def _introspect_class(c, a, g, stack):  # every class here is well formed: an error is itself a deviation
            try:
                return real(c, a, g, stack)
            except BaseException as e:  # DDSException derives from BaseException
                raise _Raised("%s: %s" % (type(e).__name__, str(e)[:200]))

        arg_ctx = FunctionArgContext(OrderedDict(), None)
        n = 0
        for name in ("P", "D1", "D2", "DX", "DD", "DM"):
            c = getattr(derived, name)
            g = ctx({"hc_acc"})
            inp0 = {"class": "hc_acc.derived." + name, "bases": [b.__module__ + "." + b.__name__ for b in c.__bases__]}
            try:
                fis = _introspect_class(c, arg_ctx, g, [])
                alone = _introspect_class(c, arg_ctx, ctx({"hc_acc.derived"}), [])
            except _Raised as e:
                return {"reproduced": True, "detail": "the analysis of a well-formed class raised (accepted: hc_acc, then hc_acc.derived only): %s" % e, "inputs": inp0}
            n += 1
            elig = [b for b in c.__bases__ if b is not object and inspect.getmodule(b) is not None and g.is_authorized_path(function_path(b))]
            tail = [x.fun_path for x in fis.parsed_body[len(fis.parsed_body) - len(elig):]] if elig else []
            want = [function_path(b) for b in elig]
            inp = {"class": "hc_acc.derived." + name, "bases": [b.__module__ + "." + b.__name__ for b in c.__bases__], "accepted": ["hc_acc"]}
            if tail != want:
                return {"reproduced": True, "detail": "the analyses of the eligible base classes %s are not the last entries of parsed_body (found %s)" % ([str(w) for w in want], [str(t) for t in tail]), "inputs": inp}
            others = [b for b in c.__bases__ if b not in elig and b is not object]
            bad = [str(x.fun_path) for x in fis.parsed_body if x.fun_path in [function_path(b) for b in others]]
            if bad:
                return {"reproduced": True, "detail": "a base class that is not eligible was analysed: %s" % bad, "inputs": inp}
            if fis.store_path is not None:
                return {"reproduced": True, "detail": "a class got a store path", "inputs": inp}
            # the signature of the class body alone: the same class analysed where only its own module is accepted
            if (fis.fun_return_sig != alone.fun_return_sig) != bool(elig):
                return {"reproduced": True, "detail": "%d eligible base class(es) but the signature %s the signature of the class body alone" % (len(elig), "differs from" if not elig else "equals"), "inputs": inp}
            again = _introspect_class(c, arg_ctx, g, [])
            if again is not fis:
                return {"reproduced": True, "detail": "a second analysis in the same evaluation did not return the cached entry", "inputs": inp}
        return {"reproduced": False, "detail": "%d classes agree with the contract's statement" % n}
    finally:
        if tmp in sys.path:
            sys.path.remove(tmp)
        shutil.rmtree(tmp, ignore_errors=True)


if __name__ == "__main__":
    print(base_class_cases({}, {}))
