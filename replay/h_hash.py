"""Replay handlers for dds/fun_args.py obligations."""
import re


def _elt_int(model):
    v = model.get("elt") or ""
    m = re.search(r"VInt\((-?\s*\d+)\)", v.replace("\n", " "))
    if m:
        return int(m.group(1).replace(" ", ""))
    m = re.search(r"VInt\(-\s*(\d+)\)", v)
    if m:
        return -int(m.group(1))
    return None


def pack_range(model, payload):
    """struct.pack('!l', i) precondition: the model's elt is VInt(i) with i outside the signed 32-bit range"""
    from dds.fun_args import dds_hash
    from dds.structures import DDSException

    i = _elt_int(model)
    cands = [i] if i is not None else []
    cands += [2**31, -(2**31) - 1]
    for c in cands:
        try:
            dds_hash(c)
        except DDSException as e:
            continue
        except BaseException as e:
            return {"reproduced": True, "detail": "dds_hash(%d) raised %s: %s (a low-level exception, not a coded DDS error)" % (c, type(e).__name__, e), "inputs": {"value": c}}
    return {"reproduced": False, "detail": "dds_hash accepted %r" % (cands,)}
