"""Replay handlers for dds/fun_args.py obligations."""
import re


def _elt_int(model):
    v = model.get("elt") or ""
    m = re.search(r"VInt\((-?\s*\d+)\)", v.replace("\n", " "))
    if m:
        return int(m.group(1).replace(" ", ""))
    m = re.search(r"VInt\(-\s*(\d+)\)", v)
    if m:
        return -int(m.group(1))
    return None


def pack_range(model, payload):
    """struct.pack('!l', i) precondition: the model's elt is VInt(i) with i outside the signed 32-bit range"""
    from dds.fun_args import dds_hash
    from dds.structures import DDSException

    i = _elt_int(model)
    cands = [i] if i is not None else []
    cands += [2**31, -(2**31) - 1]
    for c in cands:
        try:
            dds_hash(c)
        except DDSException as e:
            continue
        except BaseException as e:
            return {"reproduced": True, "detail": "dds_hash(%d) raised %s: %s (a low-level exception, not a coded DDS error)" % (c, type(e).__name__, e), "inputs": {"value": c}}
    return {"reproduced": False, "detail": "dds_hash accepted %r" % (cands,)}


def twin_mismatch(model, payload):
    """a clause of dds_hash._dds_hash0 against its spec is no longer provable: compare the real function with the executable
    twin of the spec (bounded/b_hash.py) on values that exercise every branch"""
    import dataclasses, datetime, sys
    from collections import OrderedDict
    from pathlib import PurePosixPath
    sys.path.insert(0, "/verif")
    from bounded.b_hash import twin, Unsupported, TooLong, P1, P2
    from dds.fun_args import dds_hash
    from dds.structures import DDSException, DDSErrorCode
    from dds._config import get_option

    mx = get_option("hash.max_sequence_size")
    vals = [None, True, 0, -1, 2**31 - 1, 2**31, -(2**31) - 1, 0.0, -0.0, float("nan"), "", "a", "|", [1, [2, "x"]], (1, 2), {"a": 1}, {1: "x"}, {"1": "x"}, {None: 0}, {(1, 2): 0}, {1.5: [1]},
            OrderedDict([(1, 2), ("k", None)]), P1(3), P2({"a": 1}, [P1(None)]), [{"a": 1}, {"a": 2}], datetime.date(2020, 1, 2), PurePosixPath("a/b"), {b"k": 1}, [b"x"], object()]
    for v in vals:
        try:
            want = ("ok", twin(v, mx))
        except Unsupported:
            want = ("err", DDSErrorCode.TYPE_NOT_SUPPORTED)
        except TooLong:
            want = ("err", DDSErrorCode.SEQUENCE_TOO_LONG)
        try:
            got = ("ok", dds_hash(v))
        except DDSException as e:
            got = ("err", e.error_code)
        except BaseException as e:
            got = ("low-level", type(e).__name__)
        if got != want:
            return {"reproduced": True, "detail": "dds_hash(%r) -> %s, the specification gives %s" % (v, str(got)[:80], str(want)[:80]), "inputs": {"value": repr(v)}}
    return {"reproduced": False, "detail": "real dds_hash agrees with the spec twin on %d branch-covering values" % len(vals)}
