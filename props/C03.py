"""C03 -- signatures depend only on program content, never on the environment."""
import re
from contracts import sigs, hashing, syntactic, retrieve_rec, introspect_fun, introspect_class

ID = "C03"
LEVEL = "other"
EXPLANATION = (
    "Proved: every function between a Python value and a signature string equals a pinned spec function for ALL inputs -- dds_hash._dds_hash0 (spec_hash), _algo_str/_algo_bytes, "
    "dds_hash_commut (the exact string: the 64-character digest for one pair, hex_format(xor_fold) otherwise; int(.,16) always applied to hex), _fis_to_siglist (indexed 'fun_dep_<i>' keys), "
    "_build_return_sig (spec_hash_commut of body ++ arg ++ dep_<p> ++ fun_dep_<i> ++ ext_dep_<lp> ++ ext_variable_<lp>, each comprehension's key format checked on the real body). "
    "A change of packing format, separator, key string or marker fails an ensures clause. _introspect_fun (the caching front of the analysis) is proved, for ARBITRARY content of the process-wide record, to return the per-evaluation entry of exactly this function path and argument context on a hit, to analyse the function itself once on a miss and cache / register the result under its own key, to name a lambda by the hash of its source, and to raise no error that comes from re-resolving the record (history independence). The exact result of every case of the name resolution (_retrieve_object_rec: None vs external object vs authorized object and its path) is pinned. Frame clauses on the real AST: the process-wide interaction cache is never written; identity / environment "
    "values (id, hash, cwd, time, __file__, environ) do not occur in signature code outside log lines and listed harmless uses; set iteration reaches signatures only through sorted(). "
    "Bounded: the corpus is evaluated under hash seeds, cwd, relocation, store kinds, extra_debug and after earlier evaluations, and compared with pinned signatures."
)
TRUSTED = ["A-ENGINE", "A-H1..A-H4 sha256 idealised", "xor is associative and commutative (permutation invariance of the combiner is not proved, it is a property of the spec function xor_fold)", "externals: hashlib, struct, int(.,16), str.format"]
ASSUMPTIONS = ["A-H2", "A-H3", "A-UTF8", "A-PACK", "A-REC", "A-LOG"]
LEVEL_TEXT = "Deductive proof that the signature-computing functions equal pinned spec functions (byte format for all inputs) + syntactic frame clauses + bounded environment variants with pinned signatures; 'other' because of the bounded part and one open finding."
DESIGN_REF = "5 (C03)"
class _Replay(dict):
    def get(self, key, default=None):
        if key.startswith("ObjectRetrieval._retrieve_object_rec#"):
            return "h_retrieve.resolution_cases"
        if key.startswith("_introspect_class#"):
            return "h_class.base_class_cases"
        if key.startswith("_introspect_fun#signals:"):
            return "h_history.same_process_histories"
        if key.startswith("ObjectRetrieval.retrieve_object#"):
            return "h_retrieve.retrieve_cases"
        return dict.get(self, key, default)


REPLAY = _Replay()
_OWN = re.compile(r"^(dds_hash_commut#|_fis_to_siglist#|_build_return_sig#|_algo_|dds_hash\._dds_hash0#(ensures:result_is_spec_hash|comp\d|signals)|signatures#frame|ObjectRetrieval\._retrieve_object_rec#ensures:pinned_|^_introspect_fun#|^_introspect_class#(signals:|ensures:(the_cache_is_asked|without_analysis|a_hit_|analysed_|cached_under|the_process_wide)))")


def owns(name, kind):
    return bool(_OWN.search(name))


def specs():
    # name resolution decides what a signature mentions (an untracked name reported as an ExternalObject is named in its
    # reader's signature, one reported as None is not): the exact result of every case is pinned here
    return [c() for c in sigs.SPECS] + [c() for c in hashing.SPECS] + [c() for c in retrieve_rec.SPECS] + [c() for c in introspect_fun.SPECS] + [c() for c in introspect_class.SPECS]


def lemmas():
    return syntactic.signature_inputs_are_content_only()


def bounded(tier, seed, pr):
    from pyvc.boundedrun import run_bounded

    return [run_bounded(pr, "b_corpus.py", "corpus_environment_variants_and_pinned_signatures", args={"mode": "c03"}, timeout=1500), run_bounded(pr, "b_retrieve.py", "resolution_vs_case_table_exact", args={"mode": "exact"}), run_bounded(pr, "b_notebook.py", "notebook_histories_vs_fresh_kernel")]
