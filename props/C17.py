"""C17 -- results are read back with the codec that wrote them, text and bytes verbatim."""
import re
from contracts import codecs, store_local

ID = "C17"
LEVEL = "other"
EXPLANATION = (
    "Proved: the registry invariant (a reference denotes a codec that names itself by it, or a declared legacy alias) is preserved by add_codec / add_file_codec; "
    "add_file_codec never rebinds an existing reference or type, add_codec rebinds exactly its own reference and types; get_codec(None, ref) returns the codec registered under ref, "
    "get_codec(type, None) the codec bound to the type or the object codec, otherwise a coded error. LocalFileStore.store_blob persists, next to the blob, the reference of the codec that wrote it "
    "and the blob bytes are that codec's encoding; fetch_blob decodes with the codec the persisted reference denotes. StringLocalFileCodec writes utf-8(text) verbatim and reads it back, "
    "BytesFileCodec writes the bytes verbatim. pickle / parquet round trips are assumed (A-LIB) and cross-checked natively by the bounded part together with fresh-process reads."
)
TRUSTED = ["A-ENGINE", "A-FS file-system model", "A-UTF8 (decode(encode(s)) == s)", "A-LIB pickle / parquet round trip (bounded cross-check)", "json round trip of the metadata record"]
ASSUMPTIONS = ["A-FS", "A-UTF8", "A-LIB", "A-LOG"]
LEVEL_TEXT = "Deductive proof of the registry invariant, of codec selection on write / read and of the verbatim text/bytes codecs; library codecs (pickle, parquet) are assumed and cross-checked on a bounded sample, hence 'other'."
DESIGN_REF = "5 (C17)"
class _Replay(dict):
    def get(self, key, default=None):
        if key.startswith(("LocalFileStore.store_blob#", "LocalFileStore.fetch_blob#")):
            return "h_store.store_ops"
        return dict.get(self, key, default)


REPLAY = _Replay()
_OWN = re.compile(r"^(CodecRegistry\.|StringLocalFileCodec\.|BytesFileCodec\.|LocalFileStore\.(store_blob|fetch_blob)#)")


def owns(name, kind):
    return bool(_OWN.search(name))


def specs():
    return [c() for c in codecs.SPECS] + [store_local.Local_store_blob(), store_local.Local_fetch_blob()]


def bounded(tier, seed, pr):
    from pyvc.boundedrun import run_bounded

    return [run_bounded(pr, "b_codec.py", "codec_round_trips_and_registrations"), run_bounded(pr, "b_leftovers.py", "store_blob_from_leftover_states")]
