"""C18 -- graph export is faithful and does not perturb the evaluation."""
import re
from contracts import api, syntactic
from ._api_common import _AnyApiClause

ID = "C18"
LEVEL = "other"
EXPLANATION = (
    "Frame clauses on the real AST: draw_graph / build_graph / _structure never store into, or call a mutator on, the interaction tree, present_blobs or the resolved references they receive, and "
    "the hook in _eval_new_ctx passes exactly these analysis results; proved on every path of _eval_new_ctx: the export runs inside the analysis stage, before the first user call, and an export failure "
    "leaves blobs and paths untouched -- so result and signatures with and without export are computed from the same interaction tree. Faithfulness of the graph (nodes, solid, dashed, dotted edges, "
    "acyclicity) is a bounded check of the real _structure against an executable spec of the statement on generated pipeline shapes."
)
TRUSTED = ["A-ENGINE", "pydotplus rendering is not exercised (graphviz may be absent): the Graph returned by _structure is what is compared", "executable graph spec (bounded part)"]
ASSUMPTIONS = ["A-USER", "A-LOG"]
LEVEL_TEXT = "Frame clauses (syntactic effect analysis) + the effect-trace postconditions of _eval_new_ctx proved deductively; graph faithfulness is a bounded stand-in, hence 'other'."
DESIGN_REF = "5 (C18)"
REPLAY = _AnyApiClause()
_OWN = re.compile(r"(graph_export#frame|^_eval_new_ctx#(ensures:analysis_completes_before_user_code|signals:(rejected_before_anything_runs|blobs_untouched|paths_untouched)))")


def owns(name, kind):
    return bool(_OWN.search(name))


def specs():
    return [api.eval_new_ctx()]


def lemmas():
    return syntactic.export_does_not_mutate_its_inputs()


def bounded(tier, seed, pr):
    from pyvc.boundedrun import run_bounded

    return [run_bounded(pr, "b_graph.py", "graph_vs_executable_spec")]
