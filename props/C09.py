"""C09 -- dds.load always sees the latest kept value and invalidates its readers."""
import re
from contracts import indirect, introspect_compose, api, inspect_call

ID = "C09"
LEVEL = "other"
EXPLANATION = (
    "Proved: one visit of the load/store pre-pass (all_loads.rec / all_stores.rec) skips a node iff that node was visited, marks it, collects its own loads / kept path and visits "
    "every child -- for every DAG node and every state of the traversal (the closure of these local facts is the reachable set). dds.load inside an evaluation that keeps the path returns "
    "blobs[requested_paths[p]] (the value kept by this evaluation) or a DDS error when the producer has not run; outside an evaluation it returns blobs[paths[p]]. "
    "READER: inspect_fun puts, for every path the function loads, the signature resolved for that path into the function's own signature (so a reader is re-evaluated exactly when the path serves "
    "another result). What a later load sees is what the latest evaluation committed: exactly the collected path -> signature map, overriding earlier bindings (commit clauses of _eval_new_ctx, shared with C04). Registration of kept paths for later loads and the placement matrix (top level / helper / kept function x producer before / after / earlier evaluation / never) are a bounded native check."
)
TRUSTED = ["A-ENGINE", "A-REC: the interaction structure is a finite DAG", "Store interface contract", "discovery of loads by the visitors (bounded)"]
ASSUMPTIONS = ["A-REC", "A-USER", "A-LOG"]
LEVEL_TEXT = "Deductive proof of the traversal step, of the run-time load in both situations and of the reader's signature composition; end-to-end placements are a bounded stand-in, hence 'other'."
DESIGN_REF = "5 (C09)"
REPLAY = {}
for _n in ("visited_node_is_skipped", "new_node_is_marked", "new_node_contributes_its_own_items", "every_child_of_a_new_node_is_visited", "nothing_is_forgotten"):
    for _f in ("all_loads", "all_stores"):
        REPLAY["FunctionIndirectInteractionUtils.%s.rec#ensures:%s" % (_f, _n)] = "h_load.traversal"
for _n in ("producer_has_run", "serves_the_value_kept_by_this_evaluation", "read_only"):
    REPLAY["load#ensures:" + _n] = "h_load.load_in_eval"
REPLAY["load#signals:only_if_read_before_produced_or_invalid_path"] = "h_load.load_in_eval"
REPLAY["load#signals:only_coded_dds_errors"] = "h_load.load_in_eval"
# what a later dds.load sees is what the latest evaluation committed: the commit clauses of _eval_new_ctx (shared with C04)
_COMMIT = re.compile(r"^_eval_new_ctx#ensures:(commit_\w+|commits_exactly_the_collected_paths|paths_overridden_by_collected)")
_OWN = re.compile(r"^(InspectFunction\.inspect_call#ensures:(kept_path_registered_for_later_loads|plain_call_registers_nothing|nothing_registered|kept_call_carries_its_store_path)|FunctionIndirectInteractionUtils\.|load#|InspectFunction\.inspect_fun#(ensures:(return_sig_covers_every_loaded_path_with_its_resolved_signature|result_loaded_paths)|assert|key_present))")


def owns(name, kind):
    return bool(_OWN.search(name) or _COMMIT.search(name))


class _Replay(dict):
    def get(self, key, default=None):
        if _COMMIT.search(key):
            return "h_api.trace_clause"
        return dict.get(self, key, default)


REPLAY = _Replay(REPLAY)


def specs():
    return [c() for c in indirect.SPECS] + [api.load_standalone(), api.eval_new_ctx()] + [c() for c in introspect_compose.SPECS] + [inspect_call.inspect_call()]


def bounded(tier, seed, pr):
    from pyvc.boundedrun import run_bounded

    return [run_bounded(pr, "b_load.py", "load_placements_and_producers")]
