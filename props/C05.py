"""C05 -- value hashing is total, deterministic and collision-free on supported values."""
from contracts import hashing, auth_type

ID = "C05"
LEVEL = "other"
EXPLANATION = (
    "Proved (unbounded, all values of the algebraic type PyVal): dds_hash._dds_hash0 returns spec_hash(elt) -- a function of the value and of "
    "hash.max_sequence_size only (determinism, pinned byte format) -- and raises only DDSException with the code spec_err(elt) names "
    "(TYPE_NOT_SUPPORTED iff an unsupported node is reached first, SEQUENCE_TOO_LONG iff a container exceeds the option); every partial operation "
    "(struct.pack ranges, attribute/str/len/iteration on the right constructor) is a discharged safety obligation; the five comprehensions are "
    "verified against comprehension contracts on the real body. Collision-freedom: injectivity lemmas over the pre-image shapes (see 'lemmas') "
    "and a bounded pairwise check on real CPython values (see 'bounded'). _is_authorized_type is proved to track exactly the documented value types (module variables of those types reach the value hash)."
)
TRUSTED = [
    "A-ENGINE: pyvc VC generator + z3/cvc5",
    "A-H1..A-H4 sha256 idealised (uninterpreted, injective where stated)",
    "A-UTF8, A-PACK: str.encode / struct.pack as uninterpreted injective functions with the 32-bit range precondition on '!l'",
    "A-REC: hashed values are finite trees (the recursive call's contract is used as induction hypothesis)",
    "PyVal abstraction of CPython values (tied to real objects by the bounded check)",
    "externals: hashlib.sha256, struct.pack, dataclasses.fields/is_dataclass, getattr, repr/str of dates and paths",
]
ASSUMPTIONS = ["A-H1", "A-H2", "A-H3", "A-H4", "A-UTF8", "A-PACK", "A-REC", "A-LOG", "hash.max_sequence_size is an int >= 0 (the option also admits None)"]
LEVEL_TEXT = ("Deductive proof of totality / determinism / pinned format of the real hashing function against a recursive spec function over the algebraic type of supported values, "
              "plus injectivity lemmas; the tie between the abstract value type and real CPython objects is a bounded check, so the level is 'other' with the parts counted separately.")
DESIGN_REF = "5 (C05)"
class _Replay(dict):
    def get(self, key, default=None):
        if key in self:
            return self[key]
        if key.startswith("dds_hash._dds_hash0#"):
            return "h_hash.twin_mismatch"
        if key.startswith("_is_authorized_type#"):
            return "h_evalctx.authorized_types"
        return default


REPLAY = _Replay({"dds_hash._dds_hash0#struct_pack_l_range": "h_hash.pack_range"})


def specs():
    # which module variables reach the value hash at all: the table of tracked value types (a supported value whose type
    # silently dropped out of the table would get one signature for all its values)
    return [c() for c in hashing.SPECS] + [c() for c in auth_type.SPECS]


def lemmas():
    from contracts import hash_lemmas

    return hash_lemmas.lemmas()


def bounded(tier, seed, pr):
    from pyvc.boundedrun import run_bounded

    return [run_bounded(pr, "b_hash.py", "spec_twin_and_pairwise_collisions")]
