"""C10 -- a failing user function is never cached and leaves dds and the store clean."""
from contracts import api, annotations
from ._api_common import TRUSTED_API, owner, _AnyApiClause

ID = "C10"
LEVEL = "proof"
EXPLANATION = (
    "Exceptional postconditions (signals clauses) of _eval (nested keep), _eval (top level) and _eval_new_ctx are proved on every path of the real AST: "
    "an exception raised by the user function propagates as the same object, no store_blob event follows the failing call, no sync_paths event occurs, the path map is unchanged, "
    "the store invariant INV is preserved (completed sub-results are genuine) and the `finally` block resets _eval_ctx to None without raising, so the next evaluation satisfies _eval_new_ctx's precondition. The wrappers installed by @data_function / @dds_function are proved to pass whatever keep raises untouched and to refuse arguments before anything runs."
)
TRUSTED = TRUSTED_API
ASSUMPTIONS = ["A-USER", "A-DET", "A-LOG", "A-FLOAT", "A-ALIAS"]
LEVEL_TEXT = "Deductive proof of the exceptional postconditions over an explicit effect trace, for every exception class (BaseException*) and every pre-state; the wrappers keep/eval/data_function contain no except clause (checked syntactically)."
DESIGN_REF = "5 (C10)"
REPLAY = _AnyApiClause()
owns = owner("C10")


def specs():
    return [c() for c in api.SPECS] + [c() for c in annotations.SPECS]


def lemmas():
    from contracts import syntactic

    return syntactic.no_except_in_wrappers()


def bounded(tier, seed, pr):
    from pyvc.boundedrun import run_bounded

    return [run_bounded(pr, "b_api.py", "native_scenarios_failure", args={"groups": ['failure']})]
