"""C13 -- a kept call's signature depends on the argument binding, not on its spelling."""
import re

from contracts import fun_args_ctx, arg_ctx_keys, inspect_call

ID = "C13"
LEVEL = "proof"
EXPLANATION = (
    "get_arg_ctx and get_arg_ctx_ast are proved (loop invariant over the parameter list, all signatures/arguments) to return, per parameter in "
    "inspect.signature order, the hash of the value Python binds to it: positional if given, else keyword, else the default. The result mentions nothing "
    "else, so every spelling of one binding yields the same entries (SPELL); literals seen in source hash exactly like the run-time value (STATIC=RUNTIME, also C02); "
    "bindings that differ at a parameter give different entries whenever dds_hash separates the two values (C05). FunctionArgContext.as_hashable (the key of the per-evaluation analysis cache) is exactly the pair (call-site context, entries in order), so two contexts share a cache entry only if they are equal; relevant_keys passes every entry to the signature when all hashes are known and the call-site context alone otherwise. At a keep call found in source (inspect_call) the argument context is built from that call's own positional arguments after (path, function) and its own keywords."
)
TRUSTED = [
    "A-ENGINE: pyvc VC generator + z3/cvc5",
    "inspect.signature(f).parameters abstracted as a sequence of records (name, kind, has_default, default)",
    "caller view of dds_hash = its verified contract (contracts/hashing.py): spec_hash(value) or a coded error",
    "OrderedDict(list of (name, hash)) keeps list order (parameter names are distinct)",
    "argument expressions seen in source are modelled as: Constant(value) | UnaryOp(op, operand) | any other node; which expressions denote which value is checked natively on 32 expressions (bounded complement)",
]
ASSUMPTIONS = ["A-REC", "A-LOG", "positional arguments do not exceed the parameters (Python rejects the call otherwise)"]
LEVEL_TEXT = "Deductive proof, for all parameter lists, argument tuples, keyword maps and default values, that the argument context is the parameter-wise hash of the binding."
DESIGN_REF = "5 (C13)"
class _Replay(dict):
    def get(self, key, default=None):
        if key.startswith("InspectFunction.inspect_call#"):
            return "h_args.call_site_histories"
        if "without_readable_signature" in key or "without_a_readable_signature" in key:
            return "h_args.unreadable_signature"
        return dict.get(self, key, default)


REPLAY = _Replay({
    "get_arg_ctx#loop0.preserve:entries_hash_the_binding": "h_args.falsy_default",
    "get_arg_ctx_ast#loop0.preserve:entries_hash_the_literal_binding": "h_args.static_vs_runtime",
})


_CALL_SITE = re.compile(r"^InspectFunction\.inspect_call#((ensures|signals):(argument_hashes_\w+|kept_call_passes\w+|plain_call_passes\w+)|args_index_in_range)")


def owns(name, kind):
    # of the call-site analysis only what decides WHICH written arguments enter the argument context of a kept call:
    # the call's own positional arguments after (path, function) and the call's own keywords, nothing else
    return not name.startswith("InspectFunction.inspect_call#") or bool(_CALL_SITE.search(name))


def specs():
    return [c() for c in fun_args_ctx.SPECS] + [c() for c in arg_ctx_keys.SPECS] + [c() for c in inspect_call.SPECS]


def bounded(tier, seed, pr):
    from pyvc.boundedrun import run_bounded

    return [run_bounded(pr, "b_args.py", "spellings_and_literal_expressions")]
