import re
from contracts import api, api_stages

TRUSTED_API = [
    "A-ENGINE: pyvc VC generator + z3/cvc5",
    "Store interface contract (DESIGN 4.2) at every _store() call site; each store class is verified against it separately (C08)",
    "A-USER: user functions touch dds state only through the public API (nested keeps only add blobs that keep INV)",
    "A-DET: user functions are deterministic (APP is a function of fun, args, kwargs)",
    "analysis functions (get_arg_ctx, introspect_indirect, introspect, all_loads, all_stores, all_store_paths, non_terminal_leaves, pprint_tree, draw_graph) are abstracted by their contracts: no user call, no store mutation (frame clause checked on the call graph), may raise",
    "signature soundness of introspect (VALUE_OF(root signature) == APP): the discovery layer, bounded stand-in only",
    "A-LOG, A-FLOAT (timing bookkeeping is an abstract effect)",
]

CLAUSES = {
    "C10": r"#(signals:(nothing_stored_for_failed_call|no_path_commit|paths_untouched|store_invariant_preserved|user_exception_propagates_unchanged|nothing_stored_for_failed_root|no_path_commit_on_failure|context_dropped|exception_of_evaluation_propagates_unchanged|exception_propagates_unchanged)|ensures:(context_dropped|eval_ctx_identity_kept)|attr_\w+_of_(None|optional)|frame:no_except_clause)|^(data_function|dds_function)\.decorator_\.wrapper#",
    "C15": r"(^_parse_stages#|#ensures:(dry_run_\w+|no_commit_stage_leaves_paths|delegates_once_with_same_call|returns_its_result)|#signals:only_stage_parsing_may_reject|^(LocalFileStore|MemoryStore|LRUCacheStore)\.(has_blob|fetch_blob|fetch_paths)#.*(read_only|view_unchanged))",
    "C01": r"(^_is_authorized_type#|^ObjectRetrieval\._retrieve_object_rec#(?!ensures:pinned_)|^ObjectRetrieval\.retrieve_object#|^_introspect_fun#ensures:|^_introspect_class#(ensures:|call:|loop)|^(data_function|dds_function)\.decorator_\.wrapper#ensures:|^InspectFunction\.inspect_call#((ensures|signals):(call_site_context\w+|argument_hashes_\w+|kept_call_passes\w+|plain_call_passes\w+|a_tracked_call_was_descended_into)|args_index_in_range|key_present|attr_\w+)|^FunctionInteractionsUtils\.all_store_paths#|^InspectFunction.inspect_fun#|^_build_return_sig#|^_fis_to_siglist#|^dds_hash_commut#)|#(ensures:(returns_value_of_plain_execution|store_invariant_preserved|stored_under_\w+|stored_value_is_result|store_after_user_call|delegates_to__eval_\w+)|key_present|assert|call:\w+:requires:\w+|index_in_range|iterate_over_None)",
    "C02": r"^InspectFunction.inspect_fun#ensures:(input_sig_has_no_body_deps_subcalls|return_sig_\w+|result_\w+)|^_build_return_sig#ensures|#ensures:(hit_runs_no_user_code|hit_leaves_blobs|miss_runs_user_code_once|miss_result_present_afterwards|kept_root_present_afterwards)",
    "C04": r"(^FunctionInteractionsUtils\.all_store_paths#ensures:(every_kept_node_has_its_path|only_kept_paths)|#ensures:(commit_\w+|commits_exactly_the_collected_paths|paths_overridden_by_collected|paths_untouched|no_path_commit)|#loop\d+\.(init|preserve):(selected_so_far|with_their_collected_signature)|^load#)",
    "C11": r"(^InspectFunction\.inspect_call#(ensures|signals):(descent_\w+|circular_call_\w+|eval_in_eval_\w+|must_be_rejected|rejected_with_the_corresponding_code|nothing_descended|code_matches_the_cause|untracked_call_descends_nowhere|at_most_one_descent|only_coded_dds_errors))|#(signals:(rejected_before_anything_runs|blobs_untouched|overlap_error_only_for_overlapping_paths|EVAL_IN_EVAL|nothing_ran|only_coded_dds_errors|rejected_before_any_user_code|eval_in_eval_only_without_path|only_path_validation_may_reject)|ensures:(overlap_check_ran_on_the_requested_paths|overlapping_paths_never_evaluated|analysis_completes_before_user_code|nested_eval_must_be_rejected)|frame:(no_store_mutation|no_reentry_into_evaluation_api|no_application_of_received_callables|roots_found|reachable_functions_counted))",
}


def owner(pid):
    rx = re.compile(CLAUSES[pid])
    return lambda name, kind: bool(rx.search(name))


def unowned_clauses():
    """debug helper: every api obligation must be owned by some property"""
    return [re.compile(v) for v in CLAUSES.values()]


API_REPLAY = {}
for _fn in ("_eval", "_eval_new_ctx", "keep", "eval", "load"):
    pass


class _AnyApiClause(dict):
    """every refuted obligation of the _api functions is replayed by the native scenario harness"""

    def get(self, key, default=None):
        if "one_signature_per_path" in key:
            return "h_api.same_path_twice"
        if key.startswith("_is_authorized_type#"):
            return "h_evalctx.authorized_types"
        if key.startswith("ObjectRetrieval._retrieve_object_rec#"):
            return "h_retrieve.resolution_cases"
        if key.startswith("ObjectRetrieval.retrieve_object#"):
            return "h_retrieve.retrieve_cases"
        if key.startswith("_introspect_class#"):
            return "h_class.base_class_cases"
        if key.split("#")[0] in ("_eval", "_eval_new_ctx", "keep", "eval", "load") or "#frame:no_except_clause" in key:
            return "h_api.trace_clause"
        return dict.get(self, key, default)
