"""C15 -- restricting the stages makes an evaluation a side-effect-free dry run."""
from contracts import api, api_stages, store_local, store_memory, lru
from ._api_common import TRUSTED_API, owner, _AnyApiClause

ID = "C15"
LEVEL = "proof"
EXPLANATION = '_parse_stages is proved equal to its specification for every list (None -> all five; otherwise the prefix of the stage order of length min(len, 5) iff each element names its phase as a string in any case or as the enum member; otherwise a DDSException, never a KeyError). On every path of _eval_new_ctx: EVAL not in stages => no user_call / store_blob / sync_paths event, result None, store view unchanged; PATH_COMMIT not in stages => no sync_paths event and the path map unchanged. The store operations a restricted evaluation still performs (has_blob, fetch_paths; fetch_blob on a hit) are proved read-only on the memory, local and cache-wrapped stores (file-system frame: nothing on disk changes).'
TRUSTED = TRUSTED_API
ASSUMPTIONS = ["A-USER", "A-DET", "A-LOG", "A-FLOAT", "A-ALIAS"]
LEVEL_TEXT = 'Deductive proof of the stage decoding (all lists, unbounded length, all element kinds) and of the effect-trace postconditions of the real _eval_new_ctx for every stage prefix.'
DESIGN_REF = "5 (C15)"
class _Replay(_AnyApiClause):
    def get(self, key, default=None):
        if key.startswith(("LocalFileStore.", "MemoryStore.", "LRUCacheStore.")):
            return "h_store.reads_leave_no_trace"
        return super().get(key, default)


REPLAY = _Replay()
owns = owner("C15")


def specs():
    # what a stage-restricted evaluation calls on the store are its read operations: their read-only frames carry the
    # "side-effect free" part of the property down to each concrete store
    reads = [store_local.Local_has_blob, store_local.Local_fetch_blob, store_local.Local_fetch_paths, store_memory.MemoryStore_has_blob, store_memory.MemoryStore_fetch_blob,
             store_memory.MemoryStore_fetch_paths, lru.LRUCacheStore_has_blob, lru.LRUCacheStore_fetch_blob]
    return [c() for c in api.SPECS] + [c() for c in api_stages.SPECS] + [c() for c in reads]


def bounded(tier, seed, pr):
    from pyvc.boundedrun import run_bounded

    return [run_bounded(pr, "b_api.py", "native_scenarios_dryrun", args={"groups": ['dryrun']}), run_bounded(pr, "b_reads.py", "reads_leave_no_trace")]
