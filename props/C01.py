"""C01 -- memoized evaluation returns exactly what plain execution would return."""
from contracts import api, api_stages, inspect_call, structures_utils, introspect_compose, sigs, auth_type, retrieve_rec, introspect_fun, introspect_class, annotations
from ._api_common import TRUSTED_API, owner, _AnyApiClause

ID = "C01"
LEVEL = "other"
EXPLANATION = 'Proved (SERVE): under the store invariant INV (every blob equals the value its key denotes) _eval and _eval_new_ctx return the value of plain execution on hit and on miss, store the result only after the user function returned, under the requested key, and preserve INV; keep/eval delegate unchanged. Name resolution (_retrieve_object_rec: which object a dotted name denotes and whether it is tracked) is proved over an abstract object graph; the rest of dependency discovery (which names a body refers to) is bounded.'
TRUSTED = TRUSTED_API
ASSUMPTIONS = ["A-USER", "A-DET", "A-LOG", "A-FLOAT", "A-ALIAS"]
LEVEL_TEXT = 'Deductive proof of cache-serve soundness over the store interface contract; signature composition is proved in the hashing contracts; dependency discovery (which no contract within reach can state for arbitrary programs) is a bounded stand-in.'
DESIGN_REF = "5 (C01)"
REPLAY = _AnyApiClause()
owns = owner("C01")


def specs():
    return [c() for c in api.SPECS] + [c() for c in structures_utils.SPECS] + [c() for c in introspect_compose.SPECS] + [c() for c in sigs.SPECS] + [c() for c in inspect_call.SPECS] + [c() for c in auth_type.SPECS] + [c() for c in retrieve_rec.SPECS] + [c() for c in introspect_fun.SPECS] + [c() for c in introspect_class.SPECS] + [c() for c in annotations.SPECS]


def bounded(tier, seed, pr):
    from pyvc.boundedrun import run_bounded

    return [run_bounded(pr, "b_corpus.py", "corpus_edits_value_and_sensitivity", args={"mode": "c01"}, timeout=1500)]
