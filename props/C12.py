"""C12 -- the in-memory object cache is invisible and bounded."""
from contracts import lru, set_store

ID = "C12"
LEVEL = "proof"
EXPLANATION = (
    "Every method of LRUCache and LRUCacheStore is verified against the representation invariant "
    "COH (every cached key is present in the wrapped store with the same object) and CAP (len(cache) <= capacity); "
    "each answer is proved equal to the wrapped store's interface answer, for all keys, values, capacities and pre-states."
)
TRUSTED = [
    "A-ENGINE: pyvc VC generator + z3/cvc5",
    "OrderedDict model: (dom, val, card) with move_to_end order-only, popitem removes one present key",
    "Store interface contract (DESIGN 4.2) for the wrapped store",
    "A-LOG: logging calls are effect free",
]
ASSUMPTIONS = ["A-ALIAS", "A-LOG", "wrapped store satisfies the FaithfulStore interface contract", "store_blob is content-addressed (precondition derived from both call sites)"]

class _Replay(dict):
    def get(self, key, default=None):
        if key in self:
            return self[key]
        if key.startswith("set_store#"):
            return "h_lru.cache_option"
        if "#signals:" in key and key.startswith(("LRUCacheStore.store_blob#", "LRUCacheStore.sync_paths#", "LRUCacheStore.fetch_blob#")):
            return "h_lru.faulty_inner"
        if key.startswith(("LRUCache.get#", "LRUCache.put#")):
            return "h_lru.retention_bound"
        if key.startswith("LRUCacheStore.") and "#ensures:" in key:
            return "h_lru.lockstep_readback"
        return default


REPLAY = _Replay({"LRUCacheStore.fetch_blob#ensures:COH_preserved": "h_lru.coh_after_fetch"})


def specs():
    return [c() for c in lru.SPECS] + [c() for c in set_store.CACHE_SPECS]

LEVEL_TEXT = ("Deductive proof, unbounded in keys, values, capacities and operation sequences: each public method of the cache and of the "
              "cache-wrapped store is proved (from its real AST) to preserve the representation invariant and to answer exactly as the wrapped store's interface contract; "
              "proof-level is right because the property is a data-structure invariant plus per-call functional postconditions.")
DESIGN_REF = "5 (C12)"
TECHNIQUE = "contract-based deductive verification (pyvc: AST -> VCs -> z3/cvc5), representation invariant COH+CAP"


def bounded(tier, seed, pr):
    from pyvc.boundedrun import run_bounded

    return [run_bounded(pr, "b_lru.py", "lockstep_with_bare_store")]
