"""C02 -- nothing is recomputed unless something it depends on changed."""
from contracts import api, api_stages, introspect_compose, sigs
from ._api_common import TRUSTED_API, owner, _AnyApiClause

ID = "C02"
LEVEL = "other"
EXPLANATION = 'Proved: when the blob for the key of a kept call (root or nested) is present, no user function body runs and the store is left as it is; after a completed evaluation the keys of the root and of every reached keep are present (so an unchanged pipeline is all hits). The dependence of the key on the dependency cone is the signature layer (see hashing clauses) and the discovery layer (bounded).'
TRUSTED = TRUSTED_API
ASSUMPTIONS = ["A-USER", "A-DET", "A-LOG", "A-FLOAT", "A-ALIAS"]
LEVEL_TEXT = 'Deductive proof of the hit/miss postconditions over the effect trace; signature-layer clauses are proved in the hashing contracts; discovery is a bounded stand-in (labelled, not counted).'
DESIGN_REF = "5 (C02)"
REPLAY = _AnyApiClause()
owns = owner("C02")


def specs():
    return [c() for c in api.SPECS] + [c() for c in introspect_compose.SPECS] + [c() for c in sigs.SPECS]


def bounded(tier, seed, pr):
    from pyvc.boundedrun import run_bounded

    return [run_bounded(pr, "b_corpus.py", "corpus_edits_reexecution_only_in_cone", args={"mode": "c02"}, timeout=1500), run_bounded(pr, "b_api.py", "native_scenarios_hit", args={"groups": ["hit"]})]
