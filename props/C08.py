"""C08 -- stores round-trip blobs and paths; distinct paths never alias or escape."""
from contracts import store_memory, store_local, lru, locations

ID = "C08"
LEVEL = "other"
EXPLANATION = (
    "Proved (unbounded in keys, paths, values, pre-states, hence in operation sequences): every method of MemoryStore, of the cache-wrapped store and of "
    "LocalFileStore (over the file-system model, through the abstraction blobs[k] = decode(meta, blob file), paths[p] = key of the blob the link resolves to) "
    "meets the Store interface contract and preserves its representation invariant: RT-BLOB, RT-PATH, frames (other keys / paths / the blob area untouched). "
    "The local store's path proofs use the hypothesis LOC-INJ; the location lemmas LOC-INJ and LOC-INSIDE over the segments view are refuted for the current code "
    "(recorded findings). A bounded check drives the real stores on raw path strings against a dictionary model."
)
TRUSTED = [
    "A-ENGINE: pyvc VC generator + z3/cvc5",
    "A-FS: file-system model (kind/content/complete/target maps, tree-shaped name space, one level of link resolution, atomic syscalls)",
    "externals: os.path.join/split/exists/isdir/realpath, os.makedirs/remove/symlink, open/read/write, json.dumps/load, str.replace",
    "A-LIB: codec encode/decode round trip (str/bytes verbatim proved in C17)",
    "configuration preconditions: data area and blob area disjoint; committed keys have their blob (C04 COMMIT-PRESENT); no path is a directory of another committed path",
    "hypothesis LOC-INJ in LocalFileStore.sync_paths (refuted by the location lemma: open finding)",
]
ASSUMPTIONS = ["A-FS", "A-LIB", "A-ALIAS", "A-LOG", "LOC-INJ (hypothesis; refuted, open finding)", "internal_dir absolute (hypothesis of LINK-RESOLVES; discharged by the constructor, C16)"]
LEVEL_TEXT = ("Deductive proof of representation invariants and round-trip/frame postconditions of every store method (so: all operation sequences), with the location-function lemmas decided separately; "
              "two lemmas are refuted on the current code (open findings), and raw path strings are covered by a bounded stand-in, hence 'other'.")
DESIGN_REF = "5 (C08)"
class _Replay(dict):
    def get(self, key, default=None):
        if key in self:
            return self[key]
        if key.startswith(("LocalFileStore.store_blob#", "LocalFileStore.fetch_blob#", "LocalFileStore.has_blob#")):
            return "h_store.store_ops"
        if key.startswith("LocalFileStore.fetch_paths#"):
            return "h_store.reads_leave_no_trace"
        if key.startswith(("MemoryStore.has_blob#", "MemoryStore.fetch_blob#", "MemoryStore.store_blob#")):
            return "h_store.memory_ops"
        return default


REPLAY = _Replay({
    "LocalFileStore.location#LOC-INJ": "h_store.loc_inj",
    "LocalFileStore.location#LOC-INSIDE": "h_store.loc_inside",
})


def specs():
    return [c() for c in store_memory.SPECS] + [c() for c in store_local.SPECS] + [c() for c in lru.SPECS if c.__name__.startswith("LRUCacheStore")]


def lemmas():
    return locations.lemmas()


def bounded(tier, seed, pr):
    from pyvc.boundedrun import run_bounded

    return [run_bounded(pr, "b_store.py", "store_sequences_vs_dict_model"), run_bounded(pr, "b_reads.py", "reads_leave_no_trace"), run_bounded(pr, "b_leftovers.py", "store_blob_from_leftover_states")]
