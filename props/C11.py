"""C11 -- ill-formed evaluations are rejected before anything runs."""
from contracts import api, api_stages, inspect_call, overlap
from ._api_common import TRUSTED_API, owner, _AnyApiClause

ID = "C11"
LEVEL = "other"
EXPLANATION = "Proved: every path of _eval_new_ctx that raises anything but the user's own exception has no user_call and no store_blob / sync_paths event and leaves blobs and paths unchanged; OVERLAPPING_PATH is raised exactly when non_terminal_leaves reports an overlap, and an evaluation with overlapping paths never reaches the first user call; a nested dds.eval is rejected with EVAL_IN_EVAL before anything runs. Frame clause on the real call graph: nothing reachable from the analysis entry points calls a store mutator, re-enters the evaluation API or applies a received callable. non_terminal_leaves itself (the overlap check): for every list of pairwise distinct paths, below a prefix and at the top level, the result is non-empty exactly when some path is a proper segment-prefix of another one (the root path included) -- loop invariant over the groups, the recursive call by its contract, sorted + groupby by their contract (distinct group keys only because the list is sorted by the grouping key), paths as an uninterpreted segment algebra."
TRUSTED = TRUSTED_API + ["segment algebra of paths (ROOT, HEAD, TAIL) = what DDSPathUtils.split computes on the strings (string level: bounded check); contract of sorted(key=first) + itertools.groupby(first): groups partition the input, one group per key", "A-REC: induction on the length of the longest path for the recursive call of non_terminal_leaves"]
ASSUMPTIONS = ["A-USER", "A-DET", "A-LOG", "A-FLOAT", "A-ALIAS"]
LEVEL_TEXT = 'Deductive proof of the rejection-before-effects postconditions plus a call-graph effect analysis of the analysis stage; the prefix-overlap function is proved over a segment algebra of paths (its string-level splitting, and cycles / nested evaluations that are only reachable through name resolution, are bounded stand-ins), hence other.'
DESIGN_REF = "5 (C11)"
_owner = owner("C11")


def owns(name, kind):
    return name.startswith("FunctionInteractionsUtils.non_terminal_leaves#") or _owner(name, kind)


class _Replay(_AnyApiClause):
    def get(self, key, default=None):
        if key.startswith("FunctionInteractionsUtils.non_terminal_leaves#"):
            return "h_api.overlap_sets"
        return _AnyApiClause.get(self, key, default)


REPLAY = _Replay()


def specs():
    return [c() for c in api.SPECS] + [c() for c in inspect_call.SPECS] + [c() for c in overlap.SPECS]


def lemmas():
    from contracts import syntactic

    return syntactic.analysis_is_effect_free()


def bounded(tier, seed, pr):
    from pyvc.boundedrun import run_bounded

    return [run_bounded(pr, "b_overlap.py", "prefix_overlap_detection"), run_bounded(pr, "b_api.py", "native_scenarios_reject", args={"groups": ['reject']})]
