"""C19 -- the DBFS store honours its commit type and keeps legacy blobs readable."""
import re
from contracts import set_store, dbfs

ID = "C19"
LEVEL = "other"
EXPLANATION = (
    "Proved: set_store('dbfs', commit_type=c) selects, for every documented spelling (None, 'none', 'links_only', 'full', any case; also the enumeration names), the commit type it documents, "
    "and any other value is a coded DDS error -- no KeyError (all strings, via an uninterpreted str.upper that is idempotent and agrees with CPython on the literals). "
    "DBFSStore.__init__ binds each legacy reference dbfs.<kind> to the codec of the same kind (ALIAS). "
    "The commit-type dependent path sync (full copy + redirect record / record only / nothing), presence-by-metadata and keep/load under the three types are checked natively against an in-process fake of dbutils.fs (bounded part)."
)
TRUSTED = ["A-ENGINE", "str.upper abstracted (idempotent, literal table)", "A-DBU: in-process fake of dbutils.fs (head/put/cp/rm) in the bounded part; pyspark paths not exercised"]
ASSUMPTIONS = ["A-DBU", "A-LOG"]
LEVEL_TEXT = "Deductive proof of the option decoding and of the legacy alias table; the commit-type semantics of sync_paths over dbutils are a bounded stand-in against a fake, hence 'other'."
DESIGN_REF = "5 (C19)"
REPLAY = {
    "set_store#enum_name": "h_dbfs.commit_type_names",
    "set_store#table_key_present": "h_dbfs.commit_type_names",
    "set_store#signals:documented_commit_types_are_accepted": "h_dbfs.commit_type_names",
    "set_store#signals:only_coded_dds_errors": "h_dbfs.commit_type_names",
    "DBFSStore.__init__#ensures:legacy_alias_dbfs_pickle_denotes_the_pickle_codec": "h_dbfs.alias_kinds",
    "DBFSStore.__init__#ensures:legacy_alias_dbfs_bytes_denotes_the_bytes_codec": "h_dbfs.alias_kinds",
    "DBFSStore.__init__#ensures:legacy_alias_dbfs_string_denotes_the_string_codec": "h_dbfs.alias_kinds",
}


def specs():
    return [c() for c in set_store.DBFS_SPECS] + [c() for c in dbfs.SPECS]


def bounded(tier, seed, pr):
    from pyvc.boundedrun import run_bounded

    return [run_bounded(pr, "b_dbfs.py", "dbfs_against_fake_dbutils")]
