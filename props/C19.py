"""C19 -- the DBFS store honours its commit type and keeps legacy blobs readable."""
import re
from contracts import set_store, dbfs, dbfs_store

ID = "C19"
LEVEL = "other"
EXPLANATION = (
    "Proved: set_store('dbfs', commit_type=c) selects, for every documented spelling (None, 'none', 'links_only', 'full', any case; also the enumeration names), the commit type it documents, "
    "and any other value is a coded DDS error -- no KeyError (all strings, via an uninterpreted str.upper that is idempotent and agrees with CPython on the literals). "
    "DBFSStore.__init__ binds each legacy reference dbfs.<kind> to the codec of the same kind (ALIAS). "
    "DBFSStore.sync_paths over a map model of dbutils.fs (loop invariant, all path sets): 'none' writes nothing; otherwise every committed path has a record naming its key, 'full' also a byte-identical copy of the blob, 'links only' no object; "
    "other paths, the blob area and everything else are untouched; records stay well-formed. fetch_paths resolves each path to the key of its record and has no effect; has_blob is presence of the metadata object; "
    "_head/_put/_fetch_meta are verified against the contracts their callers use. store_blob writes the selected codec's encoding, then the metadata naming that codec's reference (metadata last), nothing else; "
    "fetch_blob decodes the blob object with the codec the metadata's reference denotes (legacy references through the alias table) and has no effect; a later fetch of a stored value returns it (codec round trip assumed, A-LIB). "
    "Concrete codecs, pyspark blobs and keep/load end to end under the three types (and all 81 histories of commit types over the same directories) are checked natively against an in-process fake of dbutils.fs (bounded part)."
)
TRUSTED = ["A-ENGINE", "str.upper abstracted (idempotent, literal table)", "A-DBU: dbutils.fs as a map URI -> content with head/put/cp/rm (contracts/dbfs_store.py) in the proofs, an in-process fake with the same behaviour in the bounded part; pyspark blobs assumed away",
           "LAYOUT-INJ (hypothesis): record / object / blob / metadata locations are injective in path resp. key and pairwise disjoint; _physical_path, _blob_path, _blob_meta_path are layout definitions", "A-LIB: json.loads(json.dumps(x)) == x"]
ASSUMPTIONS = ["A-DBU", "A-LOG", "A-LIB", "LAYOUT-INJ (hypothesis)", "no pyspark blob (assumed away)"]
LEVEL_TEXT = "Deductive proof of the option decoding, the legacy alias table and the commit-type semantics of sync_paths / fetch_paths / has_blob over a map model of dbutils.fs; blob round trips through codecs and the end-to-end behaviour are a bounded stand-in against a fake, hence 'other'."
DESIGN_REF = "5 (C19)"
class _Replay(dict):
    def get(self, key, default=None):
        if key in self:
            return self[key]
        if key.startswith(("DBFSStore.store_blob#", "DBFSStore.fetch_blob#", "DBFSStore.has_blob#", "DBFSStore._fetch_meta#")):
            return "h_dbfs.blob_ops"
        if key.startswith(("DBFSStore.sync_paths#", "DBFSStore.fetch_paths#", "DBFSStore.store_blob#", "DBFSStore.fetch_blob#", "DBFSStore._put#", "DBFSStore._head#", "DBFSStore.has_blob#", "DBFSStore._fetch_meta#")):
            return "h_dbfs.commit_type_history"
        return default


REPLAY = _Replay({
    "set_store#enum_name": "h_dbfs.commit_type_names",
    "set_store#table_key_present": "h_dbfs.commit_type_names",
    "set_store#signals:documented_commit_types_are_accepted": "h_dbfs.commit_type_names",
    "set_store#signals:only_coded_dds_errors": "h_dbfs.commit_type_names",
    "DBFSStore.__init__#ensures:legacy_alias_dbfs_pickle_denotes_the_pickle_codec": "h_dbfs.alias_kinds",
    "DBFSStore.__init__#ensures:legacy_alias_dbfs_bytes_denotes_the_bytes_codec": "h_dbfs.alias_kinds",
    "DBFSStore.__init__#ensures:legacy_alias_dbfs_string_denotes_the_string_codec": "h_dbfs.alias_kinds",
})


def specs():
    return [c() for c in set_store.DBFS_SPECS] + [c() for c in dbfs.SPECS] + [c() for c in dbfs_store.SPECS]


def bounded(tier, seed, pr):
    from pyvc.boundedrun import run_bounded

    return [run_bounded(pr, "b_dbfs.py", "dbfs_against_fake_dbutils")]
