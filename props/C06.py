"""C06 -- a process killed at any instant never leaves a store that serves wrong data."""
import re
from contracts import store_local

ID = "C06"
LEVEL = "other"  # the bounded kill injection is part of the check
EXPLANATION = (
    "Crash Hoare logic in miniature over the file-system model: after EVERY file-system effect on EVERY path through LocalFileStore.store_blob (codec write included) and "
    "LocalFileStore.sync_paths the engine emits the crash condition Recoverable: (R1) every blob the recovery process would report present is a complete file with complete, registered metadata; "
    "(R3) every path committed before still resolves to a complete blob, its old one or the new one. On the pinned code R1 was refuted after open/write/close of the blob file and R3 after os.remove; both were repaired (temporary names + os.replace, "
    "two fix commits) and every crash condition is now proved. "
    "A native kill -9 injection at every effect boundary (bounded part) replays these and checks re-runnability."
)
TRUSTED = ["A-ENGINE", "A-FS: each syscall-level effect is atomic and durable once returned (no fsync modelling); writes are split in two halves natively", "codec writes = open, write, close on the given location"]
ASSUMPTIONS = ["A-FS", "A-LIB", "LOC-INJ (hypothesis, see C08)"]
LEVEL_TEXT = "Deductive crash conditions after each effect (symbolic enumeration of crash points) with residual obligations around the recorded findings, plus bounded native kill injection; 'other' because of the open findings and the bounded part."
DESIGN_REF = "5 (C06)"
REPLAY = {}
_OWN = re.compile(r"#crash_after:")


def owns(name, kind):
    return bool(_OWN.search(name))


def specs():
    return [c() for c in store_local.CRASH_SPECS]


def bounded(tier, seed, pr):
    from pyvc.boundedrun import run_bounded

    return [run_bounded(pr, "b_crash.py", "kill_injection", timeout=1500)]
