"""C04 -- a committed path serves the value of the latest evaluation that kept it."""
from contracts import api, api_stages, structures_utils
from ._api_common import TRUSTED_API, owner, _AnyApiClause

ID = "C04"
LEVEL = "other"
EXPLANATION = "Proved: on normal exit with PATH_COMMIT in stages there is exactly one sync_paths event, it is the last store effect, comes after the root was evaluated or fetched, and passes exactly the map collected by all_store_paths (the map _eval reads keys from); by the interface contract paths' == paths (+) m, which gives both 're-keep replaces' and 'other paths retain their content'. dds.load outside an evaluation returns blobs[paths[p]]."
TRUSTED = TRUSTED_API
ASSUMPTIONS = ["A-USER", "A-DET", "A-LOG", "A-FLOAT", "A-ALIAS"]
LEVEL_TEXT = 'Deductive proof of the single-commit postcondition and of standalone load over the store interface contract; per-store refinement is C08.'
DESIGN_REF = "5 (C04)"
REPLAY = _AnyApiClause()
owns = owner("C04")


def specs():
    return [c() for c in api.SPECS] + [c() for c in structures_utils.SPECS]


def bounded(tier, seed, pr):
    from pyvc.boundedrun import run_bounded

    return [run_bounded(pr, "b_api.py", "native_scenarios_commit", args={"groups": ['commit']}), run_bounded(pr, "b_commit.py", "latest_kept_value_on_every_store_kind"), run_bounded(pr, "b_leftovers.py", "store_blob_from_leftover_states")]
