"""C14 -- exactly the accepted modules are tracked."""
from contracts import eval_ctx, auth_type, retrieve_rec

ID = "C14"
LEVEL = "other"
EXPLANATION = (
    "Proved (unbounded): EvalMainContext.is_authorized_path answers True exactly when some dotted prefix of the canonical path is in the "
    "accepted set, for every path depth and every size of the accepted set; accept_module adds exactly the module's name; _is_authorized_type tracks exactly the documented value types (27 classes x symbolic options and registry: scalars, paths, functions, modules always; list / tuple and dict / OrderedDict under their option; any other class never -- a coded error when its module is accepted). "
    "ObjectRetrieval._retrieve_object_rec (the authorized / external classification of a resolved name) is proved, over an abstract object graph and with the recursive call used by contract (partial correctness), to track an object only under an accepted path (S1), to follow a module attribute whatever module it is, to resolve a function / class defined elsewhere in its defining module under its own name, to track every terminal function / class / tracked value of an accepted path and nothing else, and to report a missing name as a coded error; ObjectRetrieval.retrieve_object (cache, import fall-back, start globals) is proved to answer, hit or miss, what the uncached call answers, to keep its per-evaluation cache coherent and to track only under an accepted path; three adequacy lemmas compose these clauses into 'an accepted function is tracked through any re-export and any module chain, a non-accepted one never'. "
    "Bounded stand-in (not proof): discovery (which names a function body refers to) and the influence of edits on both sides of the boundary "
    "are checked on generated package trees (see 'bounded'): package chain of depth 6, accepted prefix at every depth, six import forms (incl. an accepted function re-exported by a non-accepted module), an edit of a function / variable at every level in a fresh process -- a caller's signature changes iff the edited module is accepted; a data function of a non-accepted module is refused with an error naming the module."
)
TRUSTED = [
    "A-ENGINE: pyvc VC generator + z3/cvc5",
    "abstraction: '.'.join(parts[:k]) is an uninterpreted function of (parts, min(k, len(parts)))",
    "set model: membership array + cardinality",
    "abstract Python object graph for name resolution: kind predicates, module dictionaries, mod_path / function_path / __name__ / inspect.getmodule as uninterpreted functions; is_authorized_path and _is_authorized_type by their contracts",
]
ASSUMPTIONS = ["A-ALIAS", "A-LOG", "A-NAMES: the parts of a local path are identifiers (no '/' and no '.' component), so parts[1:] re-parsed as a path is parts[1:]", "the recursion of _retrieve_object_rec terminates (its contract is used as induction hypothesis; termination is not proved)"]
LEVEL_TEXT = ("Deductive proof of the prefix-match and registration functions for all inputs (loop invariant + exit obligation), plus a bounded "
              "relational check of the discovery layer, which no contract within reach can state for arbitrary programs; hence 'other', with proved and bounded parts counted separately in the evidence.")
DESIGN_REF = "5 (C14)"

class _Replay(dict):
    def get(self, key, default=None):
        if key.startswith("_is_authorized_type#"):
            return "h_evalctx.authorized_types"
        if key.startswith("ObjectRetrieval._retrieve_object_rec#"):
            return "h_retrieve.resolution_cases"
        if key.startswith("ObjectRetrieval.retrieve_object#"):
            return "h_retrieve.retrieve_cases"
        return dict.get(self, key, default)


REPLAY = _Replay({
    "EvalMainContext.is_authorized_path#ensures:authorized_iff_some_prefix_accepted": "h_evalctx.authorized_prefix",
})


def owns(name, kind):
    # the exact None / ExternalObject answer for an untracked name does not move the boundary (it is pinned under C03)
    return "#ensures:pinned_" not in name


def specs():
    return [c() for c in eval_ctx.SPECS] + [c() for c in auth_type.SPECS] + [c() for c in retrieve_rec.SPECS]


def lemmas():
    return retrieve_rec.lemmas()


def bounded(tier, seed, pr):
    from pyvc.boundedrun import run_bounded

    return [run_bounded(pr, "b_accept.py", "accept_registry_and_prefix_match"), run_bounded(pr, "b_boundary.py", "edits_on_both_sides_of_the_boundary"), run_bounded(pr, "b_retrieve.py", "resolution_vs_case_table", args={"mode": "tracking"})]
