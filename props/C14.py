"""C14 -- exactly the accepted modules are tracked."""
from contracts import eval_ctx, auth_type

ID = "C14"
LEVEL = "other"
EXPLANATION = (
    "Proved (unbounded): EvalMainContext.is_authorized_path answers True exactly when some dotted prefix of the canonical path is in the "
    "accepted set, for every path depth and every size of the accepted set; accept_module adds exactly the module's name; _is_authorized_type tracks exactly the documented value types (27 classes x symbolic options and registry: scalars, paths, functions, modules always; list / tuple and dict / OrderedDict under their option; any other class never -- a coded error when its module is accepted). "
    "Bounded stand-in (not proof): the classification of resolved objects and the influence of edits on both sides of the boundary "
    "are checked on generated package trees (see 'bounded'): package chain of depth 6, accepted prefix at every depth, six import forms (incl. an accepted function re-exported by a non-accepted module), an edit of a function / variable at every level in a fresh process -- a caller's signature changes iff the edited module is accepted; a data function of a non-accepted module is refused with an error naming the module."
)
TRUSTED = [
    "A-ENGINE: pyvc VC generator + z3/cvc5",
    "abstraction: '.'.join(parts[:k]) is an uninterpreted function of (parts, min(k, len(parts)))",
    "set model: membership array + cardinality",
]
ASSUMPTIONS = ["A-ALIAS", "A-LOG"]
LEVEL_TEXT = ("Deductive proof of the prefix-match and registration functions for all inputs (loop invariant + exit obligation), plus a bounded "
              "relational check of the discovery layer, which no contract within reach can state for arbitrary programs; hence 'other', with proved and bounded parts counted separately in the evidence.")
DESIGN_REF = "5 (C14)"

class _Replay(dict):
    def get(self, key, default=None):
        if key.startswith("_is_authorized_type#"):
            return "h_evalctx.authorized_types"
        return dict.get(self, key, default)


REPLAY = _Replay({
    "EvalMainContext.is_authorized_path#ensures:authorized_iff_some_prefix_accepted": "h_evalctx.authorized_prefix",
})


def specs():
    return [c() for c in eval_ctx.SPECS] + [c() for c in auth_type.SPECS]


def bounded(tier, seed, pr):
    from pyvc.boundedrun import run_bounded

    return [run_bounded(pr, "b_accept.py", "accept_registry_and_prefix_match"), run_bounded(pr, "b_boundary.py", "edits_on_both_sides_of_the_boundary")]
