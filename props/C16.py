"""C16 -- every usable local-store configuration works; data dirs are independent views."""
import re
from contracts import store_local, set_store

ID = "C16"
LEVEL = "other"
EXPLANATION = (
    "Proved over the file-system model: for any usable internal_dir / data_dir (absolute or relative, existing or not; 'usable' = whatever exists along them is a directory) "
    "the constructor leaves the three directories in place, raises nothing, and works with absolute locations (LINK-RESOLVES: link targets resolve from the link's directory and from any "
    "later working directory); with an absolute internal directory sync_paths makes every committed path resolve to its blob (both branches of the up-to-date test) and fetch_paths reads it back; "
    "the blob view depends on the internal directory only and the path view on the data directory only (VIEWS: the abstraction functions mention nothing else), so two stores on one internal directory "
    "share blobs and keep independent path maps. Configurations (trailing separators, symlinked parents, cwd changes, two data views) are also exercised natively by a bounded check."
)
TRUSTED = [
    "A-ENGINE: pyvc VC generator + z3/cvc5",
    "A-FS file-system model; os.path.abspath returns an absolute name of the same entry",
    "store_local contracts' configuration preconditions (areas disjoint)",
]
ASSUMPTIONS = ["A-FS", "A-LOG", "LOC-INJ (hypothesis, see C08)"]
LEVEL_TEXT = "Deductive proof of the constructor and of the link construction over the file-system model for all usable configurations, plus a bounded native check of concrete configurations; 'other' because the option decoding and symlinked parents are only in the bounded part."
DESIGN_REF = "5 (C16)"
REPLAY = {
    "LocalFileStore.__init__#ensures:link_targets_are_absolute": "h_store.relative_internal_dir",
    "LocalFileStore.__init__#ensures:path_locations_survive_a_change_of_working_directory": "h_store.relative_internal_dir",
}
_OWN = re.compile(r"^(LocalFileStore\.(__init__|sync_paths|fetch_paths)#|set_store#)")


def owns(name, kind):
    return bool(_OWN.search(name))


def specs():
    return [store_local.Local_init(), store_local.Local_sync_paths(), store_local.Local_fetch_paths()] + [c() for c in set_store.CACHE_SPECS]


def bounded(tier, seed, pr):
    from pyvc.boundedrun import run_bounded

    return [run_bounded(pr, "b_config.py", "local_store_configurations")]
