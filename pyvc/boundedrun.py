"""Run a bounded stand-in (a script under /verif/bounded executed by /venv/bin/python on the real code)."""
import json
import os
import subprocess
import time

from .check import VERIF, REPO, VENV_PY, load_known


def run_bounded(pr, script, name, args=None, timeout=900):
    env = dict(os.environ)
    env["PYTHONPATH"] = REPO + os.pathsep + VERIF
    env["PYTHONDONTWRITEBYTECODE"] = "1"
    payload = {"tier": pr.tier, "seed": pr.seed, "args": args or {}, "known": [k for k in load_known() if k["property"] == pr.pid and k.get("status") == "open"], "repo": REPO}
    t0 = time.time()
    try:
        p = subprocess.run([VENV_PY, os.path.join(VERIF, "bounded", script)], input=json.dumps(payload), capture_output=True, text=True, timeout=timeout, env=env, cwd=VERIF)
        out = json.loads(p.stdout.strip().split("\n")[-1])
    except subprocess.TimeoutExpired:
        pr.errors.append("bounded check %s timed out" % name)
        return {"name": name, "label": "bounded", "evaluations": 0, "distinct_nontrivial": 0, "error": "timeout"}
    except Exception as e:
        pr.errors.append("bounded check %s crashed: %s %s" % (name, e, (p.stderr or "")[-800:] if "p" in dir() else ""))
        return {"name": name, "label": "bounded", "evaluations": 0, "distinct_nontrivial": 0, "error": "crash"}
    out["name"] = name
    out["label"] = "bounded (stated scope; never counted as proved)"
    out["wall_s"] = round(time.time() - t0, 2)
    vio = []
    d = os.path.join(VERIF, "replays", pr.pid)
    os.makedirs(d, exist_ok=True)
    for i, v in enumerate(out.get("violations", [])[:5]):
        path = os.path.join(d, "bounded_%s_%d.json" % (name, i))
        with open(path, "w") as f:
            json.dump({"property": pr.pid, "bounded_check": name, "failing_input": v, "replay": "bounded/%s re-runs this input" % script}, f, indent=1, default=str)
        vio.append({"name": name + ":" + str(v.get("what", ""))[:80], "replay": os.path.relpath(path, VERIF)})
    out["n_violations"] = len(out.get("violations", []))
    out["violations"] = vio
    return out
