"""Symbolic values and their types.

Two layers:
  * term values  `Sym(term, ty)` -- a z3 term with a type descriptor `Ty`;
  * composite values -- Python-side structures holding term values: `MapVal`
    (dict / OrderedDict / set), `ObjVal` (instances with fields), Python
    lists / tuples of values (concrete length), closures, concrete Python
    objects (enum members, classes, constants).
Containers are mutable boxes so that Python reference semantics (two names for
one list) is kept on the Python side; nothing mutable is ever stored inside a z3
term (assumption A-ALIAS, DESIGN 4.5).
"""
import itertools
import z3

_counter = itertools.count()


def fresh_name(base):
    return "%s!%d" % (base, next(_counter))


class Ty:
    name = "?"

    def sort(self):
        raise NotImplementedError

    def fresh(self, base):
        return Sym(z3.Const(fresh_name(base), self.sort()), self)

    def const(self, name):
        return Sym(z3.Const(name, self.sort()), self)

    def wrap(self, term):
        return Sym(term, self)

    def lift(self, v):
        """Turn a concrete Python value (or a Sym of this type) into a Sym of this type."""
        if isinstance(v, Sym):
            if v.ty == self or v.term.sort() == self.sort():
                return Sym(v.term, self)
            if isinstance(self, TOpt) and v.term.sort() == self.inner.sort():
                return Sym(self.some(v.term), self)
            if isinstance(v.ty, TOpt) and v.ty.inner.sort() == self.sort():
                # an Optional used where its payload is needed (callers are under an `is not None` test)
                return Sym(v.ty.val(v.term), self)
            raise TypeError("cannot lift %r to %s" % (v, self))
        return self._lift(v)

    def _lift(self, v):
        raise TypeError("cannot lift python value %r to %s" % (v, self))

    def invariant(self, term):
        """Type invariant of a fresh symbol (list of z3 Bool)."""
        return []

    def __eq__(self, o):
        return type(self) is type(o) and self.key() == o.key()

    def __hash__(self):
        return hash((type(self).__name__, self.key()))

    def key(self):
        return ()

    def __repr__(self):
        return self.name


class _TInt(Ty):
    name = "int"

    def sort(self):
        return z3.IntSort()

    def _lift(self, v):
        if isinstance(v, bool):
            return Sym(z3.IntVal(1 if v else 0), self)
        if isinstance(v, int):
            return Sym(z3.IntVal(v), self)
        raise TypeError(v)


class _TBool(Ty):
    name = "bool"

    def sort(self):
        return z3.BoolSort()

    def _lift(self, v):
        if isinstance(v, bool):
            return Sym(z3.BoolVal(v), self)
        raise TypeError(v)


class _TStr(Ty):
    name = "str"

    def sort(self):
        return z3.StringSort()

    def _lift(self, v):
        if isinstance(v, str):
            return Sym(z3.StringVal(v), self)
        raise TypeError(v)


TInt, TBool, TStr = _TInt(), _TBool(), _TStr()

_un_sorts = {}
_lit_cache = {}


class TUn(Ty):
    """Uninterpreted sort.  `none` = True gives the sort a distinguished constant that models
    Python's None (used for values of type Any / Optional[opaque])."""

    def __init__(self, name, none=False):
        self.name = name
        self.has_none = none
        if name not in _un_sorts:
            _un_sorts[name] = z3.DeclareSort(name)
        self._sort = _un_sorts[name]

    def key(self):
        return (self.name,)

    def sort(self):
        return self._sort

    def none_term(self):
        return z3.Const("py_none_" + self.name, self._sort)

    def _lift(self, v):
        if v is None and self.has_none:
            return Sym(self.none_term(), self)
        if isinstance(v, str):
            # concrete strings map to named constants (pairwise distinctness is stated by the contract)
            c = _lit_cache.get((self.name, v))
            if c is None:
                c = _lit_cache[(self.name, v)] = Sym(z3.Const("lit_%s_%s" % (self.name, v), self._sort), self)
            return c
        raise TypeError("cannot lift %r into %s" % (v, self.name))


_dt_cache = {}


def _sort_name(s):
    return str(s).replace(" ", "_").replace("(", "_").replace(")", "_")


class TOpt(Ty):
    def __init__(self, inner):
        self.inner = inner
        self.name = "Optional[%s]" % inner.name
        k = ("opt", inner.sort())
        if k not in _dt_cache:
            n = _sort_name(inner.sort())
            d = z3.Datatype("Opt_" + n)
            d.declare("none_" + n)
            d.declare("some_" + n, ("val_" + n, inner.sort()))
            _dt_cache[k] = d.create()
        self.dt = _dt_cache[k]
        self._n = _sort_name(inner.sort())

    def key(self):
        return (self.inner,)

    def sort(self):
        return self.dt

    def none(self):
        return getattr(self.dt, "none_" + self._n)

    def some(self, t):
        return getattr(self.dt, "some_" + self._n)(t)

    def is_none(self, t):
        return getattr(self.dt, "is_none_" + self._n)(t)

    def val(self, t):
        return getattr(self.dt, "val_" + self._n)(t)

    def _lift(self, v):
        if v is None:
            return Sym(self.none(), self)
        return Sym(self.some(self.inner.lift(v).term), self)


class TSeq(Ty):
    def __init__(self, elt):
        self.elt = elt
        self.name = "List[%s]" % elt.name

    def key(self):
        return (self.elt,)

    def sort(self):
        return z3.SeqSort(self.elt.sort())

    def _lift(self, v):
        if isinstance(v, (list, tuple)):
            if not v:
                return Sym(z3.Empty(self.sort()), self)
            units = [z3.Unit(self.elt.lift(x).term) for x in v]
            return Sym(units[0] if len(units) == 1 else z3.Concat(*units), self)
        raise TypeError(v)


class TTup(Ty):
    def __init__(self, *elts):
        self.elts = tuple(elts)
        self.name = "Tuple[%s]" % ",".join(e.name for e in elts)
        k = ("tup",) + tuple(e.sort() for e in elts)
        if k not in _dt_cache:
            n = "_".join(_sort_name(e.sort()) for e in elts)
            d = z3.Datatype("Tup_" + n)
            d.declare("mk_" + n, *[("f%d_%s" % (i, n), e.sort()) for i, e in enumerate(elts)])
            _dt_cache[k] = d.create()
        self.dt = _dt_cache[k]
        self._n = "_".join(_sort_name(e.sort()) for e in elts)

    def key(self):
        return self.elts

    def sort(self):
        return self.dt

    def mk(self, *terms):
        return getattr(self.dt, "mk_" + self._n)(*terms)

    def get(self, t, i):
        return getattr(self.dt, "f%d_%s" % (i, self._n))(t)

    def _lift(self, v):
        if isinstance(v, tuple) and len(v) == len(self.elts):
            return Sym(self.mk(*[e.lift(x).term for e, x in zip(self.elts, v)]), self)
        raise TypeError(v)


class TRec(Ty):
    """Record (NamedTuple / frozen dataclass) as a z3 datatype."""

    def __init__(self, name_, **fields):
        name = name_
        self.name = name
        self.fields = dict(fields)
        k = ("rec", name) + tuple((f, t.sort()) for f, t in fields.items())
        if k not in _dt_cache:
            d = z3.Datatype("Rec_" + name)
            d.declare("mk_" + name, *[(name + "_" + f, t.sort()) for f, t in fields.items()])
            _dt_cache[k] = d.create()
        self.dt = _dt_cache[k]

    def key(self):
        return (self.name,) + tuple(self.fields.items())

    def sort(self):
        return self.dt

    def mk(self, **kw):
        return getattr(self.dt, "mk_" + self.name)(*[self.fields[f].lift(kw[f]).term for f in self.fields])

    def get(self, t, f):
        return Sym(getattr(self.dt, self.name + "_" + f)(t), self.fields[f])


class TEnum(Ty):
    """A Python Enum class; values are z3 Ints 0..n-1 indexing the members in definition order."""

    def __init__(self, cls):
        self.cls = cls
        self.members = list(cls)
        self.name = cls.__name__

    def key(self):
        return (self.cls,)

    def sort(self):
        return z3.IntSort()

    def _lift(self, v):
        if isinstance(v, self.cls):
            return Sym(z3.IntVal(self.members.index(v)), self)
        raise TypeError(v)

    def invariant(self, term):
        return [term >= 0, term < len(self.members)]


class Sym:
    __slots__ = ("term", "ty")

    def __init__(self, term, ty):
        self.term = term
        self.ty = ty

    def __repr__(self):
        return "Sym(%s : %s)" % (self.term, self.ty)


# --------------------------------------------------------------------------
# composite values
# --------------------------------------------------------------------------


class MapVal:
    """dict / OrderedDict / set as (dom: Array K Bool, val: Array K V[, card: Int][, keys: Seq K]).

    `card` is only present when the code takes len() of the container; `keys` (insertion order,
    duplicate free) only when the code iterates over it.  A set is a map without `val`.
    The box is mutable: `d[k] = v` rebinds the terms inside."""

    def __init__(self, kty, vty, dom, val, card=None, keys=None, ordered=False):
        self.kty, self.vty = kty, vty
        self.dom, self.val, self.card, self.keys = dom, val, card, keys
        self.ordered = ordered

    @staticmethod
    def fresh(base, kty, vty, with_card=False, with_keys=False, ordered=False):
        n = fresh_name(base)
        dom = z3.Const(n + ".dom", z3.ArraySort(kty.sort(), z3.BoolSort()))
        val = z3.Const(n + ".val", z3.ArraySort(kty.sort(), vty.sort())) if vty is not None else None
        card = z3.Const(n + ".card", z3.IntSort()) if with_card else None
        keys = z3.Const(n + ".keys", z3.SeqSort(kty.sort())) if with_keys else None
        return MapVal(kty, vty, dom, val, card, keys, ordered)

    @staticmethod
    def named(name, kty, vty, with_card=False, with_keys=False, ordered=False):
        """like fresh() but with a stable name (entry values must have the same name on every path)"""
        n = name
        dom = z3.Const(n + ".dom", z3.ArraySort(kty.sort(), z3.BoolSort()))
        val = z3.Const(n + ".val", z3.ArraySort(kty.sort(), vty.sort())) if vty is not None else None
        card = z3.Const(n + ".card", z3.IntSort()) if with_card else None
        keys = z3.Const(n + ".keys", z3.SeqSort(kty.sort())) if with_keys else None
        return MapVal(kty, vty, dom, val, card, keys, ordered)

    @staticmethod
    def empty(kty, vty, with_card=False, with_keys=False, ordered=False):
        dom = z3.K(kty.sort(), z3.BoolVal(False))
        val = z3.Const(fresh_name("emptyval"), z3.ArraySort(kty.sort(), vty.sort())) if vty is not None else None
        card = z3.IntVal(0) if with_card else None
        keys = z3.Empty(z3.SeqSort(kty.sort())) if with_keys else None
        return MapVal(kty, vty, dom, val, card, keys, ordered)

    def axioms(self):
        """Well-formedness facts of a fresh map (light ones first, quantified ones flagged)."""
        light, heavy = [], []
        if self.card is not None:
            light.append(self.card >= 0)
            k = z3.Const(fresh_name("k"), self.kty.sort())
            heavy.append(z3.ForAll([k], z3.Implies(z3.Select(self.dom, k), self.card >= 1)))
        if self.keys is not None:
            i = z3.Int(fresh_name("i"))
            j = z3.Int(fresh_name("j"))
            k = z3.Const(fresh_name("k"), self.kty.sort())
            n = z3.Length(self.keys)
            heavy.append(z3.ForAll([i], z3.Implies(z3.And(0 <= i, i < n), z3.Select(self.dom, self.keys[i]))))
            heavy.append(z3.ForAll([k], z3.Implies(z3.Select(self.dom, k), z3.Exists([j], z3.And(0 <= j, j < n, self.keys[j] == k)))))
            heavy.append(z3.ForAll([i, j], z3.Implies(z3.And(0 <= i, i < j, j < n), self.keys[i] != self.keys[j])))
            if self.card is not None:
                light.append(self.card == n)
        return light, heavy

    def snapshot(self):
        return MapVal(self.kty, self.vty, self.dom, self.val, self.card, self.keys, self.ordered)

    def has(self, k):
        return z3.Select(self.dom, k)

    def get(self, k):
        return z3.Select(self.val, k)

    def same_as(self, other):
        c = [self.dom == other.dom]
        if self.val is not None:
            k = z3.Const(fresh_name("k"), self.kty.sort())
            c.append(z3.ForAll([k], z3.Implies(z3.Select(self.dom, k), z3.Select(self.val, k) == z3.Select(other.val, k))))
        return z3.And(*c)

    def __repr__(self):
        return "MapVal(%s->%s)" % (self.kty, self.vty)


class ObjVal:
    """An instance with named fields (mutable)."""

    def __init__(self, cls, **fields):
        self.cls = cls
        self.fields = dict(fields)

    def snapshot(self):
        f = {}
        for k, v in self.fields.items():
            f[k] = v.snapshot() if hasattr(v, "snapshot") else v
        return ObjVal(self.cls, **f)

    def __getattr__(self, name):
        # convenience for contract clauses: old.self._cache
        f = object.__getattribute__(self, "fields")
        if name in f:
            return f[name]
        raise AttributeError(name)

    def __repr__(self):
        return "ObjVal(%s)" % self.cls


class ListVal:
    """A Python list of known length holding values (mutable box)."""

    def __init__(self, items=None):
        self.items = list(items or [])

    def snapshot(self):
        return ListVal(self.items)

    def __repr__(self):
        return "ListVal(%r)" % (self.items,)


class SeqBox:
    """Mutable box around a symbolic sequence term (a list that is appended to in a loop)."""

    def __init__(self, term, ty):
        self.term, self.ty = term, ty

    def snapshot(self):
        return SeqBox(self.term, self.ty)

    def sym(self):
        return Sym(self.term, self.ty)


class ExcVal:
    """An exception value: class (Python class object or name), optional error_code, identity token."""

    def __init__(self, cls, code=None, ident=None, origin=None):
        self.cls = cls
        self.code = code
        self.ident = ident if ident is not None else fresh_name("exc")
        self.origin = origin  # line where it was created

    def __repr__(self):
        return "ExcVal(%s,%s)" % (getattr(self.cls, "__name__", self.cls), self.code)


class Opaque:
    """A value the engine does not look into (strings built only for messages, loggers, ...)."""

    def __init__(self, what="opaque"):
        self.what = what

    def __repr__(self):
        return "<%s>" % self.what


def is_symbolic(v):
    return isinstance(v, Sym)


class UndeterminedIsinstance(Exception):
    """raised by TUnion.isinstance_; the engine turns it into OutOfSubset"""


class TUnion(Ty):
    """Tagged union of alternatives: alts = [(tag, Ty or None, python classes an instance belongs to)]."""

    def __init__(self, name, alts):
        self.name = name
        self.alts = list(alts)
        k = ("union", name)
        if k not in _dt_cache:
            d = z3.Datatype("U_" + name)
            for tag, ty, _ in self.alts:
                if ty is None:
                    d.declare(tag)
                else:
                    d.declare(tag, ("v_" + tag, ty.sort()))
            _dt_cache[k] = d.create()
        self.dt = _dt_cache[k]

    def key(self):
        return (self.name,)

    def sort(self):
        return self.dt

    def is_tag(self, term, tag):
        return getattr(self.dt, "is_" + tag)(term)

    def payload(self, term, tag):
        ty = [t for g, t, _ in self.alts if g == tag][0]
        return Sym(getattr(self.dt, "v_" + tag)(term), ty)

    def mk(self, tag, term=None):
        c = getattr(self.dt, tag)
        return c if term is None else c(term)

    def isinstance_(self, term, classes):
        import z3 as _z

        hits = []
        for tag, ty, pyc in self.alts:
            if any(isinstance(c, type) and issubclass(p, c) for p in pyc for c in classes):
                hits.append(self.is_tag(term, tag))
                continue
            # a catch-all alternative (class object / ast.AST ...) stands for "none of the more specific alternatives":
            # asked about a class that only it could contain, the answer is not determined by the model
            for p in pyc:
                for c in classes:
                    if isinstance(c, type) and issubclass(c, p) and c is not p:
                        covered = any(issubclass(c, q) and q is not p and issubclass(q, p) for t2, _, pyc2 in self.alts if t2 != tag for q in pyc2)
                        if not covered:
                            raise UndeterminedIsinstance("isinstance(<%s value>, %s): the alternative '%s' may or may not be one" % (self.name, c.__name__, tag))
        if not hits:
            return False
        return hits[0] if len(hits) == 1 else _z.Or(*hits)

    def is_none(self, term):
        for tag, ty, pyc in self.alts:
            if type(None) in pyc:
                return self.is_tag(term, tag)
        return False

    def _lift(self, v):
        for tag, ty, pyc in self.alts:
            if v is None and type(None) in pyc:
                return Sym(self.mk(tag), self)
            if ty is not None:
                try:
                    if type(v) in pyc or (pyc and isinstance(v, pyc[0]) and type(v) is not bool):
                        return Sym(self.mk(tag, ty.lift(v).term), self)
                except TypeError:
                    continue
        raise TypeError("cannot lift %r into %s" % (v, self.name))
