"""Bounded counterexample search for an obligation the solvers leave undecided.

With quantified invariants z3 answers `unknown`, not `sat`, on a false obligation.  This module
builds a quantifier-free instance of the same VC: every quantifier over Int is expanded over
0..N, every quantifier over an uninterpreted sort over the ground constants of that sort (plus one
fresh), and all sequence lengths are bounded by N.  A model of that instance is only a *candidate*:
universal facts were weakened, so it must reproduce on the real code before it is reported.
"""
import itertools
import z3


def _collect(terms):
    consts = {}
    seqs = []
    seen = set()
    stack = list(terms)
    while stack:
        t = stack.pop()
        if t.get_id() in seen:
            continue
        seen.add(t.get_id())
        if z3.is_quantifier(t):
            stack.append(t.body())
            continue
        if z3.is_const(t) and t.decl().kind() == z3.Z3_OP_UNINTERPRETED:
            consts.setdefault(t.sort().name(), {})[t.decl().name()] = t
            if isinstance(t, z3.SeqRef):
                seqs.append(t)
        stack.extend(t.children())
    return consts, seqs


def _expand(t, N, consts, cache):
    k = t.get_id()
    if k in cache:
        return cache[k]
    if z3.is_quantifier(t):
        nv = t.num_vars()
        doms = []
        ok = True
        for i in range(nv):
            s = t.var_sort(i)
            if s == z3.IntSort():
                doms.append([z3.IntVal(x) for x in range(0, N + 1)])
            elif s.kind() == z3.Z3_UNINTERPRETED_SORT:
                g = list(consts.get(s.name(), {}).values())
                g.append(z3.Const("refute_extra_%s" % s.name(), s))
                doms.append(g)
            elif s.name() in consts and consts[s.name()]:
                doms.append(list(consts[s.name()].values()))
            else:
                ok = False
                break
        if not ok:
            r = t
            cache.setdefault("__unexpanded__", []).append(t.get_id())
        else:
            body = t.body()
            insts = []
            for combo in itertools.product(*doms):
                # de Bruijn: Var(0) is the last bound variable
                inst = z3.substitute_vars(body, *list(reversed(combo)))
                insts.append(_expand(inst, N, consts, cache))
            r = z3.And(*insts) if t.is_forall() else z3.Or(*insts)
        cache[k] = r
        return r
    ch = t.children()
    if not ch:
        cache[k] = t
        return t
    nch = [_expand(c, N, consts, cache) for c in ch]
    if all(a.get_id() == b.get_id() for a, b in zip(ch, nch)):
        r = t
    else:
        r = t.decl()(*nch)
    cache[k] = r
    return r


def bounded_query(facts, goal, N=4):
    consts, seqs = _collect(list(facts) + [goal])
    cache = {}
    out = [_expand(f, N, consts, cache) for f in facts]
    out.append(z3.Not(_expand(goal, N, consts, cache)))
    for s in seqs:
        out.append(z3.Length(s) <= N)
    return out


def search_text(smt2, N=4, timeout_ms=20000):
    """Same on the SMT-LIB2 text of a VC (assertions = facts and the negated goal)."""
    from .solve import _model_dict

    asserts = list(z3.parse_smt2_string(smt2))
    consts, seqs = _collect(asserts)
    cache = {}
    s = z3.Solver()
    s.set("timeout", timeout_ms)
    for f in asserts:
        g = _expand(f, N, consts, cache)
        if z3.is_quantifier(g) and g.is_forall():
            continue  # a universal fact that cannot be instantiated finitely is dropped (weakening; candidates are replayed)
        s.add(g)
    for q in seqs:
        s.add(z3.Length(q) <= N)
    r = s.check()
    if r == z3.sat:
        return "candidate", _model_dict(s.model())
    if r == z3.unsat:
        return "none", None
    return "unknown", None


def search(facts, goal, N=4, timeout_ms=20000):
    """Returns (status, model_dict|None): status in {'candidate', 'none', 'unknown'}."""
    from .solve import _model_dict

    q = bounded_query(facts, goal, N)
    s = z3.Solver()
    s.set("timeout", timeout_ms)
    for f in q:
        s.add(f)
    r = s.check()
    if r == z3.sat:
        return "candidate", _model_dict(s.model())
    if r == z3.unsat:
        return "none", None
    return "unknown", None
