"""Locate a function in the real source tree (re-read on every run)."""
import ast
import hashlib
import os

REPO = os.environ.get("DDS_REPO", "/repo")

_cache = {}


def load(relpath):
    p = os.path.join(REPO, relpath)
    st = os.stat(p)
    k = (p, st.st_mtime_ns, st.st_size)
    if k not in _cache:
        with open(p) as f:
            src = f.read()
        _cache[k] = (src, ast.parse(src, filename=p))
    return _cache[k]


def find(relpath, qualname):
    """Returns (FunctionDef, source lines of the file, sha256 of the function's source segment)."""
    src, tree = load(relpath)
    node = tree
    for part in qualname.split("."):
        found = None
        for n in ast.iter_child_nodes(node) if not isinstance(node, (ast.FunctionDef, ast.ClassDef, ast.Module)) else node.body:
            if isinstance(n, (ast.FunctionDef, ast.ClassDef)) and n.name == part:
                found = n
                break
        if found is None and isinstance(node, ast.FunctionDef):
            # nested def possibly inside a compound statement
            for n in ast.walk(node):
                if isinstance(n, ast.FunctionDef) and n.name == part and n is not node:
                    found = n
                    break
        if found is None:
            raise LookupError("%s not found in %s" % (qualname, relpath))
        node = found
    seg = ast.get_source_segment(src, node) or ""
    return node, src.split("\n"), hashlib.sha256(seg.encode()).hexdigest()
