"""Path-by-path symbolic execution of a real Python function AST against a sidecar contract.

Exploration is by decision replay: every path is executed from the function entry with a prefix
of branch decisions; `choose` extends the prefix and schedules the alternative.  All state is
therefore path-local and mutable Python objects can be used freely.
"""
import ast
import z3

from . import sv
from .sv import Sym, MapVal, ObjVal, ListVal, SeqBox, ExcVal, Opaque, TInt, TBool, TStr, TOpt, TSeq, TTup, TEnum, TUn, TRec


class OutOfSubset(Exception):
    pass


class EngineError(Exception):
    pass


class _PathEnd(Exception):
    """Path abandoned (infeasible, or cut after an obligation that ends it)."""


class _Return(Exception):
    def __init__(self, value):
        self.value = value


class _Raise(Exception):
    def __init__(self, exc):
        self.exc = exc


class _Break(Exception):
    pass


class _Continue(Exception):
    pass


class Obligation:
    def __init__(self, name, kind, line, facts, goal, path_id, meta=None):
        self.name = name
        self.kind = kind
        self.line = line
        self.facts = facts  # list of z3 Bool
        self.goal = goal  # z3 Bool
        self.path_id = path_id
        self.meta = meta or {}

    def full_name(self):
        return "%s@%s:p%s" % (self.name, self.line, self.path_id)


class Event:
    def __init__(self, kind, **data):
        self.kind = kind
        self.data = data

    def __repr__(self):
        return "Event(%s)" % self.kind


class Model:
    """A Python-implemented model (assumed contract) of an external or abstracted callable.
    fn(engine, args, kwargs, node) -> value"""

    def __init__(self, fn, name=None):
        self.fn = fn
        self.name = name or getattr(fn, "__name__", "model")

    def __repr__(self):
        return "<Model %s>" % self.name


class BoundMethod:
    def __init__(self, recv, name):
        self.recv, self.name = recv, name


class Closure:
    def __init__(self, fdef, env, owner):
        self.fdef, self.env, self.owner = fdef, env, owner


class PathState:
    def __init__(self, prefix):
        self.prefix = list(prefix)
        self.pos = 0
        self.facts = []  # (z3 Bool, heavy)
        self.events = []
        self.alternatives = []
        self.n_choices = 0

    def light(self):
        return [f for f, h in self.facts if not h]

    def all_facts(self):
        return [f for f, h in self.facts]


class Frame:
    def __init__(self, env, fdef, contract=None):
        self.env = env
        self.fdef = fdef
        self.contract = contract


_feas_cache = {}


class Engine:
    """Symbolic executor for one function under one contract."""

    def __init__(self, spec, fdef, src_lines, filename, qualname, feas_timeout_ms=2000, max_paths=4000):
        self.spec = spec
        self.fdef = fdef
        self.src_lines = src_lines
        self.filename = filename
        self.qualname = qualname
        self.obligations = []
        self.paths = []
        self.feas_timeout_ms = feas_timeout_ms
        self.max_paths = max_paths
        self.st = None
        self.frames = []
        self.path_counter = 0
        self.quiet = 0
        self.stats = {"paths": 0, "feas_checks": 0, "ended": {}}

    # ------------------------------------------------------------------ facts / obligations
    def assume(self, fact, heavy=False):
        if isinstance(fact, bool):
            if not fact:
                raise _PathEnd()
            return
        sf = z3.simplify(fact) if not heavy else fact
        if z3.is_false(sf):
            raise _PathEnd()
        if z3.is_true(sf):
            return
        self.st.facts.append((fact, heavy))

    def oblige(self, name, goal, kind="assert", node=None, meta=None, cut=True):
        """Emit a proof obligation `facts => goal`.  Afterwards the goal is assumed (so that a failed
        obligation is reported once, at its source)."""
        if self.quiet:
            return
        if isinstance(goal, bool):
            goal = z3.BoolVal(goal)
        line = getattr(node, "lineno", 0) if node is not None else 0
        cls = self.spec.finding_classes_for(self, name)
        if cls:
            meta = dict(meta or {}, classes=cls)
        g = z3.simplify(goal)
        if not z3.is_true(g):
            ob = Obligation("%s#%s" % (self.qualname, name), kind, line, self.st.all_facts(), goal, self.path_counter, meta)
            if z3.is_false(g):
                ob.light_facts = self.st.light()
            self.obligations.append(ob)
        else:
            self.obligations.append(
                Obligation("%s#%s" % (self.qualname, name), kind, line, [], z3.BoolVal(True), self.path_counter, dict(meta or {}, trivial=True))
            )
        if cut:
            self.assume(goal)

    def feasible(self, extra):
        """Is `light facts /\ extra` satisfiable?  (unknown counts as feasible.)  One incremental solver per
        path: facts are asserted once, each query is a push/check/pop."""
        self.stats["feas_checks"] += 1
        st = self.st
        light = st.light()
        ids = [f.get_id() for f in light]
        sol = getattr(st, "solver", None)
        if sol is None or st.solver_ids != ids[: len(st.solver_ids)]:
            sol = z3.Solver()
            sol.set("timeout", self.feas_timeout_ms)
            st.solver = sol
            st.solver_ids = []
        for f, i in zip(light[len(st.solver_ids) :], ids[len(st.solver_ids) :]):
            sol.add(f)
            st.solver_ids.append(i)
        sol.push()
        sol.add(extra)
        r = sol.check()
        sol.pop()
        return r != z3.unsat

    def choose(self, cond):
        """Branch on a z3 Bool (or Python bool).  Returns the Python bool taken on this path."""
        if isinstance(cond, bool):
            return cond
        cond = z3.simplify(cond)
        if z3.is_true(cond):
            return True
        if z3.is_false(cond):
            return False
        st = self.st
        if st.pos < len(st.prefix):
            d = st.prefix[st.pos]
        else:
            can_t = self.feasible(cond)
            can_f = self.feasible(z3.Not(cond))
            if can_t and can_f:
                st.alternatives.append(st.prefix[: st.pos] + [False])
                d = True
            elif can_t:
                d = True
            elif can_f:
                d = False
            else:
                raise _PathEnd()
            st.prefix.append(d)
        st.pos += 1
        st.facts.append((cond if d else z3.Not(cond), False))
        return d

    def choose_n(self, conds):
        """Pick the first index whose condition is taken (n-way branch); returns index or len(conds)."""
        for i, c in enumerate(conds):
            if self.choose(c):
                return i
        return len(conds)

    def event(self, kind, **data):
        self.st.events.append(Event(kind, **data))

    # ------------------------------------------------------------------ driver
    def run(self):
        stack = [[]]
        while stack:
            prefix = stack.pop()
            if self.stats["paths"] >= self.max_paths:
                raise EngineError("path explosion in %s (> %d paths)" % (self.qualname, self.max_paths))
            self.st = PathState(prefix)
            self.frames = []
            self.path_counter = self.stats["paths"]
            self.stats["paths"] += 1
            try:
                self.spec.run_path(self)
                end = "normal"
            except _PathEnd:
                end = "cut"
            self.stats["ended"][end] = self.stats["ended"].get(end, 0) + 1
            for alt in self.st.alternatives:
                stack.append(alt)
        return self.obligations

    # ------------------------------------------------------------------ function execution
    def exec_function(self, fdef, env):
        """Execute a FunctionDef body in `env`; returns ('return', value) or ('raise', ExcVal)."""
        self.frames.append(Frame(env, fdef))
        try:
            try:
                self.exec_block(fdef.body, env)
                return ("return", None)
            except _Return as r:
                return ("return", r.value)
            except _Raise as r:
                return ("raise", r.exc)
        finally:
            self.frames.pop()

    def exec_block(self, stmts, env):
        for s in stmts:
            self.exec_stmt(s, env)

    def exec_stmt(self, s, env):
        m = getattr(self, "x_" + type(s).__name__, None)
        if m is None:
            raise OutOfSubset("statement %s at %s:%s" % (type(s).__name__, self.filename, s.lineno))
        return m(s, env)

    # statements ---------------------------------------------------------
    def x_Break(self, s, env):
        raise _Break()

    def x_Continue(self, s, env):
        raise _Continue()

    def x_Pass(self, s, env):
        pass

    def x_Global(self, s, env):
        env.setdefault("__globals_decl__", set()).update(s.names)

    def x_Nonlocal(self, s, env):
        pass

    def x_Import(self, s, env):
        for a in s.names:
            env[a.asname or a.name.split(".")[0]] = self.lookup_global(a.asname or a.name.split(".")[0], s)

    def x_ImportFrom(self, s, env):
        for a in s.names:
            env[a.asname or a.name] = self.lookup_global(a.asname or a.name, s)

    def x_Expr(self, s, env):
        if isinstance(s.value, ast.Constant):
            return  # docstring
        if self.is_log_call(s.value):
            return
        self.eval(s.value, env)

    def is_log_call(self, e):
        return (
            isinstance(e, ast.Call)
            and isinstance(e.func, ast.Attribute)
            and isinstance(e.func.value, ast.Name)
            and e.func.value.id in ("_logger", "logging")
        )

    def x_Assert(self, s, env):
        c = self.truthy(self.eval(s.test, env))
        self.oblige("assert", c, kind="safety:AssertionError", node=s)

    def x_Return(self, s, env):
        v = self.eval(s.value, env) if s.value is not None else None
        raise _Return(v)

    def x_Raise(self, s, env):
        if s.exc is None:
            # bare `raise` inside an except handler: the exception being handled propagates again
            handling = getattr(self, "_handling", None)
            if not handling:
                raise OutOfSubset("bare raise outside an except handler at line %s" % s.lineno)
            raise _Raise(handling[-1])
        v = self.eval(s.exc, env)
        if isinstance(v, type) and issubclass(v, BaseException):
            v = ExcVal(v, origin=s.lineno)
        if not isinstance(v, ExcVal):
            raise OutOfSubset("raise of non-exception value %r at line %s" % (v, s.lineno))
        raise _Raise(v)

    def x_AnnAssign(self, s, env):
        if s.value is None:
            return
        v = self.eval(s.value, env)
        if isinstance(s.target, ast.Name):
            v = self.spec.on_assign(self, s.target.id, v, s)
        self.assign(s.target, v, env)

    def x_Assign(self, s, env):
        v = self.eval(s.value, env)
        for t in s.targets:
            if isinstance(t, ast.Name):
                v = self.spec.on_assign(self, t.id, v, s)
            self.assign(t, v, env)

    def x_AugAssign(self, s, env):
        cur = self.eval(_load(s.target), env)
        rhs = self.eval(s.value, env)
        if isinstance(s.op, ast.Add) and (isinstance(cur, (ListVal, SeqBox)) or hasattr(cur, "vc_extend")):
            self.call_method(cur, "extend", [rhs], {}, s)
            return
        v = self.binop(s.op, cur, rhs, s)
        self.assign(s.target, v, env)

    def assign(self, t, v, env):
        if isinstance(t, ast.Name):
            gl = env.get("__globals_decl__", ())
            if t.id in gl:
                self.set_global(t.id, v)
            else:
                env[t.id] = v
        elif isinstance(t, (ast.Tuple, ast.List)):
            items = self.unpack(v, len(t.elts), t)
            for tt, vv in zip(t.elts, items):
                self.assign(tt, vv, env)
        elif isinstance(t, ast.Attribute):
            o = self.eval(t.value, env)
            if isinstance(o, ObjVal):
                o.fields[t.attr] = v
            else:
                raise OutOfSubset("attribute store on %r at line %s" % (o, t.lineno))
        elif isinstance(t, ast.Subscript):
            o = self.eval(t.value, env)
            k = self.eval(t.slice, env)
            self.setitem(o, k, v, t)
        else:
            raise OutOfSubset("assignment target %s" % type(t).__name__)

    def unpack(self, v, n, node):
        if isinstance(v, (tuple, list)):
            if len(v) != n:
                raise OutOfSubset("unpack arity at line %s" % node.lineno)
            return list(v)
        if isinstance(v, ListVal):
            if len(v.items) != n:
                raise OutOfSubset("unpack arity at line %s" % node.lineno)
            return list(v.items)
        if isinstance(v, Sym) and isinstance(v.ty, TTup):
            if len(v.ty.elts) != n:
                raise OutOfSubset("unpack arity at line %s" % node.lineno)
            return [Sym(v.ty.get(v.term, i), v.ty.elts[i]) for i in range(n)]
        if isinstance(v, Sym) and hasattr(v.ty, "unpack_"):
            return v.ty.unpack_(v.term, n)
        raise OutOfSubset("cannot unpack %r at line %s" % (v, node.lineno))

    def x_If(self, s, env):
        c = self.truthy(self.eval(s.test, env))
        if self.choose(c):
            self.exec_block(s.body, env)
        else:
            self.exec_block(s.orelse, env)

    def x_FunctionDef(self, s, env):
        env[s.name] = self.spec.nested_def(self, s, env)

    def x_With(self, s, env):
        # with <ctx> as f: body   -- ctx value must implement enter/exit via models
        if len(s.items) != 1:
            raise OutOfSubset("multi-item with at line %s" % s.lineno)
        item = s.items[0]
        ctx = self.eval(item.context_expr, env)
        entered = self.call_method(ctx, "__enter__", [], {}, s)
        if item.optional_vars is not None:
            self.assign(item.optional_vars, entered, env)
        try:
            self.exec_block(s.body, env)
        except (_Return, _Raise, _Break, _Continue):
            self.call_method(ctx, "__exit__", [], {}, s)
            raise
        self.call_method(ctx, "__exit__", [], {}, s)

    def x_Try(self, s, env):
        def run_final():
            if s.finalbody:
                self.exec_block(s.finalbody, env)

        try:
            try:
                self.exec_block(s.body, env)
            except _Raise as r:
                handled = False
                for h in s.handlers:
                    if self.exc_matches(r.exc, h, env):
                        handled = True
                        if h.name:
                            env[h.name] = r.exc
                        if not hasattr(self, "_handling"):
                            self._handling = []
                        self._handling.append(r.exc)
                        try:
                            self.exec_block(h.body, env)
                        finally:
                            self._handling.pop()
                        break
                if not handled:
                    raise
            else:
                if s.orelse:
                    self.exec_block(s.orelse, env)
        except (_Return, _Raise, _Break, _Continue):
            run_final()
            raise
        run_final()

    def exc_matches(self, exc, handler, env):
        if handler.type is None:
            return True
        t = self.eval(handler.type, env)
        classes = t if isinstance(t, tuple) else (t,)
        cls = exc.cls
        if isinstance(cls, type):
            return any(isinstance(c, type) and issubclass(cls, c) for c in classes)
        # abstract exception class token: ("any_exception", base)
        return self.spec.abstract_exc_matches(self, exc, classes)

    def x_While(self, s, env):
        self.spec.exec_loop(self, s, env)

    def x_For(self, s, env):
        it = self.eval(s.iter, env)
        conc = self.concrete_iter(it)
        if conc is not None:
            try:
                for item in conc:
                    self.assign(s.target, item, env)
                    try:
                        self.exec_block(s.body, env)
                    except _Continue:
                        continue
                else:
                    self.exec_block(s.orelse, env)
            except _Break:
                pass
            return
        if self.loop_body_is_logging_only(s):
            return
        inert = self.loop_inert_names(s)
        if inert is not None:
            # the body only logs and computes throw-away locals from pure expressions: no effect on anything verified
            for n in inert:
                env[n] = Opaque("local of an inert loop: " + n)
            return
        self.spec.exec_loop(self, s, env, it)

    def loop_body_is_logging_only(self, s):
        return all(isinstance(b, ast.Expr) and self.is_log_call(b.value) for b in s.body)

    def loop_inert_names(self, s):
        """names assigned by a loop whose body has no effect besides logging (None if the loop is not of that shape)"""
        names = set()

        def pure(e):
            for n in ast.walk(e):
                if isinstance(n, (ast.Call, ast.Subscript, ast.Attribute, ast.Await, ast.Yield, ast.YieldFrom, ast.NamedExpr, ast.Lambda, ast.ListComp, ast.GeneratorExp, ast.DictComp, ast.SetComp, ast.BinOp)):
                    return False
            return True

        def ok(stmts):
            for b in stmts:
                if isinstance(b, ast.Pass):
                    continue
                if isinstance(b, ast.Expr) and (self.is_log_call(b.value) or isinstance(b.value, ast.Constant)):
                    continue
                if isinstance(b, ast.Assign) and all(isinstance(t, ast.Name) for t in b.targets) and pure(b.value):
                    names.update(t.id for t in b.targets)
                    continue
                if isinstance(b, ast.If) and pure(b.test) and ok(b.body) and ok(b.orelse):
                    continue
                return False
            return True

        if s.orelse or not ok(s.body):
            return None
        return names

    def concrete_iter(self, it):
        """A Python list of values if the iterable has a concrete length on this path, else None."""
        if isinstance(it, (list, tuple)):
            return list(it)
        if isinstance(it, ListVal):
            return list(it.items)
        if isinstance(it, range):
            return list(it)
        if isinstance(it, LazyIter):
            return it.concrete(self)
        return None

    # expressions --------------------------------------------------------
    def eval(self, e, env):
        m = getattr(self, "e_" + type(e).__name__, None)
        if m is None:
            raise OutOfSubset("expression %s at %s:%s" % (type(e).__name__, self.filename, getattr(e, "lineno", "?")))
        return m(e, env)

    def e_Constant(self, e, env):
        return e.value

    def e_Name(self, e, env):
        if e.id in env and e.id not in env.get("__globals_decl__", ()):
            return env[e.id]
        for fr in reversed(self.frames):
            pass
        return self.lookup_global(e.id, e)

    def lookup_global(self, name, node):
        return self.spec.lookup_global(self, name, node)

    def set_global(self, name, v):
        self.spec.set_global(self, name, v)

    def e_JoinedStr(self, e, env):
        return self.spec.eval_fstring(self, e, env)

    def e_Tuple(self, e, env):
        return tuple(self.eval(x, env) for x in e.elts)

    def e_List(self, e, env):
        return ListVal([self.eval(x, env) for x in e.elts])

    def e_Dict(self, e, env):
        return self.spec.make_dict(self, [(self.eval(k, env), self.eval(v, env)) for k, v in zip(e.keys, e.values)], e)

    def e_Set(self, e, env):
        return self.spec.make_set(self, [self.eval(x, env) for x in e.elts], e)

    def e_Attribute(self, e, env):
        o = self.eval(e.value, env)
        return self.getattr(o, e.attr, e)

    def getattr(self, o, attr, node):
        if isinstance(o, ObjVal):
            if attr in o.fields:
                return o.fields[attr]
            if attr in self.spec.classes.get(o.cls, {}):
                return BoundMethod(o, attr)
            raise OutOfSubset("attribute %s of %s is neither a field nor a method known to the contract (line %s)" % (attr, o.cls, getattr(node, "lineno", "?")))
        if isinstance(o, Sym):
            h = self.spec.sym_getattr(self, o, attr, node)
            if h is not NotImplemented:
                return h
            if isinstance(o.ty, TRec) and attr in o.ty.fields:
                return o.ty.get(o.term, attr)
            if isinstance(o.ty, TOpt):
                # attribute of an Optional: safety obligation "not None", then inner
                self.oblige("attr_%s_of_optional" % attr, z3.Not(o.ty.is_none(o.term)), kind="safety:AttributeError", node=node)
                return self.getattr(Sym(o.ty.val(o.term), o.ty.inner), attr, node)
            h = self.spec.sym_getattr(self, o, attr, node)
            if h is not NotImplemented:
                return h
            return BoundMethod(o, attr)
        import enum as _enum

        if isinstance(o, _enum.Enum) and attr in ("name", "value"):
            return getattr(o, attr)
        if isinstance(o, (MapVal, ListVal, SeqBox, str, ExcVal)):
            if isinstance(o, ExcVal) and attr == "error_code":
                return o.code
            return BoundMethod(o, attr)
        if hasattr(o, "vc_extend"):
            return BoundMethod(o, attr)
        if o is None:
            self.oblige("attr_%s_of_None" % attr, False, kind="safety:AttributeError", node=node)
            raise _PathEnd()
        if isinstance(o, Opaque):
            return Opaque(o.what + "." + attr)
        h = self.spec.py_getattr(self, o, attr, node)
        if h is not NotImplemented:
            return h
        try:
            return getattr(o, attr)
        except AttributeError:
            raise OutOfSubset("attribute %s of %r at line %s" % (attr, o, getattr(node, "lineno", "?")))

    def e_Subscript(self, e, env):
        o = self.eval(e.value, env)
        if isinstance(e.slice, ast.Slice):
            lo = self.eval(e.slice.lower, env) if e.slice.lower is not None else None
            hi = self.eval(e.slice.upper, env) if e.slice.upper is not None else None
            if e.slice.step is not None:
                raise OutOfSubset("slice step")
            return self.getslice(o, lo, hi, e)
        k = self.eval(e.slice, env)
        return self.getitem(o, k, e)

    def e_IfExp(self, e, env):
        c = self.truthy(self.eval(e.test, env))
        if self.choose(c):
            return self.eval(e.body, env)
        return self.eval(e.orelse, env)

    def e_BoolOp(self, e, env):
        # value-returning and/or with short circuit
        isand = isinstance(e.op, ast.And)
        v = None
        for i, x in enumerate(e.values):
            v = self.eval(x, env)
            if i == len(e.values) - 1:
                return v
            t = self.truthy(v)
            if isinstance(t, bool):
                if isand and not t:
                    return v
                if not isand and t:
                    return v
                continue
            d = self.choose(t)
            if isand and not d:
                return v
            if not isand and d:
                return v
        return v

    def e_UnaryOp(self, e, env):
        v = self.eval(e.operand, env)
        if isinstance(e.op, ast.Not):
            t = self.truthy(v)
            return (not t) if isinstance(t, bool) else Sym(z3.Not(t), TBool)
        if isinstance(e.op, ast.USub):
            if isinstance(v, (int, float)):
                return -v
            if isinstance(v, Sym) and v.ty == TInt:
                return Sym(-v.term, TInt)
        raise OutOfSubset("unary op at line %s" % e.lineno)

    def e_BinOp(self, e, env):
        a = self.eval(e.left, env)
        b = self.eval(e.right, env)
        return self.binop(e.op, a, b, e)

    def e_Compare(self, e, env):
        left = self.eval(e.left, env)
        res = None
        for op, rn in zip(e.ops, e.comparators):
            right = self.eval(rn, env)
            c = self.compare(op, left, right, e)
            res = c if res is None else self.and_(res, c)
            left = right
        if isinstance(res, bool):
            return res
        return Sym(res, TBool)

    def and_(self, a, b):
        if isinstance(a, bool):
            return b if a else False
        if isinstance(b, bool):
            return a if b else False
        return z3.And(a, b)

    def e_Lambda(self, e, env):
        return Closure(e, env, self)

    def e_ListComp(self, e, env):
        return self.spec.eval_comprehension(self, e, env, "list")

    def e_GeneratorExp(self, e, env):
        return self.spec.eval_comprehension(self, e, env, "gen")

    def e_SetComp(self, e, env):
        return self.spec.eval_comprehension(self, e, env, "set")

    def e_DictComp(self, e, env):
        return self.spec.eval_comprehension(self, e, env, "dict")

    def e_Starred(self, e, env):
        raise OutOfSubset("starred expression outside call at line %s" % e.lineno)

    def _log_args_safety(self, e, env):
        """A-LOG says a logging call has no effect on the computation -- but its arguments are evaluated eagerly and may
        raise.  Subscripts over plain names / attributes / constants inside the arguments (f-strings included) are therefore
        evaluated for their safety obligations (KeyError, IndexError, attribute of None); values are discarded, and
        sub-expressions the contract cannot model are skipped as before."""
        done = set()
        for node in ast.walk(e):
            if not isinstance(node, ast.Subscript) or id(node) in done:
                continue
            inner = list(ast.walk(node))
            if any(isinstance(n, (ast.Call, ast.Lambda, ast.ListComp, ast.SetComp, ast.DictComp, ast.GeneratorExp, ast.Await, ast.Yield, ast.NamedExpr)) for n in inner):
                continue
            done.update(id(n) for n in inner)
            n_ob = len(self.st.obligations) if hasattr(self.st, "obligations") else None
            try:
                self.eval(node, env)
            except OutOfSubset:
                pass
            except (_Raise, _PathEnd):
                raise
            except Exception:
                pass

    def e_Call(self, e, env):
        if self.is_log_call(e):
            for a in list(e.args) + [k.value for k in e.keywords]:
                self._log_args_safety(a, env)
            return None
        f = self.eval(e.func, env)
        args = []
        for a in e.args:
            if isinstance(a, ast.Starred):
                v = self.eval(a.value, env)
                conc = self.concrete_iter(v)
                if conc is None:
                    args.append(StarArgs(v))
                else:
                    args.extend(conc)
            else:
                args.append(self.eval(a, env))
        kwargs = {}
        for k in e.keywords:
            if k.arg is None:
                v = self.eval(k.value, env)
                kwargs["**"] = v
            else:
                kwargs[k.arg] = self.eval(k.value, env)
        return self.call(f, args, kwargs, e)

    # calls ------------------------------------------------------------------
    def call(self, f, args, kwargs, node):
        if isinstance(f, Model):
            return f.fn(self, args, kwargs, node)
        if isinstance(f, BoundMethod):
            return self.call_method(f.recv, f.name, args, kwargs, node)
        if isinstance(f, Closure):
            return self.call_closure(f, args, kwargs, node)
        return self.spec.call_other(self, f, args, kwargs, node)

    def call_closure(self, f, args, kwargs, node):
        fdef = f.fdef
        env = dict(f.env)  # closures read the defining env (cells are shared through mutable boxes)
        env = _ChainEnv(f.env)
        a = fdef.args
        params = [p.arg for p in a.args]
        defaults = a.defaults
        if a.vararg or a.kwarg or a.kwonlyargs:
            raise OutOfSubset("closure with star-args at line %s" % fdef.lineno)
        bound = {}
        for i, p in enumerate(params):
            if i < len(args):
                bound[p] = args[i]
            elif p in kwargs:
                bound[p] = kwargs[p]
            else:
                di = i - (len(params) - len(defaults))
                if di < 0:
                    raise OutOfSubset("missing argument %s for closure at line %s" % (p, node.lineno))
                bound[p] = self.eval(defaults[di], f.env)
        env.local.update(bound)
        if isinstance(fdef, ast.Lambda):
            return self.eval(fdef.body, env)
        kind, v = self.exec_function(fdef, env)
        if kind == "raise":
            raise _Raise(v)
        return v

    def call_method(self, recv, name, args, kwargs, node):
        return self.spec.call_method(self, recv, name, args, kwargs, node)

    # operators --------------------------------------------------------------
    def truthy(self, v):
        return self.spec.truthy(self, v)

    def binop(self, op, a, b, node):
        return self.spec.binop(self, op, a, b, node)

    def compare(self, op, a, b, node):
        return self.spec.compare(self, op, a, b, node)

    def getitem(self, o, k, node):
        return self.spec.getitem(self, o, k, node)

    def getslice(self, o, lo, hi, node):
        return self.spec.getslice(self, o, lo, hi, node)

    def setitem(self, o, k, v, node):
        return self.spec.setitem(self, o, k, v, node)


class StarArgs:
    def __init__(self, v):
        self.v = v


class LazyIter:
    """An iterable produced by a model (zip / enumerate / items / range over symbolic length)."""

    def concrete(self, eng):
        return None


class _ChainEnv(dict):
    """Local scope chained to the defining scope of a closure: reads fall through, writes are local
    (Python closure semantics without `nonlocal`; mutation of shared boxes is visible)."""

    def __init__(self, parent):
        super().__init__()
        self.parent = parent
        self.local = self

    def __contains__(self, k):
        return dict.__contains__(self, k) or (k in self.parent)

    def __getitem__(self, k):
        if dict.__contains__(self, k):
            return dict.__getitem__(self, k)
        return self.parent[k]

    def get(self, k, d=None):
        if k in self:
            return self[k]
        return d


def _load(t):
    import copy

    t2 = copy.copy(t)
    t2.ctx = ast.Load()
    return t2
