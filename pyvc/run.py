"""Run a set of FnSpecs against the current /repo tree.

Phase 1 (parallel, one worker per function): locate the function, execute it symbolically, turn every
obligation (and its residuals for known finding classes) into SMT-LIB2 text.
Phase 2 (parallel, one task per obligation): discharge (solve.py).
"""
import multiprocessing as mp
import time
import traceback

import z3

from . import locate, solve
from .engine import Engine, OutOfSubset, EngineError, Obligation

_SPECS = []


def ob_to_dict(ob):
    d = {
        "name": ob.full_name(),
        "kind": ob.kind,
        "line": ob.line,
        "path_id": ob.path_id,
        "trivial": bool(ob.meta.get("trivial")),
        "meta": {k: v for k, v in ob.meta.items() if k not in ("classes", "trivial")},
        "goal_text": str(ob.goal)[:1500],
        "n_facts": len(ob.facts),
        "smt2": None if ob.meta.get("trivial") else solve.to_smt2(ob.facts, ob.goal),
        "residuals": {},
    }
    lf = getattr(ob, "light_facts", None)
    if lf is not None:
        # the clause was decided False on this path: it is refuted iff the path is feasible; the quantifier-free path
        # condition is checked on its own (quantified facts are definitions of fresh symbols / model axioms)
        d["smt2_path_condition"] = solve.to_smt2(lf, z3.BoolVal(False))
    for cname, cls in (ob.meta.get("classes") or {}).items():
        d["residuals"][cname] = solve.to_smt2(ob.facts + [z3.Not(cls)], ob.goal)
    return d


def canaries(obligations, qualname):
    """`False` as post-condition on every path end: at least one must be refutable, otherwise the
    contract's assumptions are contradictory and every proof of this function is vacuous."""
    seen = {}
    for ob in obligations:
        if ob.kind in ("post", "post-exc") and ob.path_id not in seen and not ob.meta.get("trivial"):
            seen[ob.path_id] = Obligation(qualname + "#canary:false", "canary", ob.line, ob.facts, z3.BoolVal(False), ob.path_id)
    return list(seen.values())[:8]


def _gen(i):
    spec = _SPECS[i]
    rep = {"file": spec.file, "qualname": spec.qualname, "variant": getattr(spec, "variant", None), "sha256": None, "paths": 0, "obligations": [], "canaries": [], "error": None, "prefer": getattr(spec, "prefer_solver", None)}
    t0 = time.time()
    try:
        fdef, lines, sha = locate.find(spec.file, spec.qualname)
        rep["sha256"] = sha
        eng = Engine(spec, fdef, lines, spec.file, spec.qualname)
        obs = eng.run()
        rep["paths"] = eng.stats["paths"]
        rep["obligations"] = [ob_to_dict(o) for o in obs]
        rep["canaries"] = [ob_to_dict(o) for o in canaries(obs, spec.qualname)]
    except (OutOfSubset, EngineError, LookupError) as e:
        rep["error"] = "%s: %s" % (type(e).__name__, e)
    except Exception as e:  # engine crash -> exit 3, never a violation
        rep["error"] = "engine crash: %s\n%s" % (e, traceback.format_exc()[-1500:])
    rep["gen_time"] = round(time.time() - t0, 3)
    return rep


def generate_all(specs, procs=16):
    global _SPECS
    _SPECS = list(specs)
    if len(specs) <= 1 or procs == 1:
        return [_gen(i) for i in range(len(specs))]
    return solve.robust_map(_gen, list(range(len(specs))), min(procs, len(specs)), _gen_crashed)


def _gen_crashed(i):
    spec = _SPECS[i]
    return {"file": getattr(spec, "file", "?"), "qualname": getattr(spec, "qualname", "?"), "variant": getattr(spec, "variant", None), "sha256": "-", "paths": 0, "obligations": [], "canaries": [], "error": "engine crash: the generator process died (memory limit?)", "gen_time": 0.0}


def verify(specs, z3_ms=10000, cvc5_ms=20000, both=False, extra_obligations=None):
    """Returns list of function reports (dicts); each obligation dict gains 'result'."""
    reports = generate_all(specs)
    if extra_obligations:
        reports.append(
            {"file": "(lemmas over contracts)", "qualname": "lemmas", "variant": None, "sha256": "-", "paths": 0, "obligations": [ob_to_dict(o) for o in extra_obligations], "canaries": [], "error": None, "gen_time": 0.0}
        )
    tasks = []
    for r in reports:
        for o in r["obligations"]:
            if o["trivial"]:
                o["result"] = {"status": "proved", "by": "simplifier", "backends": [], "model": None}
            else:
                tasks.append((o, (o["name"], o["smt2"], z3_ms, cvc5_ms, both, r.get("prefer"))))
        for o in r["canaries"]:
            tasks.append((o, (o["name"], o["smt2"], 3000, 3000, False)))
    results = solve.run_tasks([t for _, t in tasks])
    for (o, _), res in zip(tasks, results):
        o["result"] = res
    return reports
