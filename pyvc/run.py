"""Run a set of FnSpecs (and lemma generators) against the current /repo tree."""
import time
import traceback

from . import locate, solve
from .engine import Engine, OutOfSubset, EngineError


class FunctionReport:
    def __init__(self, spec):
        self.spec = spec
        self.file = spec.file
        self.qualname = spec.qualname
        self.sha256 = None
        self.paths = 0
        self.obligations = []
        self.results = []
        self.error = None
        self.gen_time = 0.0


def generate(spec):
    rep = FunctionReport(spec)
    t0 = time.time()
    try:
        fdef, lines, sha = locate.find(spec.file, spec.qualname)
        rep.sha256 = sha
        eng = Engine(spec, fdef, lines, spec.file, spec.qualname)
        rep.obligations = eng.run()
        rep.paths = eng.stats["paths"]
        rep.stats = eng.stats
    except (OutOfSubset, EngineError, LookupError) as e:
        rep.error = "%s: %s" % (type(e).__name__, e)
    except Exception as e:  # engine crash -> exit 3, never a violation
        rep.error = "engine crash: %s\n%s" % (e, traceback.format_exc())
    rep.gen_time = time.time() - t0
    return rep


def verify(specs, z3_ms=10000, cvc5_ms=20000, both=False):
    reports = [generate(s) for s in specs]
    all_obs = []
    for r in reports:
        for ob in r.obligations:
            all_obs.append((r, ob))
    results = solve.discharge([ob for _, ob in all_obs], z3_ms=z3_ms, cvc5_ms=cvc5_ms, both=both)
    for (r, ob), res in zip(all_obs, results):
        res["obligation"] = ob
        r.results.append(res)
    return reports
