"""Semantics of the Python subset (operators, built-ins, containers) and the contract object
`FnSpec` that binds a real function to its sidecar contract.

A FnSpec has two uses that are derived from the same clauses:
  * verified view  (`run_path`): parameters are fresh symbols, `requires` are assumed, the real
    body is executed symbolically, every `ensures` / `signals` clause becomes an obligation;
  * caller view    (`__call__` through `as_callee()`): `requires` become obligations at the call
    site, the frame is havocked, `ensures` are assumed (the body is never looked at).
"""
import ast
import importlib
import z3

from . import sv
from .sv import Sym, MapVal, ObjVal, ListVal, SeqBox, ExcVal, Opaque, TInt, TBool, TStr, TOpt, TSeq, TTup, TEnum, TUn, TRec, Ty, TUnion
from .engine import (
    Engine,
    Model,
    BoundMethod,
    Closure,
    LazyIter,
    StarArgs,
    OutOfSubset,
    EngineError,
    _PathEnd,
    _Raise,
    _Return,
    _Break,
    _Continue,
)


class Ctx:
    """What a contract clause sees."""

    def __init__(self, eng, args, old=None, result=None, exc=None, env=None):
        self.eng = eng
        self.args = args  # dict name -> value (entry values)
        self.old = old  # dict name -> snapshot of mutable entry values
        self.result = result
        self.exc = exc
        self.env = env
        self.ghost = {}

    def __getattr__(self, n):
        a = object.__getattribute__(self, "args")
        if n in a:
            return a[n]
        raise AttributeError(n)

    @property
    def events(self):
        return self.eng.st.events


class LoopSpec:
    def __init__(self, invariant, decreases=None, modifies=None, name=None, seqvars=None):
        self.seqvars = seqvars or {}  # local lists built by the loop: name -> TSeq type (turned into symbolic sequences)
        self.invariant = invariant  # fn(ctx, env, k) -> list[(name, Bool)] or Bool
        self.decreases = decreases  # fn(ctx, env) -> z3 Int
        self.modifies = modifies  # fn(ctx, env) -> list of boxes to havoc in addition to syntactic targets
        self.name = name


class CompSpec:
    """Contract of a comprehension `[body(x) for x in xs]` (the analogue of a loop invariant):
         elem(item)  -> term the body must evaluate to for an arbitrary item of xs
         err(item)   -> Int term, 0 iff the body does not raise for that item, else the error code it raises with
         result(xs_value) -> the term standing for the whole list (a spec-level map of elem over xs)
         first_err(xs_value) -> Int term: code of the first item that raises, 0 if none
         exc(code_term) -> ExcVal raised by the comprehension when first_err != 0
    Check side: body evaluated from the real AST for an arbitrary item, obligations elem / err.
    Use side: the comprehension is replaced by result(xs) (raise-split on first_err)."""

    def __init__(self, elem, result, err=None, first_err=None, exc=None, elt_ty=None):
        self.elem, self.result, self.err, self.first_err, self.exc, self.elt_ty = elem, result, err, first_err, exc, elt_ty


class FnSpec:
    file = None  # path relative to /repo
    qualname = None  # e.g. "LRUCache.put" or "dds_hash._dds_hash0"
    result_ty = None
    may_raise = False  # if False every exceptional exit is a violated obligation
    inline_nested = True

    def __init__(self):
        self.loops = {}
        self.comps = {}
        self.globals = {}
        self.classes = {}
        self._module = None

    # ---- to be provided by concrete contracts --------------------------------
    def make_args(self, eng):
        """dict of entry values (fresh, *stably named* symbols)"""
        return {}

    def requires(self, ctx):
        return []

    def ensures(self, ctx):
        return []

    def signals(self, ctx):
        """clauses that must hold when the function exits by raising ctx.exc"""
        return [("no_exception", z3.BoolVal(False))]

    def modifies(self, ctx):
        """boxes (MapVal / ObjVal / SeqBox) the function may mutate -- used by the caller view"""
        return []

    def make_result(self, eng, ctx):
        if self.result_ty is None:
            return None
        return self.result_ty.fresh("ret_" + self.qualname.replace(".", "_"))

    def raises(self, ctx):
        """caller view: list of (cond, ExcVal factory) exceptional behaviours"""
        return []

    # ---- verified view ----------------------------------------------------------
    def finding_classes(self, ctx):
        """{obligation short name: {class name: z3 Bool}} -- witness classes of known findings; the residual
        obligation (clause with the class excluded by hypothesis) must still be proved"""
        return {}

    def finding_classes_for(self, eng, name):
        ctx = getattr(self, "ctx", None)
        if ctx is None:
            return None
        return self.finding_classes(ctx).get(name)

    def on_assign(self, eng, name, value, node):
        """hook: a contract may give a local variable a more abstract representation when it is first bound"""
        return value

    def make_globals(self, eng):
        """per-path mutable global state (module variables the function reads or writes)"""
        return {}

    def run_path(self, eng):
        args = self.make_args(eng)
        ctx = Ctx(eng, args)
        self.ctx = ctx
        eng.st.globals = self.make_globals(eng)
        ctx.globals = eng.st.globals
        ctx.old_globals = {k: (v.snapshot() if hasattr(v, "snapshot") else v) for k, v in eng.st.globals.items()}
        for a in eng.st.globals.values():
            self._assume_wf(eng, a)
        for a in args.values():
            self._assume_wf(eng, a)
        for name, c in self._clauses(self.requires(ctx)):
            eng.assume(c, heavy=_has_quant(c))
        ctx.old = {k: (v.snapshot() if hasattr(v, "snapshot") else v) for k, v in args.items()}
        self.on_entry(eng, ctx)
        env = dict(args)
        ctx.env = env
        kind, v = eng.exec_function(eng.fdef, env)
        if kind == "return":
            ctx.result = v
            # proof steps: lemmas proved at the exit (each from the facts so far) and then available to the post-conditions
            for name, c in self._clauses(self.proof_steps(ctx)):
                eng.oblige("lemma:" + name, c, kind="lemma", node=eng.fdef, cut=True)
            for name, c in self._clauses(self.ensures(ctx)):
                eng.oblige("ensures:" + name, c, kind="post", node=eng.fdef, cut=False)
        else:
            ctx.exc = v
            for name, c in self._clauses(self.signals(ctx)):
                eng.oblige("signals:" + name, c, kind="post-exc", node=eng.fdef, cut=False, meta={"exc": repr(v), "exc_line": v.origin})

    def on_entry(self, eng, ctx):
        pass

    def proof_steps(self, ctx):
        """[(name, clause)]: intermediate lemmas at a normal exit (obligations, then assumed)"""
        return []

    def _assume_wf(self, eng, a):
        if isinstance(a, Sym):
            for f in a.ty.invariant(a.term):
                eng.assume(f)
        elif isinstance(a, MapVal):
            light, heavy = a.axioms()
            for f in light:
                eng.assume(f)
            for f in heavy:
                eng.assume(f, heavy=True)
        elif isinstance(a, ObjVal):
            for v in a.fields.values():
                self._assume_wf(eng, v)
        elif isinstance(a, SeqBox):
            pass

    @staticmethod
    def _clauses(cl):
        out = []
        if cl is None:
            return out
        if isinstance(cl, z3.BoolRef) or isinstance(cl, bool):
            cl = [("clause", cl)]
        for i, item in enumerate(cl):
            if isinstance(item, tuple):
                out.append(item)
            else:
                out.append(("clause%d" % i, item))
        return out

    # ---- caller view --------------------------------------------------------------
    def as_callee(self, bind=None):
        """A Model that stands for this function at call sites (contract only)."""
        spec = self

        def model(eng, args, kwargs, node):
            return spec.call_site(eng, args, kwargs, node, bind)

        return Model(model, name="contract:" + self.qualname)

    def bind_args(self, eng, args, kwargs, node, bind=None):
        """map actuals to the contract's argument dict; default: positional by parameter order"""
        names = self.param_names()
        d = {}
        if bind is not None:
            d.update(bind)
            names = [n for n in names if n not in bind]
        for n, a in zip(names, args):
            d[n] = a
        for k, v in kwargs.items():
            d[k] = v
        return d

    def param_names(self):
        return []

    def call_site(self, eng, args, kwargs, node, bind=None):
        actual = self.bind_args(eng, args, kwargs, node, bind)
        ctx = Ctx(eng, actual)
        tag = "call:%s" % self.qualname
        g = getattr(eng.st, "globals", None)
        if g is not None:
            # ghost state (file system ...) of the caller is the callee's: its clauses read it through ctx.globals
            ctx.globals = g
            ctx.old_globals = {k: (v.snapshot() if hasattr(v, "snapshot") else v) for k, v in g.items()}
        for name, c in self._clauses(self.requires(ctx)):
            eng.oblige("%s:requires:%s" % (tag, name), c, kind="pre", node=node)
        ctx.old = {k: (v.snapshot() if hasattr(v, "snapshot") else v) for k, v in actual.items()}
        # exceptional behaviours
        for cond, mk in self.raises(ctx):
            if eng.choose(cond):
                raise _Raise(mk(ctx))
        for box in self.modifies(ctx):
            havoc(eng, box)
        ctx.result = self.make_result(eng, ctx)
        if isinstance(ctx.result, Sym):
            for f in ctx.result.ty.invariant(ctx.result.term):
                eng.assume(f)
        for name, c in self._clauses(self.ensures(ctx)):
            eng.assume(c, heavy=_has_quant(c))
        return ctx.result

    # ---- hooks used by the engine -----------------------------------------------------
    def module(self):
        if self._module is None:
            modname = self.file[:-3].replace("/", ".")
            self._module = importlib.import_module(modname)
        return self._module

    def lookup_global(self, eng, name, node):
        g = getattr(eng.st, "globals", None)
        if g and name in g:
            return g[name]
        if name in self.globals:
            return self.globals[name]
        if name in BUILTIN_MODELS:
            return BUILTIN_MODELS[name]
        m = self.module()
        if hasattr(m, name):
            return getattr(m, name)
        import builtins

        if hasattr(builtins, name):
            return getattr(builtins, name)
        raise OutOfSubset("unknown global %s at %s:%s" % (name, self.file, getattr(node, "lineno", "?")))

    def set_global(self, eng, name, v):
        g = getattr(eng.st, "globals", None)
        if g is None or name not in g:
            raise OutOfSubset("write to global %s that the contract does not declare (make_globals)" % name)
        g[name] = v

    def nested_def(self, eng, fdef, env):
        key = "%s.%s" % (self.qualname, fdef.name)
        if key in NESTED_CONTRACTS:
            return NESTED_CONTRACTS[key](eng, fdef, env)
        return Closure(fdef, env, eng)

    def abstract_exc_matches(self, eng, exc, classes):
        # exc.cls is a token like "Exception*" meaning: some subclass of Exception
        if isinstance(exc.cls, str) and exc.cls.endswith("*"):
            base = exc.cls[:-1]
            for c in classes:
                if isinstance(c, type) and c.__name__ in (base, "BaseException") or (base == "Exception" and c is Exception):
                    return True
            return False
        raise OutOfSubset("exception class %r" % (exc.cls,))

    def eval_fstring(self, eng, e, env):
        parts = []
        eng.quiet += 1
        try:
            for v in e.values:
                if isinstance(v, ast.Constant):
                    parts.append(v.value)
                else:
                    if v.format_spec is not None or v.conversion not in (-1,):
                        return Opaque("fstring")
                    try:
                        x = eng.eval(v.value, env)
                    except (OutOfSubset, _PathEnd, _Raise, KeyError, AttributeError, TypeError):
                        return Opaque("fstring")
                    parts.append(x)
        finally:
            eng.quiet -= 1
        acc = None
        for p in parts:
            if isinstance(p, str):
                t = z3.StringVal(p)
            elif isinstance(p, Sym) and p.ty == TStr:
                t = p.term
            elif isinstance(p, Sym) and p.ty == TInt:
                t = z3.IntToStr(p.term)
            elif isinstance(p, int) and not isinstance(p, bool):
                t = z3.StringVal(str(p))
            elif isinstance(p, Sym) and hasattr(p.ty, "to_str"):
                t = p.ty.to_str(p.term)
            else:
                return Opaque("fstring")
            acc = t if acc is None else z3.Concat(acc, t)
        if acc is None:
            return ""
        if all(isinstance(p, str) for p in parts):
            return "".join(parts)
        return Sym(acc, TStr)

    def make_dict(self, eng, pairs, node):
        if not pairs:
            return EmptyDict()
        if all(isinstance(k, str) for k, _ in pairs) and all(not _symbolic(v) and not isinstance(v, (ObjVal, Opaque)) for _, v in pairs):
            return dict(pairs)  # a constant table
        raise OutOfSubset("dict display at line %s" % node.lineno)

    def make_set(self, eng, items, node):
        raise OutOfSubset("set display at line %s" % node.lineno)

    def sym_getattr(self, eng, o, attr, node):
        return NotImplemented

    def py_getattr(self, eng, o, attr, node):
        return NotImplemented

    def call_other(self, eng, f, args, kwargs, node):
        if isinstance(f, Opaque):
            return Opaque(f.what + "()")
        try:
            if f in CALLABLE_MODELS:
                return CALLABLE_MODELS[f](eng, args, kwargs, node)
        except TypeError:
            pass
        if isinstance(f, type) and issubclass(f, BaseException):
            code = None
            if len(args) > 1:
                code = args[1]
            if "error_code" in kwargs:
                code = kwargs["error_code"]
            return ExcVal(f, code=code, origin=getattr(node, "lineno", None))
        if getattr(f, "__supertype__", None) is not None:  # typing.NewType
            return args[0]
        if any(f == g for g in self.concrete_calls()):
            if all(not _symbolic(a) and not isinstance(a, (ObjVal, Opaque)) for a in list(args) + list(kwargs.values())):
                return _wrap_concrete(f(*args, **kwargs))
        name = getattr(f, "__qualname__", repr(f))
        raise OutOfSubset("call to %s has no model/contract (%s:%s)" % (name, self.file, getattr(node, "lineno", "?")))

    def concrete_calls(self):
        """real callables that may be invoked natively when all arguments are concrete (pure, listed as trusted)"""
        return []

    # ---- loops ----------------------------------------------------------------------------
    def loop_ordinal(self, eng, s):
        loops = [n for n in ast.walk(eng.fdef) if isinstance(n, (ast.For, ast.While))]
        loops.sort(key=lambda n: (n.lineno, n.col_offset))
        return loops.index(s)

    def exec_loop(self, eng, s, env, it=None):
        ordinal = self.loop_ordinal(eng, s)
        ls = self.loops.get(ordinal)
        if ls is None:
            raise EngineError("loop #%d of %s (line %s) has no invariant in the contract" % (ordinal, self.qualname, s.lineno))
        ctx = self.ctx
        tag = "loop%d" % ordinal
        is_for = isinstance(s, ast.For)
        if is_for:
            n, item = iter_protocol(eng, it)
            if n is None:
                raise OutOfSubset("cannot iterate over %r at line %s" % (it, s.lineno))
        for vn, vt in ls.seqvars.items():
            cur = env.get(vn)
            if isinstance(cur, ListVal):
                env[vn] = SeqBox(vt.lift(cur.items).term, vt)
        k0 = z3.IntVal(0)

        def inv(k):
            return self._clauses(ls.invariant(ctx, env, k))

        for name, c in inv(k0):
            eng.oblige("%s.init:%s" % (tag, name), c, kind="loop-init", node=s)
        targets = loop_targets(eng, s, env)
        if ls.modifies:
            targets = targets + list(ls.modifies(ctx, env))
        # ghost state boxes declared by the contract (file system, ...) are written through models, which the syntactic
        # write set cannot see: every such box is havocked too (the invariant has to say what the loop keeps of it)
        targets = targets + [b for b in (getattr(eng.st, "globals", None) or {}).values() if hasattr(b, "vc_havoc")]
        split = z3.Bool(sv.fresh_name("loop_split"))
        if eng.choose(split):
            # arbitrary iteration
            do_havoc(eng, targets, env)
            k = z3.Int(sv.fresh_name("k"))
            eng.assume(k >= 0)
            for name, c in inv(k):
                eng.assume(c, heavy=_has_quant(c))
            if is_for:
                eng.assume(k < n)
                eng.assign(s.target, item(k), env)
            else:
                c = eng.truthy(eng.eval(s.test, env))
                if not eng.choose(c):
                    raise _PathEnd()
            measure0 = ls.decreases(ctx, env) if ls.decreases else None
            try:
                eng.exec_block(s.body, env)
            except _Continue:
                pass
            except _Break:
                return
            for name, c in inv(k + 1):
                eng.oblige("%s.preserve:%s" % (tag, name), c, kind="loop-preserve", node=s, cut=False)
            if measure0 is not None:
                m1 = ls.decreases(ctx, env)
                eng.oblige("%s.decreases" % tag, z3.And(measure0 >= 0, m1 < measure0), kind="termination", node=s, cut=False)
            raise _PathEnd()
        else:
            do_havoc(eng, targets, env)
            if is_for:
                for name, c in inv(n):
                    eng.assume(c, heavy=_has_quant(c))
                eng.assume(n >= 0)
            else:
                k = z3.Int(sv.fresh_name("kend"))
                eng.assume(k >= 0)
                for name, c in inv(k):
                    eng.assume(c, heavy=_has_quant(c))
                c = eng.truthy(eng.eval(s.test, env))
                if eng.choose(c):
                    raise _PathEnd()
            if s.orelse:
                eng.exec_block(s.orelse, env)

    # ---- comprehension ----------------------------------------------------------------------
    def comp_ordinal(self, eng, e):
        comps = [n for n in ast.walk(eng.fdef) if isinstance(n, (ast.ListComp, ast.GeneratorExp, ast.SetComp, ast.DictComp))]
        comps.sort(key=lambda n: (n.lineno, n.col_offset))
        for i, n in enumerate(comps):
            if n is e:
                return i
        return None

    def contract_comprehension(self, eng, e, env, kind, cs, it, ordinal):
        g = e.generators[0]
        if g.ifs or kind not in ("list", "gen"):
            raise OutOfSubset("comprehension contract on a filtered / non-list comprehension (line %s)" % e.lineno)
        n, item = iter_protocol(eng, it)
        if n is None:
            raise OutOfSubset("cannot iterate over %r at line %s" % (it, e.lineno))
        tag = "comp%d" % ordinal
        if eng.choose(z3.Bool(sv.fresh_name("comp_check"))):
            # check side: the real body on an arbitrary item of the sequence
            gi = z3.Int(sv.fresh_name("g"))
            eng.assume(z3.And(gi >= 0, gi < n))
            x = item(gi)
            sub = _child_env(env)
            eng.assign(g.target, x, sub)
            try:
                v = eng.eval(e.elt, sub)
            except _Raise as r:
                exc = r.exc
                if cs.err is None:
                    eng.oblige("%s.body_does_not_raise" % tag, False, kind="comp-check", node=e, cut=False, meta={"exc": repr(exc)})
                else:
                    code = exc.code
                    ct = code.term if isinstance(code, Sym) else (z3.IntVal(int(code)) if code is not None else z3.IntVal(-1))
                    eng.oblige("%s.raises_only_as_specified" % tag, z3.And(cs.err(x) != 0, ct == cs.err(x)), kind="comp-check", node=e, cut=False, meta={"exc": repr(exc)})
                raise _PathEnd()
            want = cs.elem(x)
            vt = want.ty.lift(v).term if isinstance(want, Sym) else v
            wt = want.term if isinstance(want, Sym) else want
            eng.oblige("%s.element_is_as_specified" % tag, vt == wt, kind="comp-check", node=e, cut=False)
            if cs.err is not None:
                eng.oblige("%s.no_error_when_body_returns" % tag, cs.err(x) == 0, kind="comp-check", node=e, cut=False)
            raise _PathEnd()
        # use side
        if cs.first_err is not None:
            fe = cs.first_err(it)
            if eng.choose(fe != 0):
                raise _Raise(cs.exc(fe))
        return cs.result(it)

    def eval_comprehension(self, eng, e, env, kind):
        if len(e.generators) != 1:
            raise OutOfSubset("multi-generator comprehension at line %s" % e.lineno)
        g = e.generators[0]
        it = eng.eval(g.iter, env)
        if self.comps:
            o = self.comp_ordinal(eng, e)
            if o is not None and o in self.comps:
                return self.contract_comprehension(eng, e, env, kind, self.comps[o], it, o)
        if isinstance(it, Opaque):
            # iteration over a value the engine does not look into (only ever built for log lines): the body is
            # still evaluated once, on opaque items, so that any call it makes is seen by the models
            sub = _child_env(env)
            _assign_opaque(eng, g.target, sub)
            for cond in g.ifs:
                eng.eval(cond, sub)
            if kind == "dict":
                eng.eval(e.key, sub)
                eng.eval(e.value, sub)
            else:
                eng.eval(e.elt, sub)
            return Opaque("comprehension")
        conc = eng.concrete_iter(it)
        if conc is not None:
            out = []
            for item in conc:
                sub = _child_env(env)
                eng.assign(g.target, item, sub)
                ok = True
                for cond in g.ifs:
                    if not eng.choose(eng.truthy(eng.eval(cond, sub))):
                        ok = False
                        break
                if ok:
                    if kind == "dict":
                        out.append((eng.eval(e.key, sub), eng.eval(e.value, sub)))
                    else:
                        out.append(eng.eval(e.elt, sub))
            if kind in ("list", "gen"):
                return ListVal(out)
            raise OutOfSubset("set/dict comprehension over concrete iterable at line %s" % e.lineno)
        return self.symbolic_comprehension(eng, e, env, kind, it)

    def symbolic_comprehension(self, eng, e, env, kind, it):
        """[elt(x) for x in xs if cond(x)] over a symbolic sequence.

        Lowered to a fresh sequence r with
          no filter:  len r == len xs  and  forall i. r[i] == elt(xs[i])
          filter:     (len r > 0) <=> exists i. cond(xs[i]);  forall j. exists i. r[j] == elt(xs[i]) and cond(xs[i])
        elt / cond are evaluated once on a universally quantified index (their partial operations
        emit obligations under that index)."""
        g = e.generators[0]
        n, item = iter_protocol(eng, it)
        if n is None:
            raise OutOfSubset("cannot iterate over %r at line %s" % (it, e.lineno))
        if kind not in ("list", "gen"):
            raise OutOfSubset("symbolic set/dict comprehension at line %s" % e.lineno)
        i = z3.Int(sv.fresh_name("ci"))
        sub = _child_env(env)
        counter0 = next(sv._counter)
        # evaluate cond / elt under an arbitrary index i (facts about i added temporarily, so that the
        # obligations of partial operations inside the comprehension are proved for every i)
        mark = len(eng.st.facts)
        rng = z3.And(i >= 0, i < n)
        eng.st.facts.append((rng, False))
        eng.assign(g.target, item(i), sub)
        conds = []
        for cond in g.ifs:
            c = eng.truthy(eng.eval(cond, sub))
            conds.append(c if not isinstance(c, bool) else z3.BoolVal(c))
            eng.st.facts.append((conds[-1], False))
        cond = z3.And(*conds) if conds else None
        elt = eng.eval(e.elt, sub)
        new_facts = eng.st.facts[mark + 1 + len(conds) :]
        del eng.st.facts[mark:]
        if not isinstance(elt, Sym):
            if isinstance(elt, str):
                elt = TStr.lift(elt)
            elif isinstance(elt, tuple) and all(isinstance(x, Sym) for x in elt):
                tt = TTup(*[x.ty for x in elt])
                elt = Sym(tt.mk(*[x.term for x in elt]), tt)
            else:
                raise OutOfSubset("comprehension element %r at line %s" % (elt, e.lineno))
        # soundness: nothing created while evaluating under i may leak (it would be a function of i)
        for t in [elt.term] + [f for f, h in new_facts]:
            for nm in _const_names(t):
                if "!" in nm:
                    try:
                        num = int(nm.rsplit("!", 1)[1])
                    except ValueError:
                        continue
                    if num > counter0 and nm != str(i):
                        raise OutOfSubset("comprehension body creates fresh symbol %s (line %s)" % (nm, e.lineno))
        guard = rng if cond is None else z3.And(rng, cond)
        for f, h in new_facts:
            # facts established for the arbitrary index (cut-assumed obligations): hold for all i
            eng.assume(z3.ForAll([i], z3.Implies(guard, f)), heavy=True)
        rty = TSeq(elt.ty)
        r = rty.fresh("comp")
        if cond is None:
            eng.assume(z3.Length(r.term) == n)
            eng.assume(z3.ForAll([i], z3.Implies(rng, r.term[i] == elt.term)), heavy=True)
        else:
            j = z3.Int(sv.fresh_name("cj"))
            eng.assume(z3.Length(r.term) <= n)
            eng.assume(z3.Length(r.term) >= 0)
            eng.assume((z3.Length(r.term) > 0) == z3.Exists([i], z3.And(rng, cond)), heavy=True)
            eng.assume(
                z3.ForAll([j], z3.Implies(z3.And(j >= 0, j < z3.Length(r.term)), z3.Exists([i], z3.And(rng, cond, r.term[j] == elt.term)))),
                heavy=True,
            )
            # completeness: every item that passes the filter appears in the result
            eng.assume(
                z3.ForAll([i], z3.Implies(z3.And(rng, cond), z3.Exists([j], z3.And(j >= 0, j < z3.Length(r.term), r.term[j] == elt.term)))),
                heavy=True,
            )
            if not getattr(self, "filter_subsequence_axioms", False):
                return r
            # (opt-in: two more quantified facts per filtered comprehension slow every later obligation of the path)
            # the result is a sub-sequence: distinct source elements give distinct result elements
            i1, i2 = z3.Int(sv.fresh_name("ci1")), z3.Int(sv.fresh_name("ci2"))
            j1, j2 = z3.Int(sv.fresh_name("cj1")), z3.Int(sv.fresh_name("cj2"))
            e1, e2 = z3.substitute(elt.term, (i, i1)), z3.substitute(elt.term, (i, i2))
            src_distinct = z3.ForAll([i1, i2], z3.Implies(z3.And(i1 >= 0, i1 < n, i2 >= 0, i2 < n, i1 != i2), e1 != e2))
            res_distinct = z3.ForAll([j1, j2], z3.Implies(z3.And(j1 >= 0, j1 < z3.Length(r.term), j2 >= 0, j2 < z3.Length(r.term), j1 != j2), r.term[j1] != r.term[j2]))
            eng.assume(z3.Implies(src_distinct, res_distinct), heavy=True)
            # the result is a sub-sequence: it is as long as the source iff nothing was filtered out
            eng.assume((z3.Length(r.term) == n) == z3.ForAll([i], z3.Implies(rng, cond)), heavy=True)
        return r

    # ---- operators ------------------------------------------------------------------------------
    def truthy(self, eng, v):
        if isinstance(v, bool):
            return v
        if v is None:
            return False
        if isinstance(v, (int, str, tuple, list, range, float)):
            return bool(v)
        if isinstance(v, Sym):
            t = v.ty
            if t == TBool:
                return v.term
            if t == TInt:
                return v.term != 0
            if t == TStr or isinstance(t, TSeq):
                return z3.Length(v.term) > 0
            if isinstance(t, TOpt):
                inner = self.truthy(eng, Sym(t.val(v.term), t.inner))
                nn = z3.Not(t.is_none(v.term))
                return nn if isinstance(inner, bool) and inner else z3.And(nn, inner)
            if isinstance(t, TUn):
                if t.has_none:
                    h = getattr(t, "truthy", None)
                    if h:
                        return h(v.term)
                    return v.term != t.none_term()
                return True
            if isinstance(t, (TRec, TEnum)):
                return True
            if isinstance(t, TTup):
                return len(t.elts) > 0
            if hasattr(t, "truthy"):
                return t.truthy(v.term)
        if isinstance(v, MapVal):
            if v.card is None:
                raise OutOfSubset("truthiness of a map without cardinality")
            return v.card > 0
        if isinstance(v, ListVal):
            return len(v.items) > 0
        if isinstance(v, SeqBox):
            return z3.Length(v.term) > 0
        if isinstance(v, EmptyDict):
            return False
        if isinstance(v, (ObjVal, ExcVal, Closure, Model)):
            return True
        if isinstance(v, Opaque):
            raise OutOfSubset("truthiness of opaque value %r" % v)
        return bool(v)

    def binop(self, eng, op, a, b, node):
        h = self.binop_other(eng, op, a, b, node)
        if h is not NotImplemented:
            return h
        if not _symbolic(a) and not _symbolic(b):
            import operator

            table = {ast.Add: operator.add, ast.Sub: operator.sub, ast.Mult: operator.mul, ast.FloorDiv: operator.floordiv, ast.Mod: operator.mod, ast.BitXor: operator.xor, ast.Pow: operator.pow}
            if type(op) in table and not isinstance(a, Opaque) and not isinstance(b, Opaque):
                return table[type(op)](a, b)
        if isinstance(a, Opaque) or isinstance(b, Opaque):
            return Opaque("binop")
        if isinstance(op, ast.Add):
            if isinstance(a, ListVal) and isinstance(b, ListVal):
                return ListVal(a.items + b.items)
            if isinstance(a, (ListVal, SeqBox)) or isinstance(b, (ListVal, SeqBox)) or _is_seq(a) or _is_seq(b):
                ta, tb = as_seq(eng, a, hint=b), as_seq(eng, b, hint=a)
                return Sym(z3.Concat(ta.term, tb.term), ta.ty)
            if _is_str(a) or _is_str(b):
                ta, tb = TStr.lift(a), TStr.lift(b)
                return Sym(z3.Concat(ta.term, tb.term), TStr)
        if _is_int(a) and _is_int(b):
            x, y = TInt.lift(a).term, TInt.lift(b).term
            if isinstance(op, ast.Add):
                return Sym(x + y, TInt)
            if isinstance(op, ast.Sub):
                return Sym(x - y, TInt)
            if isinstance(op, ast.Mult):
                return Sym(x * y, TInt)
            if isinstance(op, ast.FloorDiv):
                eng.oblige("div_by_zero", y != 0, kind="safety:ZeroDivisionError", node=node)
                return Sym(x / y, TInt)  # z3 int division is floor for positive divisors
            if isinstance(op, ast.BitXor):
                return Sym(XOR(x, y), TInt)
        h = self.binop_other(eng, op, a, b, node)
        if h is not NotImplemented:
            return h
        raise OutOfSubset("binary op %s on %r, %r at line %s" % (type(op).__name__, a, b, node.lineno))

    def binop_other(self, eng, op, a, b, node):
        return NotImplemented

    def compare(self, eng, op, a, b, node):
        if isinstance(op, (ast.Is, ast.IsNot)):
            r = self.is_(eng, a, b, node)
            if isinstance(op, ast.IsNot):
                return (not r) if isinstance(r, bool) else z3.Not(r)
            return r
        if isinstance(op, (ast.Eq, ast.NotEq)):
            r = self.eq(eng, a, b, node)
            if isinstance(op, ast.NotEq):
                return (not r) if isinstance(r, bool) else z3.Not(r)
            return r
        if isinstance(op, (ast.In, ast.NotIn)):
            r = self.contains(eng, b, a, node)
            if isinstance(op, ast.NotIn):
                return (not r) if isinstance(r, bool) else z3.Not(r)
            return r
        if isinstance(a, Sym) and a.ty == TBool:
            a = Sym(z3.If(a.term, z3.IntVal(1), z3.IntVal(0)), TInt)  # bool is a subclass of int
        if isinstance(b, Sym) and b.ty == TBool:
            b = Sym(z3.If(b.term, z3.IntVal(1), z3.IntVal(0)), TInt)
        if isinstance(a, Sym) and hasattr(a.ty, "as_int"):
            a = a.ty.as_int(eng, a, node)
        if isinstance(b, Sym) and hasattr(b.ty, "as_int"):
            b = b.ty.as_int(eng, b, node)
        if _is_int(a) and _is_int(b):
            if not _symbolic(a) and not _symbolic(b):
                import operator

                return {ast.Lt: operator.lt, ast.LtE: operator.le, ast.Gt: operator.gt, ast.GtE: operator.ge}[type(op)](a, b)
            x, y = TInt.lift(a).term, TInt.lift(b).term
            return {ast.Lt: x < y, ast.LtE: x <= y, ast.Gt: x > y, ast.GtE: x >= y}[type(op)]
        raise OutOfSubset("comparison %s on %r, %r at line %s" % (type(op).__name__, a, b, node.lineno))

    def is_(self, eng, a, b, node):
        if b is None or a is None:
            x = a if b is None else b
            if x is None:
                return True
            if isinstance(x, Sym):
                if isinstance(x.ty, TOpt):
                    return x.ty.is_none(x.term)
                if isinstance(x.ty, TUn) and x.ty.has_none:
                    return x.term == x.ty.none_term()
                if hasattr(x.ty, "is_none"):
                    return x.ty.is_none(x.term)
                return False
            if isinstance(x, Opaque):
                raise OutOfSubset("`is None` on the opaque value %r at line %s" % (x, getattr(node, "lineno", "?")))
            return False
        if isinstance(a, Opaque) or isinstance(b, Opaque):
            raise OutOfSubset("identity test on an opaque value at line %s" % getattr(node, "lineno", "?"))
        if not _symbolic(a) and not _symbolic(b):
            return a is b
        return self.eq(eng, a, b, node)

    def eq(self, eng, a, b, node):
        if isinstance(a, Opaque) or isinstance(b, Opaque):
            raise OutOfSubset("equality on opaque value at line %s" % getattr(node, "lineno", "?"))
        if not _symbolic(a) and not _symbolic(b):
            if isinstance(a, ListVal) and isinstance(b, ListVal):
                if len(a.items) != len(b.items):
                    return False
                r = True
                for x, y in zip(a.items, b.items):
                    r = eng.and_(r, self.eq(eng, x, y, node))
                return r
            if isinstance(a, tuple) and isinstance(b, tuple):
                if len(a) != len(b):
                    return False
                r = True
                for x, y in zip(a, b):
                    r = eng.and_(r, self.eq(eng, x, y, node))
                return r
            if isinstance(a, (ListVal, tuple)) or isinstance(b, (ListVal, tuple)):
                if isinstance(a, (ListVal, tuple)) != isinstance(b, (ListVal, tuple)):
                    return False
            return a == b
        if isinstance(a, Sym) and isinstance(b, Sym):
            if a.term.sort() == b.term.sort():
                return a.term == b.term
            if isinstance(a.ty, TOpt) and a.ty.inner.sort() == b.term.sort():
                return z3.And(z3.Not(a.ty.is_none(a.term)), a.ty.val(a.term) == b.term)
            if isinstance(b.ty, TOpt) and b.ty.inner.sort() == a.term.sort():
                return z3.And(z3.Not(b.ty.is_none(b.term)), b.ty.val(b.term) == a.term)
            h = self.eq_other(eng, a, b, node)
            if h is not NotImplemented:
                return h
            return False
        s, c = (a, b) if isinstance(a, Sym) else (b, a)
        if isinstance(s, Sym):
            if c is None:
                return self.is_(eng, s, None, node)
            try:
                lc = s.ty.lift(c)
            except TypeError:
                h = self.eq_other(eng, a, b, node)
                if h is not NotImplemented:
                    return h
                return False
            return s.term == lc.term
        # SeqBox / ListVal vs something symbolic
        if isinstance(a, (SeqBox, ListVal)) or isinstance(b, (SeqBox, ListVal)):
            ta, tb = as_seq(eng, a, hint=b), as_seq(eng, b, hint=a)
            return ta.term == tb.term
        raise OutOfSubset("equality of %r and %r at line %s" % (a, b, getattr(node, "lineno", "?")))

    def eq_other(self, eng, a, b, node):
        return NotImplemented

    def contains(self, eng, container, x, node):
        if isinstance(container, MapVal):
            return container.has(container.kty.lift(x).term)
        if isinstance(container, EmptyDict):
            return False
        if isinstance(x, Opaque) or isinstance(container, Opaque):
            raise OutOfSubset("membership test on an opaque value at line %s" % getattr(node, "lineno", "?"))
        if isinstance(container, (list, tuple, set, frozenset)):
            if any(isinstance(c, Opaque) for c in container):
                raise OutOfSubset("membership test on an opaque value at line %s" % getattr(node, "lineno", "?"))
            if not _symbolic(x) and all(not _symbolic(c) for c in container):
                return x in container
            r = False
            for c in container:
                e = self.eq(eng, x, c, node)
                if isinstance(e, bool):
                    if e:
                        return True
                    continue
                r = e if isinstance(r, bool) else z3.Or(r, e)
            return r
        if isinstance(container, ListVal):
            return self.contains(eng, list(container.items), x, node)
        if isinstance(container, SeqBox):
            container = container.sym()
        if isinstance(container, Sym) and isinstance(container.ty, TSeq):
            return z3.Contains(container.term, z3.Unit(container.ty.elt.lift(x).term))
        if isinstance(container, Sym) and container.ty == TStr:
            return z3.Contains(container.term, TStr.lift(x).term)
        if isinstance(container, dict):
            if not _symbolic(x):
                return x in container
            return self.contains(eng, list(container.keys()), x, node)
        h = self.contains_other(eng, container, x, node)
        if h is not NotImplemented:
            return h
        raise OutOfSubset("membership in %r at line %s" % (container, getattr(node, "lineno", "?")))

    def contains_other(self, eng, container, x, node):
        return NotImplemented

    def getitem(self, eng, o, k, node):
        if isinstance(o, SeqBox):
            o = o.sym()
        if isinstance(o, Sym) and isinstance(o.ty, TSeq):
            n = z3.Length(o.term)
            if isinstance(k, int) and k < 0:
                idx = n + k
            else:
                idx = TInt.lift(k).term
            eng.oblige("index_in_range", z3.And(idx >= 0, idx < n), kind="safety:IndexError", node=node)
            return Sym(o.term[idx], o.ty.elt)
        if isinstance(o, Sym) and isinstance(o.ty, TTup):
            if isinstance(k, int):
                kk = k if k >= 0 else len(o.ty.elts) + k
                if 0 <= kk < len(o.ty.elts):
                    return Sym(o.ty.get(o.term, kk), o.ty.elts[kk])
                eng.oblige("tuple_index", False, kind="safety:IndexError", node=node)
                raise _PathEnd()
        if isinstance(o, MapVal):
            kt = o.kty.lift(k).term
            eng.oblige("key_present", o.has(kt), kind="safety:KeyError", node=node)
            return Sym(o.get(kt), o.vty)
        if isinstance(o, EmptyDict):
            eng.oblige("key_present", False, kind="safety:KeyError", node=node)
            raise _PathEnd()
        if isinstance(o, (ListVal, tuple, list)):
            items = o.items if isinstance(o, ListVal) else o
            if isinstance(k, int):
                if -len(items) <= k < len(items):
                    return items[k]
                eng.oblige("index_in_range", False, kind="safety:IndexError", node=node)
                raise _PathEnd()
            if isinstance(k, Sym) and k.ty == TInt:
                # symbolic index into a concrete-length list: case split
                eng.oblige("index_in_range", z3.And(k.term >= 0, k.term < len(items)), kind="safety:IndexError", node=node)
                for i in range(len(items)):
                    if eng.choose(k.term == i):
                        return items[i]
                raise _PathEnd()
        if isinstance(o, dict) and not _symbolic(k):
            if k in o:
                return o[k]
            eng.oblige("key_present", False, kind="safety:KeyError", node=node)
            raise _PathEnd()
        if isinstance(o, Opaque):
            return Opaque(o.what + "[]")
        h = self.getitem_other(eng, o, k, node)
        if h is not NotImplemented:
            return h
        raise OutOfSubset("subscript of %r with %r at line %s" % (o, k, getattr(node, "lineno", "?")))

    def getitem_other(self, eng, o, k, node):
        import enum

        if isinstance(o, type) and issubclass(o, enum.Enum):
            names = [m.name for m in o]
            if isinstance(k, str):
                if k in names:
                    return o[k]
                eng.oblige("enum_name", False, kind="safety:KeyError", node=node)
                raise _PathEnd()
            if isinstance(k, Sym) and (k.ty == TStr or getattr(k.ty, "is_str_like", False)):
                lits = [k.ty.lift(n).term for n in names]
                eng.oblige("enum_name", z3.Or(*[k.term == l for l in lits]), kind="safety:KeyError", node=node)
                t = z3.IntVal(len(names) - 1)
                for i in reversed(range(len(names) - 1)):
                    t = z3.If(k.term == lits[i], z3.IntVal(i), t)
                return Sym(t, TEnum(o))
        return NotImplemented

    def getslice(self, eng, o, lo, hi, node):
        if isinstance(o, (ListVal, tuple, list)):
            items = o.items if isinstance(o, ListVal) else list(o)
            if (lo is None or isinstance(lo, int)) and (hi is None or isinstance(hi, int)):
                r = items[lo:hi]
                return ListVal(r) if isinstance(o, ListVal) else (tuple(r) if isinstance(o, tuple) else r)
        if isinstance(o, SeqBox):
            o = o.sym()
        if isinstance(o, Sym) and (isinstance(o.ty, TSeq) or o.ty == TStr):
            n = z3.Length(o.term)

            def norm(b, default):
                if b is None:
                    return default
                if isinstance(b, int) and b < 0:
                    t = n + b
                    return z3.If(t < 0, z3.IntVal(0), t)
                t = TInt.lift(b).term
                if isinstance(b, int):
                    return z3.If(t > n, n, t)
                # symbolic bound: python semantics for negative values too
                t2 = z3.If(t < 0, z3.If(n + t < 0, z3.IntVal(0), n + t), t)
                return z3.If(t2 > n, n, t2)

            l = norm(lo, z3.IntVal(0))
            h = norm(hi, n)
            ln = z3.If(h - l < 0, z3.IntVal(0), h - l)
            return Sym(z3.SubSeq(o.term, l, ln), o.ty)
        raise OutOfSubset("slice of %r at line %s" % (o, getattr(node, "lineno", "?")))

    def setitem(self, eng, o, k, v, node):
        if isinstance(o, MapVal):
            kt = o.kty.lift(k).term
            vt = o.vty.lift(v).term
            was = o.has(kt)
            if o.card is not None:
                o.card = z3.If(was, o.card, o.card + 1)
            if o.keys is not None:
                o.keys = z3.If(was, o.keys, z3.Concat(o.keys, z3.Unit(kt)))
            o.dom = z3.Store(o.dom, kt, z3.BoolVal(True))
            o.val = z3.Store(o.val, kt, vt)
            return
        if isinstance(o, ListVal) and isinstance(k, int):
            o.items[k] = v
            return
        raise OutOfSubset("subscript store on %r at line %s" % (o, getattr(node, "lineno", "?")))

    # ---- method calls ---------------------------------------------------------------------------------
    def call_method(self, eng, recv, name, args, kwargs, node):
        if isinstance(recv, ObjVal):
            cm = self.classes.get(recv.cls, {})
            if name in cm:
                m = cm[name]
                return m.fn(eng, [recv] + list(args), kwargs, node)
            raise OutOfSubset("method %s.%s has no model (line %s)" % (recv.cls, name, getattr(node, "lineno", "?")))
        if isinstance(recv, MapVal):
            return map_method(self, eng, recv, name, args, kwargs, node)
        if isinstance(recv, ListVal):
            if name == "append":
                recv.items.append(args[0])
                return None
            if name == "extend":
                conc = eng.concrete_iter(args[0])
                if conc is None:
                    raise OutOfSubset("extend of concrete list with symbolic sequence at line %s" % node.lineno)
                recv.items.extend(conc)
                return None
            if name == "insert" and isinstance(args[0], int):
                recv.items.insert(args[0], args[1])
                return None
        if isinstance(recv, SeqBox):
            if name == "append":
                recv.term = z3.Concat(recv.term, z3.Unit(recv.ty.elt.lift(args[0]).term))
                return None
            if name == "extend":
                recv.term = z3.Concat(recv.term, as_seq(eng, args[0], hint=recv.sym()).term)
                return None
        h = self.method_other(eng, recv, name, args, kwargs, node)
        if h is not NotImplemented:
            return h
        raise OutOfSubset("method %s on %r at line %s" % (name, recv, getattr(node, "lineno", "?")))

    def method_other(self, eng, recv, name, args, kwargs, node):
        return NotImplemented


NESTED_CONTRACTS = {}


def _assign_opaque(eng, t, env):
    if isinstance(t, ast.Name):
        env[t.id] = Opaque(t.id)
    elif isinstance(t, (ast.Tuple, ast.List)):
        for x in t.elts:
            _assign_opaque(eng, x, env)
    else:
        raise OutOfSubset("comprehension target")


def _wrap_concrete(v):
    if isinstance(v, list):
        return ListVal([_wrap_concrete(x) for x in v])
    return v


class EmptyDict:
    """`{}` literal whose key/value types are not known yet."""


def _child_env(env):
    from .engine import _ChainEnv

    return _ChainEnv(env)


def _symbolic(v):
    return isinstance(v, (Sym, MapVal, SeqBox)) or (isinstance(v, (ListVal,)) and any(_symbolic(x) for x in v.items)) or (
        isinstance(v, tuple) and any(_symbolic(x) for x in v)
    )


def _is_int(v):
    return (isinstance(v, int)) or (isinstance(v, Sym) and v.ty == TInt)


def _is_str(v):
    return isinstance(v, str) or (isinstance(v, Sym) and v.ty == TStr)


def _is_seq(v):
    return isinstance(v, Sym) and isinstance(v.ty, TSeq)


def _has_quant(c):
    if isinstance(c, bool):
        return False
    seen = set()
    stack = [c]
    while stack:
        t = stack.pop()
        if t.get_id() in seen:
            continue
        seen.add(t.get_id())
        if z3.is_quantifier(t):
            return True
        stack.extend(t.children())
    return False


def _const_names(t):
    out = set()
    seen = set()
    stack = [t]
    while stack:
        x = stack.pop()
        if x.get_id() in seen:
            continue
        seen.add(x.get_id())
        if z3.is_const(x) and x.decl().kind() == z3.Z3_OP_UNINTERPRETED:
            out.add(x.decl().name())
        if z3.is_quantifier(x):
            stack.append(x.body())
        else:
            stack.extend(x.children())
    return out


def as_seq(eng, v, hint=None):
    if isinstance(v, SeqBox):
        return v.sym()
    if isinstance(v, Sym) and isinstance(v.ty, TSeq):
        return v
    ty = None
    if isinstance(hint, SeqBox):
        ty = hint.ty
    elif isinstance(hint, Sym) and isinstance(hint.ty, TSeq):
        ty = hint.ty
    if isinstance(v, (ListVal, list, tuple)):
        items = v.items if isinstance(v, ListVal) else list(v)
        if ty is None:
            syms = [x for x in items if isinstance(x, Sym)]
            if syms:
                ty = TSeq(syms[0].ty)
            elif items and all(isinstance(x, str) for x in items):
                ty = TSeq(TStr)
            else:
                raise OutOfSubset("cannot type list %r as a sequence" % (items,))
        return ty.lift(items)
    raise OutOfSubset("not a sequence: %r" % (v,))


# uninterpreted xor on mathematical integers (algebra supplied where needed as lemmas)
XOR = z3.Function("py_xor", z3.IntSort(), z3.IntSort(), z3.IntSort())


def iter_protocol(eng, it):
    """(length term, item(k) -> value) for a symbolic iterable, or (None, None)."""
    if isinstance(it, SeqBox):
        it = it.sym()
    if isinstance(it, Sym) and isinstance(it.ty, TOpt) and isinstance(it.ty.inner, TSeq):
        eng.oblige("iterate_over_None", z3.Not(it.ty.is_none(it.term)), kind="safety:TypeError")
        it = Sym(it.ty.val(it.term), it.ty.inner)
    if isinstance(it, Sym) and isinstance(it.ty, TSeq):
        return z3.Length(it.term), (lambda k, it=it: Sym(it.term[k], it.ty.elt))
    if isinstance(it, Sym) and hasattr(it.ty, "iter_"):
        return it.ty.iter_(eng, it)
    if isinstance(it, LazyIter):
        return it.length(eng), (lambda k, it=it: it.item(eng, k))
    if isinstance(it, MapVal) and it.keys is not None:
        return z3.Length(it.keys), (lambda k, it=it: Sym(it.keys[k], it.kty))
    return None, None


class ItemsIter(LazyIter):
    def __init__(self, m):
        self.m = m
        self.keys0 = m.keys

    def concrete(self, eng):
        return None

    def length(self, eng):
        if self.keys0 is None:
            raise OutOfSubset("iteration over a map without key order")
        return z3.Length(self.keys0)

    def item(self, eng, k):
        kt = self.keys0[k]
        return (Sym(kt, self.m.kty), Sym(z3.Select(self.m.val, kt), self.m.vty))


class RangeIter(LazyIter):
    def __init__(self, n):
        self.n = n

    def concrete(self, eng):
        return None

    def length(self, eng):
        return z3.If(self.n < 0, z3.IntVal(0), self.n)

    def item(self, eng, k):
        return Sym(k, TInt)


class EnumerateIter(LazyIter):
    def __init__(self, inner):
        self.inner = inner

    def concrete(self, eng):
        c = eng.concrete_iter(self.inner)
        if c is None:
            return None
        return [(i, x) for i, x in enumerate(c)]

    def length(self, eng):
        return iter_protocol(eng, self.inner)[0]

    def item(self, eng, k):
        return (Sym(k, TInt), iter_protocol(eng, self.inner)[1](k))


class ZipIter(LazyIter):
    """zip(a, b) where at least one side has a concrete length: exact, the symbolic side's length is
    case-split against the concrete one (zip truncates)."""

    def __init__(self, a, b):
        self.a, self.b = a, b

    def concrete(self, eng):
        ca, cb = eng.concrete_iter(self.a), eng.concrete_iter(self.b)
        if ca is not None and cb is not None:
            return list(zip(ca, cb))
        if ca is None and cb is None:
            return None
        sym, conc, flip = (self.a, cb, False) if ca is None else (self.b, ca, True)
        n, item = iter_protocol(eng, sym)
        if n is None:
            return None
        out = []
        for i, c in enumerate(conc):
            if not eng.choose(n > i):
                break
            x = item(z3.IntVal(i))
            out.append((c, x) if flip else (x, c))
        return out

    def length(self, eng):
        na, _ = iter_protocol(eng, self.a)
        nb, _ = iter_protocol(eng, self.b)
        return z3.If(na < nb, na, nb)

    def item(self, eng, k):
        _, ia = iter_protocol(eng, self.a)
        _, ib = iter_protocol(eng, self.b)
        return (ia(k), ib(k))


def map_method(spec, eng, m, name, args, kwargs, node):
    if name == "get":
        kt = m.kty.lift(args[0]).term
        default = args[1] if len(args) > 1 else None
        if default is None:
            if hasattr(m.vty, "none_value"):
                return Sym(z3.If(m.has(kt), m.get(kt), m.vty.none_value()), m.vty)
            if isinstance(m.vty, TUn) and m.vty.has_none:
                return Sym(z3.If(m.has(kt), m.get(kt), m.vty.none_term()), m.vty)
            ot = TOpt(m.vty)
            return Sym(z3.If(m.has(kt), ot.some(m.get(kt)), ot.none()), ot)
        return Sym(z3.If(m.has(kt), m.get(kt), m.vty.lift(default).term), m.vty)
    if name == "items":
        return ItemsIter(m)
    if name == "values":
        return Opaque("values")
    if name == "keys":
        if m.keys is None:
            raise OutOfSubset("keys() of a map without key order")
        return Sym(m.keys, TSeq(m.kty))
    if name == "move_to_end":
        kt = m.kty.lift(args[0]).term
        eng.oblige("move_to_end_key_present", m.has(kt), kind="safety:KeyError", node=node)
        if m.keys is not None:
            nk = z3.Const(sv.fresh_name("keys"), m.keys.sort())
            # new order is a permutation: same members, same length, key last (order of the rest unspecified here)
            eng.assume(z3.Length(nk) == z3.Length(m.keys))
            m.keys = nk
        return None
    if name == "popitem":
        if m.card is None:
            raise OutOfSubset("popitem on a map without cardinality")
        eng.oblige("popitem_nonempty", m.card > 0, kind="safety:KeyError", node=node)
        k0 = z3.Const(sv.fresh_name("popped"), m.kty.sort())
        eng.assume(m.has(k0))
        v0 = m.get(k0)
        m.dom = z3.Store(m.dom, k0, z3.BoolVal(False))
        m.card = m.card - 1
        if m.keys is not None:
            nk = z3.Const(sv.fresh_name("keys"), m.keys.sort())
            eng.assume(z3.Length(nk) == m.card)
            m.keys = nk
        return (Sym(k0, m.kty), Sym(v0, m.vty))
    if name == "add" and m.vty is None:
        kt = m.kty.lift(args[0]).term
        if m.card is not None:
            m.card = z3.If(m.has(kt), m.card, m.card + 1)
        m.dom = z3.Store(m.dom, kt, z3.BoolVal(True))
        return None
    raise OutOfSubset("map method %s at line %s" % (name, getattr(node, "lineno", "?")))


# -------------------------------------------------------------------------------------------------
# havoc
# -------------------------------------------------------------------------------------------------

_MUTATORS = {"append", "extend", "add", "update", "pop", "popitem", "move_to_end", "insert", "remove", "clear", "setdefault", "put"}


def loop_targets(eng, s, env):
    """Syntactic write set of a loop body: (kind, name-or-expr) items."""
    names = set()
    exprs = []

    def base_of(t):
        while isinstance(t, ast.Subscript):
            t = t.value
        return t

    def visit_target(t):
        if isinstance(t, ast.Name):
            names.add(t.id)
        elif isinstance(t, (ast.Tuple, ast.List)):
            for x in t.elts:
                visit_target(x)
        elif isinstance(t, ast.Subscript):
            exprs.append(base_of(t))
        elif isinstance(t, ast.Attribute):
            exprs.append(t)
        elif isinstance(t, ast.Starred):
            visit_target(t.value)

    body_nodes = list(s.body)
    for stmt in body_nodes:
        for n in ast.walk(stmt):
            if isinstance(n, ast.Assign):
                for t in n.targets:
                    visit_target(t)
            elif isinstance(n, (ast.AugAssign, ast.AnnAssign)):
                visit_target(n.target)
            elif isinstance(n, ast.For):
                visit_target(n.target)
            elif isinstance(n, ast.Call) and isinstance(n.func, ast.Attribute) and n.func.attr in _MUTATORS:
                exprs.append(n.func.value)
            elif isinstance(n, ast.With):
                for it in n.items:
                    if it.optional_vars is not None:
                        visit_target(it.optional_vars)
    if isinstance(s, ast.For):
        tn = set()

        def tnames(t):
            if isinstance(t, ast.Name):
                tn.add(t.id)
            elif isinstance(t, (ast.Tuple, ast.List)):
                for x in t.elts:
                    tnames(x)

        tnames(s.target)
        names -= tn
    out = [("name", n) for n in sorted(names)]
    for e in exprs:
        out.append(("expr", e))
    return out


def do_havoc(eng, targets, env):
    seen = set()
    for t in targets:
        if isinstance(t, tuple) and t[0] == "name":
            n = t[1]
            if n in env:
                v = env[n]
                nv = havoc_value(eng, v, n)
                if nv is not v:
                    env[n] = nv
        elif isinstance(t, tuple) and t[0] == "expr":
            e = t[1]
            if isinstance(e, ast.Attribute):
                try:
                    eng.quiet += 1
                    o = eng.eval(e.value, env)
                finally:
                    eng.quiet -= 1
                if isinstance(o, ObjVal) and e.attr in o.fields:
                    v = o.fields[e.attr]
                    if id(v) in seen:
                        continue
                    seen.add(id(v))
                    nv = havoc_value(eng, v, e.attr)
                    if nv is not v:
                        o.fields[e.attr] = nv
                    continue
            try:
                eng.quiet += 1
                v = eng.eval(e, env)
            except Exception:
                continue
            finally:
                eng.quiet -= 1
            if id(v) in seen:
                continue
            seen.add(id(v))
            havoc(eng, v)
        else:
            havoc(eng, t)


def havoc_value(eng, v, base="h"):
    """Returns a replacement for immutable values, mutates boxes in place."""
    if isinstance(v, Sym):
        nv = v.ty.fresh(base)
        for f in nv.ty.invariant(nv.term):
            eng.assume(f)
        return nv
    if isinstance(v, (MapVal, SeqBox, ObjVal)) or hasattr(v, "vc_havoc"):
        havoc(eng, v)
        return v
    if v is None:
        # the value before the loop is None and the loop assigns the name: its type inside the loop is unknown to the engine
        raise OutOfSubset("variable %s is None before a loop that assigns it; its type is not known to the contract" % base)
    if isinstance(v, (int, str, bool)):
        # a concrete value assigned in a loop: becomes an unknown of the same python type
        if isinstance(v, bool):
            return TBool.fresh(base)
        if isinstance(v, int):
            return TInt.fresh(base)
        if isinstance(v, str):
            return TStr.fresh(base)
    if isinstance(v, ListVal):
        raise OutOfSubset("concrete-length list %s modified in a loop with symbolic trip count; declare it as a SeqBox" % base)
    return v


def havoc(eng, box):
    if hasattr(box, "vc_havoc"):
        box.vc_havoc(eng)
    elif isinstance(box, MapVal):
        f = MapVal.fresh("hv", box.kty, box.vty, with_card=box.card is not None, with_keys=box.keys is not None, ordered=box.ordered)
        box.dom, box.val, box.card, box.keys = f.dom, f.val, f.card, f.keys
        light, heavy = box.axioms()
        for x in light:
            eng.assume(x)
        for x in heavy:
            eng.assume(x, heavy=True)
    elif isinstance(box, SeqBox):
        box.term = z3.Const(sv.fresh_name("hv"), box.ty.sort())
    elif isinstance(box, ObjVal):
        for k, v in list(box.fields.items()):
            nv = havoc_value(eng, v, k)
            if nv is not v:
                box.fields[k] = nv
    elif isinstance(box, tuple) and len(box) == 2 and isinstance(box[0], ObjVal):
        o, f = box
        nv = havoc_value(eng, o.fields[f], f)
        if nv is not o.fields[f]:
            o.fields[f] = nv
    else:
        raise OutOfSubset("cannot havoc %r" % (box,))


# -------------------------------------------------------------------------------------------------
# built-in models
# -------------------------------------------------------------------------------------------------


def m_len(eng, args, kwargs, node):
    v = args[0]
    if isinstance(v, (str, tuple, list)):
        return len(v)
    if isinstance(v, ListVal):
        return len(v.items)
    if isinstance(v, SeqBox):
        return Sym(z3.Length(v.term), TInt)
    if isinstance(v, Sym) and (isinstance(v.ty, TSeq) or v.ty == TStr):
        return Sym(z3.Length(v.term), TInt)
    if isinstance(v, Sym) and isinstance(v.ty, TTup):
        return len(v.ty.elts)
    if isinstance(v, MapVal):
        if v.card is None:
            raise OutOfSubset("len() of a map without cardinality at line %s" % node.lineno)
        return Sym(v.card, TInt)
    if isinstance(v, Sym) and hasattr(v.ty, "len_"):
        return v.ty.len_(eng, v, node)
    raise OutOfSubset("len of %r at line %s" % (v, node.lineno))


def py_isinstance(eng, v, classes):
    """z3 Bool / bool for isinstance(v, classes)."""
    if not isinstance(classes, tuple):
        classes = (classes,)
    classes = tuple(getattr(c, "pyclass", c) if isinstance(c, Model) else c for c in classes)
    if isinstance(v, Sym):
        t = v.ty
        if hasattr(t, "isinstance_"):
            try:
                return t.isinstance_(v.term, classes)
            except sv.UndeterminedIsinstance as e:
                raise OutOfSubset(str(e))
        pyt = {TInt: (int,), TBool: (bool, int), TStr: (str,)}.get(t)
        if isinstance(t, TEnum):
            pyt = t.cls.__mro__
        if isinstance(t, TSeq):
            pyt = (list,)
        if isinstance(t, TTup):
            pyt = (tuple,)
        if isinstance(t, TOpt):
            inner = py_isinstance(eng, Sym(t.val(v.term), t.inner), classes)
            nn = z3.Not(t.is_none(v.term))
            if isinstance(inner, bool):
                return nn if inner else False
            return z3.And(nn, inner)
        if pyt is None:
            raise OutOfSubset("isinstance on %r" % (v,))
        return any(issubclass(p, c) for p in pyt for c in classes if isinstance(c, type))
    if isinstance(v, ObjVal):
        pc = getattr(v, "pyclass", None) or v.fields.get("__pyclass__")
        if pc is not None:
            return any(issubclass(pc, c) for c in classes if isinstance(c, type))
        if any(getattr(c, "__name__", None) == v.cls for c in classes):
            return True
        # a modelled object without a Python class: it is certainly not a built-in scalar / container value; whether it
        # is an instance of some other class is not determined by the model
        builtin = (str, int, float, bool, bytes, list, tuple, dict, set, frozenset, type(None))
        if all(c in builtin for c in classes if isinstance(c, type)):
            return False
        raise OutOfSubset("isinstance(<%s object>, %s) is not determined by the contract's model (no pyclass)" % (v.cls, [getattr(c, "__name__", c) for c in classes]))
    if isinstance(v, ListVal) or isinstance(v, SeqBox):
        return any(c is list for c in classes)
    if isinstance(v, MapVal):
        import collections

        if v.ordered:
            return any(c in (dict, collections.OrderedDict) for c in classes)
        return any(c is dict for c in classes)
    if isinstance(v, ExcVal):
        return any(isinstance(v.cls, type) and issubclass(v.cls, c) for c in classes if isinstance(c, type))
    if isinstance(v, (Opaque, Closure, Model)):
        raise OutOfSubset("isinstance on %r" % (v,))
    return isinstance(v, tuple(c for c in classes if isinstance(c, type)))


def m_isinstance(eng, args, kwargs, node):
    r = py_isinstance(eng, args[0], args[1])
    return r if isinstance(r, bool) else Sym(r, TBool)


def m_zip(eng, args, kwargs, node):
    if len(args) != 2:
        raise OutOfSubset("zip arity")
    return ZipIter(args[0], args[1])


def m_enumerate(eng, args, kwargs, node):
    return EnumerateIter(args[0])


def m_range(eng, args, kwargs, node):
    if len(args) == 1:
        if isinstance(args[0], int):
            return range(args[0])
        return RangeIter(TInt.lift(args[0]).term)
    raise OutOfSubset("range with %d args" % len(args))


def m_list(eng, args, kwargs, node):
    if not args:
        return ListVal([])
    v = args[0]
    conc = eng.concrete_iter(v)
    if conc is not None:
        return ListVal(conc)
    if isinstance(v, Sym) and isinstance(v.ty, TSeq):
        return SeqBox(v.term, v.ty)
    if isinstance(v, SeqBox):
        return SeqBox(v.term, v.ty)
    if isinstance(v, ItemsIter) and v.keys0 is not None:
        # list(d.items()): the sequence of (key, value) pairs in key order
        m = v.m
        tt = TTup(m.kty, m.vty)
        r = TSeq(tt).fresh("items")
        i = z3.Int(sv.fresh_name("i"))
        eng.assume(z3.Length(r.term) == z3.Length(v.keys0))
        eng.assume(z3.ForAll([i], z3.Implies(z3.And(0 <= i, i < z3.Length(v.keys0)), r.term[i] == tt.mk(v.keys0[i], z3.Select(m.val, v.keys0[i])))), heavy=True)
        return SeqBox(r.term, r.ty)
    raise OutOfSubset("list(%r) at line %s" % (v, node.lineno))


def m_any(eng, args, kwargs, node):
    v = args[0]
    conc = eng.concrete_iter(v)
    if conc is not None:
        r = False
        for x in conc:
            t = eng.truthy(x)
            if isinstance(t, bool):
                if t:
                    return True
                continue
            r = t if isinstance(r, bool) else z3.Or(r, t)
        return r if isinstance(r, bool) else Sym(r, TBool)
    if isinstance(v, Sym) and isinstance(v.ty, TSeq) and v.ty.elt == TBool:
        return Sym(z3.Contains(v.term, z3.Unit(z3.BoolVal(True))), TBool)
    raise OutOfSubset("any(%r)" % (v,))


def m_all(eng, args, kwargs, node):
    v = args[0]
    conc = eng.concrete_iter(v)
    if conc is not None:
        r = True
        for x in conc:
            t = eng.truthy(x)
            if isinstance(t, bool):
                if not t:
                    return False
                continue
            r = t if isinstance(r, bool) else z3.And(r, t)
        return r if isinstance(r, bool) else Sym(r, TBool)
    if isinstance(v, Sym) and isinstance(v.ty, TSeq) and v.ty.elt == TBool:
        return Sym(z3.Not(z3.Contains(v.term, z3.Unit(z3.BoolVal(False)))), TBool)
    raise OutOfSubset("all(%r)" % (v,))


def m_str(eng, args, kwargs, node):
    v = args[0]
    if isinstance(v, Opaque):
        return Opaque("str()")
    if isinstance(v, str):
        return v
    if isinstance(v, Sym) and v.ty == TStr:
        return v
    if isinstance(v, Sym) and hasattr(v.ty, "to_str"):
        return Sym(v.ty.to_str(v.term), TStr)
    if isinstance(v, Sym) and isinstance(v.ty, TOpt) and v.ty.inner == TStr:
        return Sym(z3.If(v.ty.is_none(v.term), z3.StringVal("None"), v.ty.val(v.term)), TStr)
    if isinstance(v, (int, float)) and not isinstance(v, bool):
        return str(v)
    return Opaque("str()")


def m_type(eng, args, kwargs, node):
    return Opaque("type()")


def m_sorted(eng, args, kwargs, node):
    raise OutOfSubset("sorted() needs a contract-specific model (line %s)" % node.lineno)


def m_dict(eng, args, kwargs, node):
    raise OutOfSubset("dict() needs a contract-specific model (line %s)" % node.lineno)


def m_cast(eng, args, kwargs, node):
    return args[1]


def m_identity(eng, args, kwargs, node):
    return args[0]


BUILTIN_MODELS = {
    "len": Model(m_len, "len"),
    "isinstance": Model(m_isinstance, "isinstance"),
    "zip": Model(m_zip, "zip"),
    "enumerate": Model(m_enumerate, "enumerate"),
    "range": Model(m_range, "range"),
    "list": Model(m_list, "list"),
    "any": Model(m_any, "any"),
    "all": Model(m_all, "all"),
    "str": Model(m_str, "str"),
    "type": Model(m_type, "type"),
    "cast": Model(m_cast, "cast"),
}

BUILTIN_MODELS["str"].pyclass = str
BUILTIN_MODELS["list"].pyclass = list
BUILTIN_MODELS["type"].pyclass = type

CALLABLE_MODELS = {}
