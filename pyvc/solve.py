"""Discharge obligations: z3 first (in worker processes, via SMT-LIB2 text), cvc5 takes z3's unknowns.

Verdicts: 'proved' (unsat of facts /\\ not goal), 'refuted' (sat, model returned), 'undecided'.
`unknown`, timeouts and solver crashes are never mapped to 'refuted'.
"""
import os
import subprocess
import tempfile
import time
import multiprocessing as mp

import z3

CVC5 = "/usr/bin/cvc5"


def to_smt2(facts, goal):
    s = z3.Solver()
    for f in facts:
        s.add(f)
    s.add(z3.Not(goal))
    return s.to_smt2()


def _model_dict(m):
    out = {}
    for d in m.decls():
        try:
            if d.arity() == 0:
                out[d.name()] = str(m[d])
            else:
                out[d.name()] = str(m[d])[:2000]
        except Exception:
            pass
    return out


def _z3_check(text, timeout_ms, attempts=None):
    """one query in a context of its own: what the worker process inherited (the generator's terms, earlier queries) must
    not influence the search -- the same text took 0.3 s in a fresh context and > 30 s in a used one.  A query that is
    still `unknown` is retried once with another seed (slow queries are the unstable ones)."""
    t0 = time.time()
    r, s = z3.unknown, None
    for attempt, (seed, tmo) in enumerate(attempts or ((0, timeout_ms), (7, max(1000, timeout_ms // 2)))):
        c = z3.Context()
        s = z3.Solver(ctx=c)
        s.set("timeout", tmo)
        if seed:
            s.set("random_seed", seed)
        s.from_string(text)
        r = s.check()
        if r != z3.unknown:
            break
    dt = time.time() - t0
    if r == z3.unsat:
        return "proved", dt, None, ""
    if r == z3.sat:
        try:
            m = s.model()
            # prefer a small model (helps concretisation for replay): bound integer constants and sequence lengths
            s.push()
            s.set("timeout", min(timeout_ms, 3000))
            for d in m.decls():
                if d.arity() == 0:
                    c = d()
                    if c.sort().kind() == z3.Z3_INT_SORT:
                        s.add(c >= -6, c <= 6)
                    elif isinstance(c, z3.SeqRef):
                        s.add(z3.Length(c) <= 4)
            if s.check() == z3.sat:
                m = s.model()
            s.pop()
            md = _model_dict(m)
        except Exception as e:  # pragma: no cover
            md = {"__error__": repr(e)}
        return "refuted", dt, md, ""
    return "unknown", dt, None, s.reason_unknown()


def _cvc5_check(text, timeout_ms, produce_model=False):
    # z3's printer emits (check-sat) at the end; cvc5 needs a logic
    # z3 prints its internal `seq.nth_u` (nth with an unspecified value outside the bounds) for some indexings: in
    # SMT-LIB / cvc5 `seq.nth` is unspecified outside the bounds as well
    body = text.replace("seq.nth_u", "seq.nth").replace("seq.nth_i", "seq.nth")
    head = "(set-logic ALL)\n"
    if produce_model:
        head = "(set-option :produce-models true)\n" + head
    with tempfile.NamedTemporaryFile("w", suffix=".smt2", delete=False) as f:
        f.write(head + body)
        if produce_model:
            f.write("\n(get-model)\n")
        path = f.name
    t0 = time.time()
    try:
        p = subprocess.run(
            [CVC5, "--strings-exp", "--tlimit=%d" % timeout_ms, path], capture_output=True, text=True, timeout=timeout_ms / 1000.0 + 5
        )
        out = p.stdout.strip()
        err = p.stderr.strip()
    except subprocess.TimeoutExpired:
        out, err = "timeout", ""
    finally:
        os.unlink(path)
    dt = time.time() - t0
    first = out.split("\n", 1)[0].strip() if out else ""
    if first == "unsat":
        return "proved", dt, None, ""
    if first == "sat":
        return "refuted", dt, {"__cvc5_model__": out[:4000]}, ""
    return "unknown", dt, None, (first + " " + err)[:300]


def _work(task):
    name, text, z3_ms, cvc5_ms, both = task[:5]
    prefer = task[5] if len(task) > 5 else None
    res = {"name": name, "backends": []}
    if prefer == "cvc5":
        # contracts whose obligations (quantifiers over sequences of records) z3 cannot do in any budget, while cvc5
        # answers at once: cvc5 goes first with its full budget; z3 only gets a short confirmation slice
        try:
            st2, dt2, md2, why2 = _cvc5_check(text, cvc5_ms, produce_model=False)
        except Exception as e:
            st2, dt2, md2, why2 = "unknown", 0.0, None, "cvc5 error: %r" % (e,)
        res["backends"].append({"solver": "cvc5", "status": st2, "time_s": round(dt2, 4), "why": why2})
        if st2 == "proved":
            by = "cvc5"
            if both:
                try:
                    stz, dtz, mdz, whyz = _z3_check(text, z3_ms, attempts=((0, 3000),))
                except Exception as e:
                    stz, dtz, mdz, whyz = "unknown", 0.0, None, "z3 error: %r" % (e,)
                res["backends"].append({"solver": "z3", "status": stz, "time_s": round(dtz, 4), "why": whyz})
                if stz == "refuted":
                    res.update({"status": "undecided", "by": "z3/cvc5 disagree", "model": None})
                    return res
                if stz == "proved":
                    by = "z3+cvc5"
            res.update({"status": "proved", "by": by, "model": None})
            return res
    # portfolio: (A) z3, short slice -- decides the bulk; (B) cvc5, short -- on quantified obligations over sequences it
    # often answers `unsat` in milliseconds where z3 needs minutes; (C) z3 with the full budget and a second seed;
    # (D) cvc5 with its full budget.  `refuted` is only taken from z3 (its model feeds the replay) unless z3 stays unknown.
    def run_z3(attempts):
        try:
            return _z3_check(text, z3_ms, attempts=attempts)
        except Exception as e:
            return "unknown", 0.0, None, "z3 error: %r" % (e,)

    def run_cvc5(ms):
        try:
            return _cvc5_check(text, ms, produce_model=False)
        except Exception as e:
            return "unknown", 0.0, None, "cvc5 error: %r" % (e,)

    short = min(2000, z3_ms)
    st, dt, md, why = run_z3(((0, short),))
    res["backends"].append({"solver": "z3", "status": st, "time_s": round(dt, 4), "why": why})
    final, model, by = st, md, "z3"
    st2 = None
    if st == "unknown":
        st2, dt2, md2, why2 = run_cvc5(min(5000, cvc5_ms))
        res["backends"].append({"solver": "cvc5", "status": st2, "time_s": round(dt2, 4), "why": why2})
        if st2 == "proved":
            final, model, by = "proved", None, "cvc5"
        else:
            st, dt, md, why = run_z3(((0, z3_ms), (7, max(1000, z3_ms // 2))))
            res["backends"].append({"solver": "z3", "status": st, "time_s": round(dt, 4), "why": why})
            final, model, by = st, md, "z3"
            if st == "unknown":
                if st2 != "refuted" and cvc5_ms > 5000 and "rror" not in (why2 or ""):
                    st2, dt2, md2, why2 = run_cvc5(cvc5_ms)
                    res["backends"].append({"solver": "cvc5", "status": st2, "time_s": round(dt2, 4), "why": why2})
                if st2 in ("proved", "refuted"):
                    final, model, by = st2, md2, "cvc5"
    if both and final == "proved":
        # thorough tier: the other solver has to agree
        if by == "z3":
            # confirmation by the other solver: bounded (its `unknown` leaves the verdict with z3 alone, recorded as such)
            st2, dt2, md2, why2 = run_cvc5(min(cvc5_ms, 10000))
            res["backends"].append({"solver": "cvc5", "status": st2, "time_s": round(dt2, 4), "why": why2})
        else:
            st2 = "proved"
            # cvc5 proved it after z3 gave up on its short slice: z3 gets one more bounded attempt to confirm; its
            # `unknown` leaves the verdict with cvc5 alone (recorded as such), only a z3 model makes it a disagreement
            stz, dtz, mdz, whyz = run_z3(((0, min(z3_ms, 15000)),))
            res["backends"].append({"solver": "z3", "status": stz, "time_s": round(dtz, 4), "why": whyz})
            if stz == "refuted":
                st2 = "refuted"
            elif stz == "proved":
                by = "z3"
        if st2 == "refuted":
            final, by = "undecided", "z3/cvc5 disagree"
        elif st2 == "proved" and by == "z3":
            by = "z3+cvc5"
    if final == "unknown":
        final = "undecided"
        # the solvers gave up: bounded counterexample search on a quantifier-free instance of the VC (a candidate only)
        try:
            from . import refute

            st3, m3 = refute.search_text(text, N=4, timeout_ms=z3_ms)
        except Exception as e:
            st3, m3 = "unknown", None
        res["bounded"] = st3
        if st3 == "candidate":
            res["candidate_model"] = m3
    res["status"] = final
    res["by"] = by
    res["model"] = model
    return res


MEM_LIMIT_MB = int(os.environ.get("PYVC_WORKER_MEM_MB", "3500"))  # 16 workers stay well inside the machine


def _limit_memory():
    """in a worker: a query that explodes gives `unknown` (MemoryError / z3 memory limit), it does not take the machine down"""
    import resource

    try:
        resource.setrlimit(resource.RLIMIT_AS, (MEM_LIMIT_MB * 2 * 1024 * 1024, MEM_LIMIT_MB * 2 * 1024 * 1024))
    except Exception:
        pass
    try:
        z3.set_param("memory_max_size", MEM_LIMIT_MB)
    except Exception:
        pass


def robust_map(fn, items, procs, on_crash, limit_memory=True, second_chance=None):
    """pool.map that survives a dying worker: the items that were in flight are re-run one by one in a fresh process;
    an item whose process dies again gets on_crash(item).  Never hangs on a lost task."""
    from concurrent.futures import ProcessPoolExecutor
    from concurrent.futures.process import BrokenProcessPool

    ctx = mp.get_context("fork")
    init = _limit_memory if limit_memory else None
    results = [None] * len(items)
    done = [False] * len(items)
    try:
        with ProcessPoolExecutor(max_workers=procs, mp_context=ctx, initializer=init) as ex:
            futs = {i: ex.submit(fn, it) for i, it in enumerate(items)}
            for i, f in futs.items():
                try:
                    results[i] = f.result()
                    done[i] = True
                except BrokenProcessPool:
                    break
    except BrokenProcessPool:
        pass
    todo = [i for i in range(len(items)) if not done[i]]
    if not todo:
        return results
    # salvage: which of the remaining futures completed before the pool broke is unknown -> run each in isolation
    width = max(1, min(procs, 4))
    for start in range(0, len(todo), width):
        batch = todo[start : start + width]
        execs = []
        for i in batch:
            ex = ProcessPoolExecutor(max_workers=1, mp_context=ctx, initializer=init)
            execs.append((i, ex, ex.submit(fn, items[i])))
        for i, ex, f in execs:
            try:
                results[i] = f.result()
            except BrokenProcessPool:
                results[i] = None
                if second_chance is not None:
                    ex2 = ProcessPoolExecutor(max_workers=1, mp_context=ctx, initializer=init)
                    try:
                        results[i] = ex2.submit(second_chance, items[i]).result()
                    except BrokenProcessPool:
                        results[i] = None
                    ex2.shutdown(wait=True)
                if results[i] is None:
                    results[i] = on_crash(items[i])
            ex.shutdown(wait=True)
    return results


def _work_safe(task):
    """second chance for a query whose worker process died (z3 ran out of memory): cvc5 with its full budget, then z3 for
    a short slice only"""
    name, text, z3_ms, cvc5_ms, both = task[:5]
    res = {"name": name, "backends": [{"solver": "z3", "status": "unknown", "time_s": 0.0, "why": "solver process died (memory limit); retried in safe mode"}]}
    try:
        st2, dt2, md2, why2 = _cvc5_check(text, cvc5_ms, produce_model=False)
    except Exception as e:
        st2, dt2, md2, why2 = "unknown", 0.0, None, "cvc5 error: %r" % (e,)
    res["backends"].append({"solver": "cvc5", "status": st2, "time_s": round(dt2, 4), "why": why2})
    final, by, model = ("proved", "cvc5", None) if st2 == "proved" else ("undecided", "-", None)
    if final != "proved":
        try:
            st, dt, md, why = _z3_check(text, z3_ms, attempts=((0, min(2000, z3_ms)),))
        except Exception as e:
            st, dt, md, why = "unknown", 0.0, None, "z3 error: %r" % (e,)
        res["backends"].append({"solver": "z3", "status": st, "time_s": round(dt, 4), "why": why})
        if st in ("proved", "refuted"):
            final, by, model = st, "z3", md
    res.update({"status": final, "by": by, "model": model})
    return res


def _crashed(task):
    return {"name": task[0], "backends": [{"solver": "z3", "status": "unknown", "time_s": 0.0, "why": "solver process died (memory limit?)"}], "status": "undecided", "by": "-", "model": None}


def run_tasks(tasks, procs=None):
    """tasks: list of (name, smt2 text, z3_ms, cvc5_ms, both) -> list of result dicts"""
    if not tasks:
        return []
    procs = procs or min(16, len(tasks))
    if procs == 1:
        return [_work(t) for t in tasks]
    return robust_map(_work, tasks, procs, _crashed, second_chance=_work_safe)


def check_text(name, text, z3_ms=10000, cvc5_ms=20000, both=False):
    return _work((name, text, z3_ms, cvc5_ms, both))
