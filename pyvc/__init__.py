"""pyvc -- a small modular deductive verifier for a stated subset of Python.

It re-reads the real source under /repo on every run, symbolically executes the
AST of each function under contract path by path, and emits named proof
obligations that are discharged by z3 / cvc5.  See /verif/DESIGN.md section 2.
"""
