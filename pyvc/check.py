"""Property-level driver: obligations -> verdicts -> findings / violations -> evidence."""
import hashlib
import importlib
import json
import os
import re
import subprocess
import sys
import time

import z3

from . import run, solve
from .engine import Obligation

VERIF = os.path.dirname(os.path.dirname(os.path.abspath(__file__)))
REPO = os.environ.get("DDS_REPO", "/repo")
VENV_PY = "/venv/bin/python"


def base_name(full):
    # "Q.name#clause@line:pN" -> "Q.name#clause"
    return re.sub(r"@\d+:p\d+$", "", full)


def load_known():
    p = os.path.join(VERIF, "known_findings.json")
    if not os.path.exists(p):
        return []
    with open(p) as f:
        return json.load(f)["findings"]


def native_replay(handler, payload, timeout=120):
    """Run a replay handler against the real code under /venv/bin/python."""
    env = dict(os.environ)
    env["PYTHONPATH"] = REPO + os.pathsep + VERIF
    env.pop("PYTHONHASHSEED", None)
    try:
        p = subprocess.run(
            [VENV_PY, os.path.join(VERIF, "replay", "native.py"), handler],
            input=json.dumps(payload),
            capture_output=True,
            text=True,
            timeout=timeout,
            env=env,
            cwd=VERIF,
        )
    except subprocess.TimeoutExpired:
        return {"reproduced": None, "detail": "replay timed out"}
    out = p.stdout.strip().split("\n")[-1] if p.stdout.strip() else ""
    try:
        return json.loads(out)
    except Exception:
        return {"reproduced": None, "detail": "replay handler crashed: " + (p.stderr or p.stdout)[-1500:]}


class PropertyRun:
    def __init__(self, pid, tier, seed):
        self.pid = pid
        self.tier = tier
        self.seed = seed
        self.t0 = time.time()
        self.lines = []
        self.violations = []
        self.known_hits = []
        self.undecided = []
        self.errors = []
        self.fun_reports = []
        self.obl_total = 0
        self.obl_proved = 0
        self.by_backend = {}
        self.solver_time = 0.0
        self.bounded = []
        self.samples = []
        self.residuals = 0
        self.assumptions = []
        self.trusted = []
        self.canaries = {"functions": 0, "refuted_false_post": 0}
        self.not_owned = 0

    def say(self, s):
        print(s, flush=True)
        self.lines.append(s)


def _write_replay(pr, name, payload):
    d = os.path.join(VERIF, "replays", pr.pid)
    os.makedirs(d, exist_ok=True)
    safe = re.sub(r"[^A-Za-z0-9_.#:@-]", "_", name)[:150]
    path = os.path.join(d, safe + ".json")
    with open(path, "w") as f:
        json.dump(payload, f, indent=1, default=str)
    return os.path.relpath(path, VERIF)


def run_property(mod, tier, seed):
    from . import refute

    pid = mod.ID
    pr = PropertyRun(pid, tier, seed)
    quick = tier == "quick"
    z3_ms = 10000 if quick else 60000
    cvc5_ms = 20000 if quick else 60000
    both = not quick
    known = [k for k in load_known() if k["property"] == pid]
    open_known = [k for k in known if k.get("status") == "open"]

    specs = mod.specs()
    extra = mod.lemmas() if hasattr(mod, "lemmas") else []
    reports = run.verify(specs, z3_ms=z3_ms, cvc5_ms=cvc5_ms, both=both, extra_obligations=extra)

    replay_table = getattr(mod, "REPLAY", {})
    used_open = set()
    for rep in reports:
        qn = rep["qualname"] + ("[%s]" % rep["variant"] if rep.get("variant") else "")
        fr = {"file": rep["file"], "qualname": qn, "sha256": rep["sha256"], "paths": rep["paths"], "obligations": len(rep["obligations"]), "proved": 0, "gen_time_s": rep.get("gen_time")}
        pr.fun_reports.append(fr)
        if rep["error"]:
            pr.errors.append("%s:%s: %s" % (rep["file"], qn, rep["error"]))
            continue
        if not rep["obligations"]:
            pr.errors.append("%s:%s: zero obligations generated" % (rep["file"], qn))
            continue
        if rep["canaries"]:
            pr.canaries["functions"] += 1
            sts = [c["result"]["status"] for c in rep["canaries"]]
            if any(x == "refuted" for x in sts):
                pr.canaries["refuted_false_post"] += 1
            elif all(x == "proved" for x in sts):
                pr.errors.append("%s: every path end is unreachable under the contract's assumptions (vacuous proof)" % qn)
        owns = getattr(mod, "owns", None)
        for ob in rep["obligations"]:
            res = ob["result"]
            name = ob["name"]
            if owns is not None and not owns(base_name(name), ob["kind"]):
                pr.not_owned += 1
                continue
            pr.obl_total += 1
            for b in res["backends"]:
                pr.solver_time += b["time_s"]
            if res["status"] == "proved":
                pr.obl_proved += 1
                fr["proved"] += 1
                pr.by_backend[res["by"]] = pr.by_backend.get(res["by"], 0) + 1
                if len(pr.samples) < 4 and not ob["trivial"] and ob["kind"] in ("post", "loop-preserve"):
                    pr.samples.append({"obligation": name, "kind": ob["kind"], "status": "proved", "by": res["by"], "goal": ob["goal_text"][:400], "n_facts": ob["n_facts"]})
                continue
            bname = base_name(name)
            status, model, how = res["status"], res["model"], "solver model (unbounded VC)"
            if status == "undecided" and ob["smt2"]:
                # the solvers gave up: bounded counterexample search on a quantifier-free instance of the VC (done in the worker)
                st2, m2 = res.get("bounded"), res.get("candidate_model")
                if st2 == "candidate":
                    status, model, how = "candidate", m2, "model of the bounded quantifier-free instance (N=4); must reproduce natively"
                    if ob["goal_text"].strip() == "False":
                        # the clause was decided False on the concrete effect trace of this path; the model only has to
                        # witness that the path is feasible
                        status, how = "refuted", "clause is False on this path's effect trace; path feasibility witnessed by a model of the bounded instance"
            if status == "undecided" and ob.get("smt2_path_condition"):
                r2 = solve.check_text(name + "[path condition]", ob["smt2_path_condition"], z3_ms, cvc5_ms)
                if r2["status"] == "refuted":
                    status, model = "refuted", r2["model"]
                    how = "clause is False on this path (decided on the concrete effect trace / call structure); the quantifier-free path condition is satisfiable"
            if status == "undecided":
                pr.undecided.append(name + " " + json.dumps(res["backends"]))
                continue
            # refuted / candidate ------------------------------------------------------
            hits = [k for k in open_known if k["obligation"] == bname]
            handled = False
            for k in hits:
                rtext = ob["residuals"].get(k["class"])
                if rtext is None:
                    continue
                rr = solve.check_text(name + "[residual:%s]" % k["class"], rtext, z3_ms, cvc5_ms)
                pr.residuals += 1
                pr.obl_total += 1
                if rr["status"] == "undecided":
                    st2, m2 = refute.search_text(rtext, N=4, timeout_ms=z3_ms)
                    if st2 == "none":
                        rr["status"] = "bounded-none"
                    elif st2 == "candidate":
                        rr["status"], rr["model"] = "candidate", m2
                if rr["status"] == "proved":
                    pr.obl_proved += 1
                    if (bname, k["class"]) not in used_open:
                        used_open.add((bname, k["class"]))
                        pr.known_hits.append(k)
                    handled = True
                    break
                if rr["status"] in ("refuted", "candidate"):
                    status, model = rr["status"], rr["model"]
                    name = name + "[outside known class %s]" % k["class"]
                    how = "model of the residual obligation"
                else:
                    pr.undecided.append(name + "[residual:%s] " % k["class"] + json.dumps(rr.get("backends")))
                    handled = True
                    break
            if handled:
                continue
            handler = replay_table.get(bname)
            payload = {
                "property": pid,
                "obligation": name,
                "function_sha256": rep["sha256"],
                "file": rep["file"],
                "kind": ob["kind"],
                "line": ob["line"],
                "goal": ob["goal_text"],
                "verdict": status,
                "how": how,
                "solver": res["backends"],
                "model": model,
                "meta": ob["meta"],
                "baseline": baseline_status(pid, bname),
            }
            if handler:
                out = native_replay(handler, {"model": model, "obligation": name})
                payload["replay_handler"] = handler
                payload["native"] = out
                path = _write_replay(pr, name, payload)
                if out.get("reproduced") is True:
                    pr.violations.append((name, path, ""))
                elif out.get("reproduced") is False or status == "candidate":
                    # the model does not reproduce on the real code: encoding / contract imprecision, not a defect
                    pr.undecided.append(name + " model-not-reproduced replay=" + path)
                else:
                    pr.violations.append((name, path, " no-failing-input-found"))
            else:
                payload["native"] = {"reproduced": None, "detail": "no native replay handler for this obligation; the solver output is attached"}
                path = _write_replay(pr, name, payload)
                if status == "candidate":
                    pr.undecided.append(name + " bounded-candidate-without-replay replay=" + path)
                else:
                    pr.violations.append((name, path, " no-failing-input-found"))

    # bounded stand-ins (never counted as proved)
    if hasattr(mod, "bounded"):
        for b in mod.bounded(tier, seed, pr):
            pr.bounded.append(b)

    return finish(pr, mod, open_known, used_open)


_baseline = None


def baseline_status(pid, bname):
    global _baseline
    if _baseline is None:
        p = os.path.join(VERIF, "baseline_obligations.json")
        _baseline = json.load(open(p)) if os.path.exists(p) else {}
    return _baseline.get(pid, {}).get(bname, "not recorded")


def finish(pr, mod, open_known, used_open):
    pid = pr.pid
    for k in pr.known_hits:
        pr.say("KNOWN-FINDING: property=%s %s [%s] %s" % (pid, k["obligation"], k["class"], k["what"]))
    bounded_fail = []
    for b in pr.bounded:
        for kf in b.get("known_hits", []):
            pr.say("KNOWN-FINDING: property=%s %s" % (pid, kf))
        for v in b.get("violations", []):
            bounded_fail.append(v)
    seen = set()
    for name, path, tail in pr.violations:
        if base_name(name) in seen:
            continue
        seen.add(base_name(name))
        pr.say("VIOLATION property=%s replay=%s obligation=%s%s" % (pid, path, base_name(name), tail))
    for v in bounded_fail:
        pr.say("VIOLATION property=%s replay=%s bounded-check=%s" % (pid, v["replay"], v["name"]))
    useen = {}
    vio_bases = {base_name(n) for n, _, _ in pr.violations}
    pr.undecided = [u for u in pr.undecided if base_name(u.split(" ")[0]) not in vio_bases]
    for u in pr.undecided:
        b = base_name(u.split(" ")[0])
        useen.setdefault(b, []).append(u)
    for b, us in useen.items():
        pr.say("UNDECIDED property=%s obligation=%s%s" % (pid, us[0], " (+%d more paths)" % (len(us) - 1) if len(us) > 1 else ""))
    for e in pr.errors:
        pr.say("ENGINE-ERROR property=%s %s" % (pid, e))
    n_viol = len(seen) + len(bounded_fail)
    if n_viol:
        code = 1
    elif pr.errors:
        code = 3
    elif pr.undecided:
        code = 2
    else:
        code = 0
    if pr.obl_total == 0 and not pr.bounded:
        pr.say("ENGINE-ERROR property=%s zero obligations" % pid)
        code = 3
    write_evidence(pr, mod, code, n_viol)
    pr.say(
        "%s tier=%s obligations=%d discharged=%d undecided=%d known_findings=%d violations=%d bounded_checks=%d exit=%d (%.1fs)"
        % (pid, pr.tier, pr.obl_total, pr.obl_proved, len(pr.undecided), len(pr.known_hits) + sum(len(b.get("known_hits", [])) for b in pr.bounded), n_viol, len(pr.bounded), code, time.time() - pr.t0)
    )
    return code


def write_evidence(pr, mod, code, n_viol):
    level = getattr(mod, "LEVEL", "other")
    open_hits = len(pr.known_hits) + sum(len(b.get("known_hits", [])) for b in pr.bounded)
    b_evals = sum(b.get("evaluations", 0) for b in pr.bounded)
    b_distinct = sum(b.get("distinct_nontrivial", 0) for b in pr.bounded)
    samples = list(pr.samples)
    for b in pr.bounded:
        for s in b.get("samples", [])[:2]:
            samples.append({"bounded": b["name"], "case": s})
    if not samples:
        samples = [{"note": "no non-trivial obligation sample on this run"}]
    ev = {
        "property_id": pr.pid,
        "tier": pr.tier,
        "seed": pr.seed,
        "level": level,
        "coverage": {
            "obligations": pr.obl_total,
            "discharged": pr.obl_proved,
            "checker_cmd": "./vcheck %s --tier %s" % (pr.pid, pr.tier),
            "trusted_base": sorted(set(getattr(mod, "TRUSTED", []))),
            "explanation": getattr(mod, "EXPLANATION", ""),
            "evaluations": max(pr.obl_total + b_evals, 1),
            "distinct_nontrivial": len({f["qualname"] for f in pr.fun_reports if f["obligations"]}) + b_distinct,
            "rule": "one case per generated proof obligation (named <function>#<clause>@line:path) plus the bounded stand-in cases listed under 'bounded'; distinct_nontrivial counts functions under contract plus distinct non-trivial bounded cases",
            "samples": samples,
            "functions_under_contract": pr.fun_reports,
            "by_backend": pr.by_backend,
            "solver_time_s": round(pr.solver_time, 3),
            "undecided": pr.undecided,
            "known_findings_reported": [dict(k) for k in pr.known_hits] + [x for b in pr.bounded for x in b.get("known_hits", [])],
            "residual_obligations": pr.residuals,
            "bounded": [{k: v for k, v in b.items() if k not in ("violations",)} for b in pr.bounded],
            "vacuity_canaries": pr.canaries,
            "obligations_of_these_functions_owned_by_other_properties": pr.not_owned,
            "engine_errors": pr.errors,
            "exit_code": code,
        },
        "assumptions": sorted(set(getattr(mod, "ASSUMPTIONS", []))),
        "wall_s": round(time.time() - pr.t0, 3),
        "violations": n_viol,
    }
    d = os.path.join(VERIF, "evidence")
    os.makedirs(d, exist_ok=True)
    tmp = os.path.join(d, pr.pid + ".json.tmp")
    with open(tmp, "w") as f:
        json.dump(ev, f, indent=1, default=str)
    os.replace(tmp, os.path.join(d, pr.pid + ".json"))


def main(argv):
    import argparse

    ap = argparse.ArgumentParser()
    ap.add_argument("prop")
    ap.add_argument("--tier", default=os.environ.get("VERIF_TIER", "quick"), choices=["quick", "thorough"])
    ap.add_argument("--replay", default=None)
    a = ap.parse_args(argv)
    seed = int(os.environ.get("VERIF_SEED", "0") or 0)
    sys.path.insert(0, VERIF)
    sys.path.insert(0, REPO)
    if a.replay:
        with open(a.replay) as f:
            payload = json.load(f)
        h = payload.get("replay_handler")
        if not h:
            print("no native replay for this obligation; solver output:\n" + json.dumps(payload.get("solver")))
            return 0
        out = native_replay(h, {"model": payload.get("model"), "obligation": payload.get("obligation")})
        print(json.dumps(out, indent=1))
        return 1 if out.get("reproduced") else 0
    mod = importlib.import_module("props." + a.prop)
    try:
        return run_property(mod, a.tier, seed)
    except Exception:
        import traceback

        traceback.print_exc()
        print("ENGINE-ERROR property=%s checker crashed" % a.prop)
        return 3
