#!/bin/bash
# tools/saveseed.sh <name> <outdir> "<detected-by text>" <props...>  -- runs seedcheck, stores the seed under seeded/<name>/
name="$1"; out="$2"; shift 2
mkdir -p seeded/$name
cp "$out/patch.diff" "$out/demo.py" seeded/$name/
tools/seedcheck.sh "$out" "$@" > seeded/$name/run.log 2>&1
python3 - "$name" "$out" "$@" <<'PY'
import json,sys,re
name,out=sys.argv[1],sys.argv[2]; props=sys.argv[3:]
meta=json.load(open(out+"/meta.json"))
log=open("seeded/%s/run.log"%name).read()
meta["confirmed"]={"demo_clean_exit":re.search(r"demo_clean_exit=(\d+)",log).group(1),"demo_changed_exit":re.search(r"demo_changed_exit=(\d+)",log).group(1),"tests_with_change":(re.search(r"=+ (.*passed.*) =+",log) or [None,"?"])[1]}
meta["checks_run"]=["DDS_REPO=<scratch worktree with patch> ./vcheck %s --tier quick"%p for p in props]
meta["check_output"]=[l for l in log.split("\n") if re.search(r"VIOLATION|UNDECIDED|ENGINE-ERROR|exit=",l)][:12]
json.dump(meta,open("seeded/%s/meta.json"%name,"w"),indent=1)
print(json.dumps(meta["confirmed"]), *meta["check_output"], sep="\n")
PY
