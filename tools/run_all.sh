#!/bin/bash
# regenerate every evidence file on the real tree (quick tier unless $1 given)
cd "$(dirname "$0")/.."
tier="${1:-quick}"
rc=0
for f in props/C*.py; do
  id=$(basename "$f" .py)
  ./vcheck "$id" --tier "$tier" | tail -n 3
  c=${PIPESTATUS[0]}
  [ "$c" != 0 ] && rc=1 && echo "  -> $id exit $c"
done
exit $rc
