#!/bin/bash
# tools/seedcheck.sh <outdir with patch.diff, demo.py> <prop> [<prop>...]
# confirms a seeded change (tests pass, demo fails with / passes without) in a scratch worktree, then runs the checks on it
set -u
out="$(realpath "$1")"; shift
wt=$(mktemp -d /tmp/seedwt.XXXXXX); rmdir "$wt"
git -C /repo worktree add -q --detach "$wt" HEAD || exit 3
cd "$wt"
# everything the tests / the demo leave behind goes to a scratch TMPDIR that is removed afterwards
scratch=$(mktemp -d /tmp/seedtmp.XXXXXX)
echo "--- demo on clean tree"; TMPDIR="$scratch" PYTHONPATH="$wt" timeout 300 /venv/bin/python "$out/demo.py" >/dev/null 2>&1; echo "demo_clean_exit=$?"
if ! git apply "$out/patch.diff"; then echo "PATCH DOES NOT APPLY"; cd /; git -C /repo worktree remove --force "$wt"; exit 3; fi
echo "--- tests with change"; TMPDIR="$scratch" PYTHONPATH="$wt" timeout 900 /venv/bin/python -m pytest -q -p no:cacheprovider --timeout=900 dds_tests 2>&1 | tail -1
echo "--- demo with change"; TMPDIR="$scratch" PYTHONPATH="$wt" timeout 300 /venv/bin/python "$out/demo.py" >/dev/null 2>&1; echo "demo_changed_exit=$?"
rm -rf "$scratch"
cd /verif
mkdir -p .scratch
for p in "$@"; do
  cp -f evidence/$p.json .scratch/$p.json.keep 2>/dev/null
  DDS_REPO="$wt" ./vcheck "$p" | grep -E "VIOLATION|UNDECIDED|ENGINE-ERROR|exit=" | cut -c1-300
  cp -f .scratch/$p.json.keep evidence/$p.json 2>/dev/null
done
git -C /repo worktree remove --force "$wt"
