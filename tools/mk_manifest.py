"""Regenerate MANIFEST.json from the props/*.py modules (keeps it schema-valid)."""
import glob, importlib, json, os, sys
V = os.path.dirname(os.path.dirname(os.path.abspath(__file__)))
sys.path.insert(0, V); sys.path.insert(0, "/repo")
ALL = ["C%02d" % i for i in range(1, 20)]
NA_REASONS = {
    "C07": "quantifies over schedules of concurrent processes sharing a store; a sequential contract verifier (function pre/postconditions, one thread of control) is silent on interleavings, and the only deductive route (rely/guarantee stability of every intermediate assertion at file-system-operation granularity) amounts to exploring the product of the processes' steps, i.e. model checking, a different family (DESIGN.md section 6)",
}
checks, na = [], []
for pid in ALL:
    p = os.path.join(V, "props", pid + ".py")
    if not os.path.exists(p):
        na.append({"property_id": pid, "reason": NA_REASONS.get(pid, "check not built yet in this session (planned in DESIGN.md section 5)")})
        continue
    m = importlib.import_module("props." + pid)
    checks.append({
        "property_id": pid,
        "quick_cmd": "./vcheck %s --tier quick" % pid,
        "thorough_cmd": "./vcheck %s --tier thorough" % pid,
        "evidence_file": "evidence/%s.json" % pid,
        "replay_cmd_template": "./vcheck %s --replay {path}" % pid,
        "engine": "pyvc",
        "level_claimed": {"category": m.LEVEL, "text": m.LEVEL_TEXT, "design_ref": getattr(m, "DESIGN_REF", "5")},
        "level_note": "; ".join(m.TRUSTED),
        "technique": getattr(m, "TECHNIQUE", "contract-based deductive verification: VCs generated from the real AST against sidecar contracts, discharged by z3/cvc5"),
    })
man = {
    "version": 1,
    "setup_cmd": "python3-vt -c 'import z3, cvc5' && /venv/bin/python -c 'import dds' && test -x /usr/bin/cvc5 && chmod +x ./vcheck",
    "hooks": {
        "guard": "DDS_PY_VERIF",
        "enable": "no instrumentation of /repo is needed: contracts are sidecar files under /verif/contracts; the verifier re-reads /repo/dds/*.py on every run",
        "baseline_off_cmd": "cd /repo && /venv/bin/python -m pytest -ra -q -p no:cacheprovider --timeout=900 --continue-on-collection-errors",
        "source_commits": [],
        "add_only": True,
    },
    "engines": [{"name": "pyvc", "path": "pyvc/", "serves_properties": [c["property_id"] for c in checks],
                 "kind_free_text": "home-made modular deductive verifier for a stated Python subset: symbolic execution of the real AST per path against sidecar contracts (requires/ensures/signals/loop invariants/frames), obligations discharged by z3 5.1 with cvc5 1.0.3 taking z3's unknowns; refuted obligations are replayed on the real code under /venv/bin/python"}],
    "checks": checks,
    "notes": "exit codes: 0 held / 1 violation (VIOLATION line) / 2 undecided obligation / 3 engine trouble. Genuine defects repaired by 'fix:' commits in /repo and open findings are listed in known_findings.json.",
    "not_applicable": na,
}
json.dump(man, open(os.path.join(V, "MANIFEST.json"), "w"), indent=1)
import jsonschema
jsonschema.validate(man, json.load(open("/root/.vp/MANIFEST.schema.json")))
print("MANIFEST ok: %d checks, %d n/a" % (len(checks), len(na)))
