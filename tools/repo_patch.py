"""Apply exact-text replacements to a file under /repo preserving its line endings (several dds files use CRLF)."""
import sys


def patch(path, pairs):
    b = open(path, "rb").read()
    crlf = b"\r\n" in b
    s = b.decode()
    if crlf:
        s = s.replace("\r\n", "\n")
    for old, new in pairs:
        assert s.count(old) >= 1, (path, old[:60])
        s = s.replace(old, new)
    if crlf:
        s = s.replace("\n", "\r\n")
    open(path, "wb").write(s.encode())
