#!/bin/bash
# tools/mutcheck.sh <patch.diff> <prop> [<prop>...]  -- apply a patch to a scratch worktree of /repo HEAD, run checks there, clean up
set -u
patch="$(realpath "$1")"; shift
wt=$(mktemp -d /tmp/mutwt.XXXXXX); rmdir "$wt"
git -C /repo worktree add -q --detach "$wt" HEAD || exit 3
if ! git -C "$wt" apply "$patch"; then echo "PATCH DOES NOT APPLY"; git -C /repo worktree remove --force "$wt"; exit 3; fi
cd "$(dirname "$0")/.."
mkdir -p .scratch
for p in "$@"; do
  # evidence of scratch runs must not overwrite the real evidence
  cp -f evidence/$p.json .scratch/$p.json.keep 2>/dev/null
  DDS_REPO="$wt" ./vcheck "$p" | grep -E "VIOLATION|UNDECIDED|ENGINE-ERROR|KNOWN|exit=" | cut -c1-260
  cp -f .scratch/$p.json.keep evidence/$p.json 2>/dev/null
done
git -C /repo worktree remove --force "$wt"
